
(** val negb : bool -> bool **)

let negb = function
| true -> false
| false -> true

type nat =
| O
| S of nat

(** val option_map : ('a1 -> 'a2) -> 'a1 option -> 'a2 option **)

let option_map f = function
| Some a -> Some (f a)
| None -> None

(** val fst : ('a1 * 'a2) -> 'a1 **)

let fst = function
| (x, _) -> x

(** val snd : ('a1 * 'a2) -> 'a2 **)

let snd = function
| (_, y) -> y

(** val length : 'a1 list -> nat **)

let rec length = function
| [] -> O
| _ :: l' -> S (length l')

(** val app : 'a1 list -> 'a1 list -> 'a1 list **)

let rec app l m =
  match l with
  | [] -> m
  | a :: l1 -> a :: (app l1 m)

type comparison =
| Eq
| Lt
| Gt

(** val compOpp : comparison -> comparison **)

let compOpp = function
| Eq -> Eq
| Lt -> Gt
| Gt -> Lt

module Coq__1 = struct
 (** val add : nat -> nat -> nat **)
 let rec add n0 m =
   match n0 with
   | O -> m
   | S p -> S (add p m)
end
include Coq__1

(** val sub : nat -> nat -> nat **)

let rec sub n0 m =
  match n0 with
  | O -> n0
  | S k -> (match m with
            | O -> n0
            | S l -> sub k l)

type positive =
| XI of positive
| XO of positive
| XH

type n =
| N0
| Npos of positive

type z =
| Z0
| Zpos of positive
| Zneg of positive

module Nat =
 struct
  (** val leb : nat -> nat -> bool **)

  let rec leb n0 m =
    match n0 with
    | O -> true
    | S n' -> (match m with
               | O -> false
               | S m' -> leb n' m')

  (** val ltb : nat -> nat -> bool **)

  let ltb n0 m =
    leb (S n0) m
 end

module Pos =
 struct
  type mask =
  | IsNul
  | IsPos of positive
  | IsNeg
 end

module Coq_Pos =
 struct
  (** val succ : positive -> positive **)

  let rec succ = function
  | XI p -> XO (succ p)
  | XO p -> XI p
  | XH -> XO XH

  (** val add : positive -> positive -> positive **)

  let rec add x y =
    match x with
    | XI p ->
      (match y with
       | XI q -> XO (add_carry p q)
       | XO q -> XI (add p q)
       | XH -> XO (succ p))
    | XO p ->
      (match y with
       | XI q -> XI (add p q)
       | XO q -> XO (add p q)
       | XH -> XI p)
    | XH -> (match y with
             | XI q -> XO (succ q)
             | XO q -> XI q
             | XH -> XO XH)

  (** val add_carry : positive -> positive -> positive **)

  and add_carry x y =
    match x with
    | XI p ->
      (match y with
       | XI q -> XI (add_carry p q)
       | XO q -> XO (add_carry p q)
       | XH -> XI (succ p))
    | XO p ->
      (match y with
       | XI q -> XO (add_carry p q)
       | XO q -> XI (add p q)
       | XH -> XO (succ p))
    | XH ->
      (match y with
       | XI q -> XI (succ q)
       | XO q -> XO (succ q)
       | XH -> XI XH)

  (** val pred_double : positive -> positive **)

  let rec pred_double = function
  | XI p -> XI (XO p)
  | XO p -> XI (pred_double p)
  | XH -> XH

  type mask = Pos.mask =
  | IsNul
  | IsPos of positive
  | IsNeg

  (** val succ_double_mask : mask -> mask **)

  let succ_double_mask = function
  | IsNul -> IsPos XH
  | IsPos p -> IsPos (XI p)
  | IsNeg -> IsNeg

  (** val double_mask : mask -> mask **)

  let double_mask = function
  | IsPos p -> IsPos (XO p)
  | x0 -> x0

  (** val double_pred_mask : positive -> mask **)

  let double_pred_mask = function
  | XI p -> IsPos (XO (XO p))
  | XO p -> IsPos (XO (pred_double p))
  | XH -> IsNul

  (** val sub_mask : positive -> positive -> mask **)

  let rec sub_mask x y =
    match x with
    | XI p ->
      (match y with
       | XI q -> double_mask (sub_mask p q)
       | XO q -> succ_double_mask (sub_mask p q)
       | XH -> IsPos (XO p))
    | XO p ->
      (match y with
       | XI q -> succ_double_mask (sub_mask_carry p q)
       | XO q -> double_mask (sub_mask p q)
       | XH -> IsPos (pred_double p))
    | XH -> (match y with
             | XH -> IsNul
             | _ -> IsNeg)

  (** val sub_mask_carry : positive -> positive -> mask **)

  and sub_mask_carry x y =
    match x with
    | XI p ->
      (match y with
       | XI q -> succ_double_mask (sub_mask_carry p q)
       | XO q -> double_mask (sub_mask p q)
       | XH -> IsPos (pred_double p))
    | XO p ->
      (match y with
       | XI q -> double_mask (sub_mask_carry p q)
       | XO q -> succ_double_mask (sub_mask_carry p q)
       | XH -> double_pred_mask p)
    | XH -> IsNeg

  (** val mul : positive -> positive -> positive **)

  let rec mul x y =
    match x with
    | XI p -> add y (XO (mul p y))
    | XO p -> XO (mul p y)
    | XH -> y

  (** val size : positive -> positive **)

  let rec size = function
  | XI p0 -> succ (size p0)
  | XO p0 -> succ (size p0)
  | XH -> XH

  (** val compare_cont : comparison -> positive -> positive -> comparison **)

  let rec compare_cont r x y =
    match x with
    | XI p ->
      (match y with
       | XI q -> compare_cont r p q
       | XO q -> compare_cont Gt p q
       | XH -> Gt)
    | XO p ->
      (match y with
       | XI q -> compare_cont Lt p q
       | XO q -> compare_cont r p q
       | XH -> Gt)
    | XH -> (match y with
             | XH -> r
             | _ -> Lt)

  (** val compare : positive -> positive -> comparison **)

  let compare =
    compare_cont Eq

  (** val eqb : positive -> positive -> bool **)

  let rec eqb p q =
    match p with
    | XI p0 -> (match q with
                | XI q0 -> eqb p0 q0
                | _ -> false)
    | XO p0 -> (match q with
                | XO q0 -> eqb p0 q0
                | _ -> false)
    | XH -> (match q with
             | XH -> true
             | _ -> false)

  (** val iter_op : ('a1 -> 'a1 -> 'a1) -> positive -> 'a1 -> 'a1 **)

  let rec iter_op op p a =
    match p with
    | XI p0 -> op a (iter_op op p0 (op a a))
    | XO p0 -> iter_op op p0 (op a a)
    | XH -> a

  (** val to_nat : positive -> nat **)

  let to_nat x =
    iter_op Coq__1.add x (S O)

  (** val of_succ_nat : nat -> positive **)

  let rec of_succ_nat = function
  | O -> XH
  | S x -> succ (of_succ_nat x)
 end

module N =
 struct
  (** val succ_double : n -> n **)

  let succ_double = function
  | N0 -> Npos XH
  | Npos p -> Npos (XI p)

  (** val double : n -> n **)

  let double = function
  | N0 -> N0
  | Npos p -> Npos (XO p)

  (** val add : n -> n -> n **)

  let add n0 m =
    match n0 with
    | N0 -> m
    | Npos p -> (match m with
                 | N0 -> n0
                 | Npos q -> Npos (Coq_Pos.add p q))

  (** val sub : n -> n -> n **)

  let sub n0 m =
    match n0 with
    | N0 -> N0
    | Npos n' ->
      (match m with
       | N0 -> n0
       | Npos m' ->
         (match Coq_Pos.sub_mask n' m' with
          | Coq_Pos.IsPos p -> Npos p
          | _ -> N0))

  (** val mul : n -> n -> n **)

  let mul n0 m =
    match n0 with
    | N0 -> N0
    | Npos p -> (match m with
                 | N0 -> N0
                 | Npos q -> Npos (Coq_Pos.mul p q))

  (** val compare : n -> n -> comparison **)

  let compare n0 m =
    match n0 with
    | N0 -> (match m with
             | N0 -> Eq
             | Npos _ -> Lt)
    | Npos n' -> (match m with
                  | N0 -> Gt
                  | Npos m' -> Coq_Pos.compare n' m')

  (** val eqb : n -> n -> bool **)

  let eqb n0 m =
    match n0 with
    | N0 -> (match m with
             | N0 -> true
             | Npos _ -> false)
    | Npos p -> (match m with
                 | N0 -> false
                 | Npos q -> Coq_Pos.eqb p q)

  (** val leb : n -> n -> bool **)

  let leb x y =
    match compare x y with
    | Gt -> false
    | _ -> true

  (** val size : n -> n **)

  let size = function
  | N0 -> N0
  | Npos p -> Npos (Coq_Pos.size p)

  (** val pos_div_eucl : positive -> n -> n * n **)

  let rec pos_div_eucl a b =
    match a with
    | XI a' ->
      let (q, r) = pos_div_eucl a' b in
      let r' = succ_double r in
      if leb b r' then ((succ_double q), (sub r' b)) else ((double q), r')
    | XO a' ->
      let (q, r) = pos_div_eucl a' b in
      let r' = double r in
      if leb b r' then ((succ_double q), (sub r' b)) else ((double q), r')
    | XH ->
      (match b with
       | N0 -> (N0, (Npos XH))
       | Npos p -> (match p with
                    | XH -> ((Npos XH), N0)
                    | _ -> (N0, (Npos XH))))

  (** val div_eucl : n -> n -> n * n **)

  let div_eucl a b =
    match a with
    | N0 -> (N0, N0)
    | Npos na -> (match b with
                  | N0 -> (N0, a)
                  | Npos _ -> pos_div_eucl na b)

  (** val div : n -> n -> n **)

  let div a b =
    fst (div_eucl a b)

  (** val modulo : n -> n -> n **)

  let modulo a b =
    snd (div_eucl a b)

  (** val to_nat : n -> nat **)

  let to_nat = function
  | N0 -> O
  | Npos p -> Coq_Pos.to_nat p

  (** val of_nat : nat -> n **)

  let of_nat = function
  | O -> N0
  | S n' -> Npos (Coq_Pos.of_succ_nat n')
 end

(** val zero : char **)

let zero = '\000'

(** val one : char **)

let one = '\001'

(** val shift : bool -> char -> char **)

let shift = fun b c -> Char.chr (((Char.code c) lsl 1) land 255 + if b then 1 else 0)

(** val ascii_of_pos : positive -> char **)

let ascii_of_pos =
  let rec loop n0 p =
    match n0 with
    | O -> zero
    | S n' ->
      (match p with
       | XI p' -> shift true (loop n' p')
       | XO p' -> shift false (loop n' p')
       | XH -> one)
  in loop (S (S (S (S (S (S (S (S O))))))))

(** val ascii_of_N : n -> char **)

let ascii_of_N = function
| N0 -> zero
| Npos p -> ascii_of_pos p

(** val ascii_of_nat : nat -> char **)

let ascii_of_nat a =
  ascii_of_N (N.of_nat a)

(** val n_of_digits : bool list -> n **)

let rec n_of_digits = function
| [] -> N0
| b :: l' ->
  N.add (if b then Npos XH else N0) (N.mul (Npos (XO XH)) (n_of_digits l'))

(** val n_of_ascii : char -> n **)

let n_of_ascii a =
  (* If this appears, you're using Ascii internals. Please don't *)
 (fun f c ->
  let n = Char.code c in
  let h i = (n land (1 lsl i)) <> 0 in
  f (h 0) (h 1) (h 2) (h 3) (h 4) (h 5) (h 6) (h 7))
    (fun a0 a1 a2 a3 a4 a5 a6 a7 ->
    n_of_digits
      (a0 :: (a1 :: (a2 :: (a3 :: (a4 :: (a5 :: (a6 :: (a7 :: [])))))))))
    a

(** val nat_of_ascii : char -> nat **)

let nat_of_ascii a =
  N.to_nat (n_of_ascii a)

(** val rev : 'a1 list -> 'a1 list **)

let rec rev = function
| [] -> []
| x :: l' -> app (rev l') (x :: [])

(** val map : ('a1 -> 'a2) -> 'a1 list -> 'a2 list **)

let rec map f = function
| [] -> []
| a :: t -> (f a) :: (map f t)

(** val existsb : ('a1 -> bool) -> 'a1 list -> bool **)

let rec existsb f = function
| [] -> false
| a :: l0 -> (||) (f a) (existsb f l0)

(** val forallb : ('a1 -> bool) -> 'a1 list -> bool **)

let rec forallb f = function
| [] -> true
| a :: l0 -> (&&) (f a) (forallb f l0)

(** val skipn : nat -> 'a1 list -> 'a1 list **)

let rec skipn n0 l =
  match n0 with
  | O -> l
  | S n1 -> (match l with
             | [] -> []
             | _ :: l0 -> skipn n1 l0)

module Z =
 struct
  (** val double : z -> z **)

  let double = function
  | Z0 -> Z0
  | Zpos p -> Zpos (XO p)
  | Zneg p -> Zneg (XO p)

  (** val succ_double : z -> z **)

  let succ_double = function
  | Z0 -> Zpos XH
  | Zpos p -> Zpos (XI p)
  | Zneg p -> Zneg (Coq_Pos.pred_double p)

  (** val pred_double : z -> z **)

  let pred_double = function
  | Z0 -> Zneg XH
  | Zpos p -> Zpos (Coq_Pos.pred_double p)
  | Zneg p -> Zneg (XI p)

  (** val pos_sub : positive -> positive -> z **)

  let rec pos_sub x y =
    match x with
    | XI p ->
      (match y with
       | XI q -> double (pos_sub p q)
       | XO q -> succ_double (pos_sub p q)
       | XH -> Zpos (XO p))
    | XO p ->
      (match y with
       | XI q -> pred_double (pos_sub p q)
       | XO q -> double (pos_sub p q)
       | XH -> Zpos (Coq_Pos.pred_double p))
    | XH ->
      (match y with
       | XI q -> Zneg (XO q)
       | XO q -> Zneg (Coq_Pos.pred_double q)
       | XH -> Z0)

  (** val add : z -> z -> z **)

  let add x y =
    match x with
    | Z0 -> y
    | Zpos x' ->
      (match y with
       | Z0 -> x
       | Zpos y' -> Zpos (Coq_Pos.add x' y')
       | Zneg y' -> pos_sub x' y')
    | Zneg x' ->
      (match y with
       | Z0 -> x
       | Zpos y' -> pos_sub y' x'
       | Zneg y' -> Zneg (Coq_Pos.add x' y'))

  (** val opp : z -> z **)

  let opp = function
  | Z0 -> Z0
  | Zpos x0 -> Zneg x0
  | Zneg x0 -> Zpos x0

  (** val sub : z -> z -> z **)

  let sub m n0 =
    add m (opp n0)

  (** val compare : z -> z -> comparison **)

  let compare x y =
    match x with
    | Z0 -> (match y with
             | Z0 -> Eq
             | Zpos _ -> Lt
             | Zneg _ -> Gt)
    | Zpos x' -> (match y with
                  | Zpos y' -> Coq_Pos.compare x' y'
                  | _ -> Gt)
    | Zneg x' ->
      (match y with
       | Zneg y' -> compOpp (Coq_Pos.compare x' y')
       | _ -> Lt)

  (** val ltb : z -> z -> bool **)

  let ltb x y =
    match compare x y with
    | Lt -> true
    | _ -> false

  (** val to_nat : z -> nat **)

  let to_nat = function
  | Zpos p -> Coq_Pos.to_nat p
  | _ -> O

  (** val of_nat : nat -> z **)

  let of_nat = function
  | O -> Z0
  | S n1 -> Zpos (Coq_Pos.of_succ_nat n1)

  (** val of_N : n -> z **)

  let of_N = function
  | N0 -> Z0
  | Npos p -> Zpos p
 end

(** val eqb0 : char list -> char list -> bool **)

let rec eqb0 s1 s2 =
  match s1 with
  | [] -> (match s2 with
           | [] -> true
           | _::_ -> false)
  | c1::s1' ->
    (match s2 with
     | [] -> false
     | c2::s2' -> if (=) c1 c2 then eqb0 s1' s2' else false)

(** val append : char list -> char list -> char list **)

let rec append s1 s2 =
  match s1 with
  | [] -> s2
  | c::s1' -> c::(append s1' s2)

(** val string_of_list_ascii : char list -> char list **)

let rec string_of_list_ascii = function
| [] -> []
| ch :: s0 -> ch::(string_of_list_ascii s0)

(** val list_ascii_of_string : char list -> char list **)

let rec list_ascii_of_string = function
| [] -> []
| ch::s0 -> ch :: (list_ascii_of_string s0)

type err =
| ErrValue
| ErrRuntime
| ErrAssert
| ErrNotImpl
| ErrKey
| ErrType
| ErrAttr
| ErrIndex
| ErrTranslation
| ErrOutOfFuel
| ErrOther of char list

type 'a result =
| OK of 'a
| Error of err

(** val bind : 'a1 result -> ('a1 -> 'a2 result) -> 'a2 result **)

let bind r f =
  match r with
  | OK a -> f a
  | Error e -> Error e

(** val err_name : err -> char list **)

let err_name = function
| ErrValue ->
  'V'::('a'::('l'::('u'::('e'::('E'::('r'::('r'::('o'::('r'::[])))))))))
| ErrRuntime ->
  'R'::('u'::('n'::('t'::('i'::('m'::('e'::('E'::('r'::('r'::('o'::('r'::[])))))))))))
| ErrAssert ->
  'A'::('s'::('s'::('e'::('r'::('t'::('i'::('o'::('n'::('E'::('r'::('r'::('o'::('r'::[])))))))))))))
| ErrNotImpl ->
  'N'::('o'::('t'::('I'::('m'::('p'::('l'::('e'::('m'::('e'::('n'::('t'::('e'::('d'::('E'::('r'::('r'::('o'::('r'::[]))))))))))))))))))
| ErrKey -> 'K'::('e'::('y'::('E'::('r'::('r'::('o'::('r'::[])))))))
| ErrType -> 'T'::('y'::('p'::('e'::('E'::('r'::('r'::('o'::('r'::[]))))))))
| ErrAttr ->
  'A'::('t'::('t'::('r'::('i'::('b'::('u'::('t'::('e'::('E'::('r'::('r'::('o'::('r'::[])))))))))))))
| ErrIndex ->
  'I'::('n'::('d'::('e'::('x'::('E'::('r'::('r'::('o'::('r'::[])))))))))
| ErrTranslation ->
  'x'::('A'::('O'::('D'::('T'::('r'::('a'::('n'::('s'::('l'::('a'::('t'::('i'::('o'::('n'::('E'::('r'::('r'::('o'::('r'::[])))))))))))))))))))
| ErrOutOfFuel ->
  'O'::('u'::('t'::('O'::('f'::('F'::('u'::('e'::('l'::[]))))))))
| ErrOther t -> t

(** val mem_str : char list -> char list list -> bool **)

let rec mem_str x = function
| [] -> false
| y :: r -> if eqb0 x y then true else mem_str x r

(** val list_str_eqb : char list list -> char list list -> bool **)

let rec list_str_eqb a b =
  match a with
  | [] -> (match b with
           | [] -> true
           | _ :: _ -> false)
  | x :: a' ->
    (match b with
     | [] -> false
     | y :: b' -> (&&) (eqb0 x y) (list_str_eqb a' b'))

(** val join_str : char list -> char list list -> char list **)

let rec join_str sep = function
| [] -> []
| x :: r ->
  (match r with
   | [] -> x
   | _ :: _ -> append x (append sep (join_str sep r)))

(** val digit_char : nat -> char **)

let digit_char n0 =
  ascii_of_nat
    (add (S (S (S (S (S (S (S (S (S (S (S (S (S (S (S (S (S (S (S (S (S (S (S
      (S (S (S (S (S (S (S (S (S (S (S (S (S (S (S (S (S (S (S (S (S (S (S (S
      (S O)))))))))))))))))))))))))))))))))))))))))))))))) n0)

(** val dec_N_fuel : nat -> n -> char list -> char list **)

let rec dec_N_fuel fuel n0 acc =
  match fuel with
  | O -> acc
  | S f ->
    let d = N.to_nat (N.modulo n0 (Npos (XO (XI (XO XH))))) in
    let acc' = (digit_char d)::acc in
    if N.eqb (N.div n0 (Npos (XO (XI (XO XH))))) N0
    then acc'
    else dec_N_fuel f (N.div n0 (Npos (XO (XI (XO XH))))) acc'

(** val dec_N : n -> char list **)

let dec_N n0 =
  dec_N_fuel (S (N.to_nat (N.size n0))) n0 []

(** val dec_Z : z -> char list **)

let dec_Z = function
| Z0 -> '0'::[]
| Zpos p -> dec_N (Npos p)
| Zneg p -> append ('-'::[]) (dec_N (Npos p))

(** val dec_nat : nat -> char list **)

let dec_nat n0 =
  dec_N (N.of_nat n0)

(** val is_digit : char -> bool **)

let is_digit c =
  let n0 = nat_of_ascii c in
  (&&)
    (Nat.leb (S (S (S (S (S (S (S (S (S (S (S (S (S (S (S (S (S (S (S (S (S
      (S (S (S (S (S (S (S (S (S (S (S (S (S (S (S (S (S (S (S (S (S (S (S (S
      (S (S (S O)))))))))))))))))))))))))))))))))))))))))))))))) n0)
    (Nat.leb n0 (S (S (S (S (S (S (S (S (S (S (S (S (S (S (S (S (S (S (S (S
      (S (S (S (S (S (S (S (S (S (S (S (S (S (S (S (S (S (S (S (S (S (S (S (S
      (S (S (S (S (S (S (S (S (S (S (S (S (S
      O))))))))))))))))))))))))))))))))))))))))))))))))))))))))))

(** val parse_N_acc : char list -> n -> n option **)

let rec parse_N_acc s acc =
  match s with
  | [] -> Some acc
  | c::r ->
    if is_digit c
    then parse_N_acc r
           (N.add (N.mul acc (Npos (XO (XI (XO XH)))))
             (N.of_nat
               (sub (nat_of_ascii c) (S (S (S (S (S (S (S (S (S (S (S (S (S
                 (S (S (S (S (S (S (S (S (S (S (S (S (S (S (S (S (S (S (S (S
                 (S (S (S (S (S (S (S (S (S (S (S (S (S (S (S
                 O)))))))))))))))))))))))))))))))))))))))))))))))))))
    else None

(** val parse_N : char list -> n option **)

let parse_N s = match s with
| [] -> None
| _::_ -> parse_N_acc s N0

(** val parse_Z : char list -> z option **)

let parse_Z s = match s with
| [] -> option_map Z.of_N (parse_N s)
| a::r ->
  (* If this appears, you're using Ascii internals. Please don't *)
 (fun f c ->
  let n = Char.code c in
  let h i = (n land (1 lsl i)) <> 0 in
  f (h 0) (h 1) (h 2) (h 3) (h 4) (h 5) (h 6) (h 7))
    (fun b b0 b1 b2 b3 b4 b5 b6 ->
    if b
    then if b0
         then option_map Z.of_N (parse_N s)
         else if b1
              then if b2
                   then if b3
                        then option_map Z.of_N (parse_N s)
                        else if b4
                             then if b5
                                  then option_map Z.of_N (parse_N s)
                                  else if b6
                                       then option_map Z.of_N (parse_N s)
                                       else option_map (fun n0 ->
                                              Z.opp (Z.of_N n0)) (parse_N r)
                             else option_map Z.of_N (parse_N s)
                   else option_map Z.of_N (parse_N s)
              else option_map Z.of_N (parse_N s)
    else option_map Z.of_N (parse_N s))
    a

type sexp =
| SAtom of char list
| SList of sexp list

(** val s_str : char list -> sexp **)

let s_str s =
  SAtom s

(** val s_strs : char list list -> sexp **)

let s_strs l =
  SList (map (fun x -> SAtom x) l)

(** val s_Z : z -> sexp **)

let s_Z z0 =
  SAtom (dec_Z z0)

(** val s_nat : nat -> sexp **)

let s_nat n0 =
  SAtom (dec_nat n0)

(** val s_bool : bool -> sexp **)

let s_bool b =
  SAtom
    (if b
     then 't'::('r'::('u'::('e'::[])))
     else 'f'::('a'::('l'::('s'::('e'::[])))))

(** val s_tag : char list -> sexp list -> sexp **)

let s_tag t l =
  SList ((SAtom t) :: l)

(** val s_err : err -> sexp **)

let s_err e =
  s_tag ('e'::('r'::('r'::('o'::('r'::[]))))) ((SAtom (err_name e)) :: [])

(** val s_result : ('a1 -> sexp) -> 'a1 result -> sexp **)

let s_result enc = function
| OK a -> s_tag ('o'::('k'::[])) ((enc a) :: [])
| Error e -> s_err e

(** val d_str : sexp -> char list option **)

let d_str = function
| SAtom a -> Some a
| SList _ -> None

(** val d_list : (sexp -> 'a1 option) -> sexp list -> 'a1 list option **)

let rec d_list d = function
| [] -> Some []
| x :: r ->
  (match d x with
   | Some a ->
     (match d_list d r with
      | Some r' -> Some (a :: r')
      | None -> None)
   | None -> None)

(** val d_strs : sexp -> char list list option **)

let d_strs = function
| SAtom _ -> None
| SList l -> d_list d_str l

(** val d_Z : sexp -> z option **)

let d_Z = function
| SAtom a -> parse_Z a
| SList _ -> None

(** val d_nat : sexp -> nat option **)

let d_nat s =
  option_map Z.to_nat (d_Z s)

(** val bad_input : sexp **)

let bad_input =
  s_tag ('b'::('a'::('d'::('-'::('i'::('n'::('p'::('u'::('t'::[]))))))))) []

type jblock = { jb_name : char list; jb_script : char list list;
                jb_deps : char list list }

type entry = char list * (char list list * char list list)

type table = entry list

(** val tget :
    char list -> table -> (char list list * char list list) option **)

let rec tget n0 = function
| [] -> None
| e :: r -> let (k, v) = e in if eqb0 n0 k then Some v else tget n0 r

(** val textend : char list -> char list list -> table -> table **)

let rec textend n0 ds = function
| [] -> []
| e :: r ->
  let (k, p) = e in
  let (s, d) = p in
  if eqb0 n0 k
  then (k, (s, (app d ds))) :: r
  else (k, (s, d)) :: (textend n0 ds r)

(** val step1 : table -> jblock -> table result **)

let step1 t b =
  match tget b.jb_name t with
  | Some p ->
    let (s0, _) = p in
    if list_str_eqb b.jb_script s0
    then OK (textend b.jb_name b.jb_deps t)
    else Error ErrValue
  | None -> OK (app t ((b.jb_name, (b.jb_script, b.jb_deps)) :: []))

(** val phase1 : jblock list -> table -> table result **)

let rec phase1 bs t =
  match bs with
  | [] -> OK t
  | b :: r -> (match step1 t b with
               | OK t' -> phase1 r t'
               | Error e -> Error e)

(** val has_key : char list -> table -> bool **)

let has_key n0 t =
  match tget n0 t with
  | Some _ -> true
  | None -> false

(** val deps_present : table -> bool **)

let deps_present t =
  forallb (fun e -> forallb (fun d -> has_key d t) (snd (snd e))) t

(** val one_pass :
    table -> char list list -> char list list -> bool -> (char list
    list * char list list) * bool **)

let rec one_pass rest seen out0 emitted0 =
  match rest with
  | [] -> ((seen, out0), emitted0)
  | e :: r ->
    let (n0, p) = e in
    let (scr, ds) = p in
    if (&&) (negb (mem_str n0 seen)) (forallb (fun d -> mem_str d seen) ds)
    then one_pass r (app seen (n0 :: [])) (app out0 scr) true
    else one_pass r seen out0 emitted0

(** val emit_loop :
    nat -> table -> char list list -> char list list -> char list list result **)

let rec emit_loop fuel t seen out0 =
  if Nat.ltb (length seen) (length t)
  then (match fuel with
        | O -> Error ErrOutOfFuel
        | S f ->
          let (p, b) = one_pass t seen out0 false in
          let (seen', out') = p in
          if b then emit_loop f t seen' out' else Error ErrValue)
  else OK out0

(** val gen : jblock list -> char list list result **)

let gen bs =
  match phase1 bs [] with
  | OK t ->
    if deps_present t
    then emit_loop (S (length t)) t [] []
    else Error ErrValue
  | Error e -> Error e

(** val d_jblock : sexp -> jblock option **)

let d_jblock = function
| SAtom _ -> None
| SList l ->
  (match l with
   | [] -> None
   | s0 :: l0 ->
     (match s0 with
      | SAtom n0 ->
        (match l0 with
         | [] -> None
         | sc :: l1 ->
           (match l1 with
            | [] -> None
            | dp :: l2 ->
              (match l2 with
               | [] ->
                 (match d_strs sc with
                  | Some sc' ->
                    (match d_strs dp with
                     | Some dp' ->
                       Some { jb_name = n0; jb_script = sc'; jb_deps = dp' }
                     | None -> None)
                  | None -> None)
               | _ :: _ -> None)))
      | SList _ -> None))

(** val run_gen : sexp -> sexp **)

let run_gen = function
| SAtom _ -> bad_input
| SList l ->
  (match d_list d_jblock l with
   | Some bs -> s_result s_strs (gen bs)
   | None -> bad_input)

type mrow = { m_py : char list; m_cpp : char list; m_inc : char list list;
              m_ret : char list }

type menv = { e_rows : mrow list; e_module : char list list;
              e_builtins : (char list * char list) list }

(** val lookup_row : char list -> mrow list -> mrow option **)

let rec lookup_row k = function
| [] -> None
| r :: rest ->
  (match lookup_row k rest with
   | Some r' -> Some r'
   | None -> if eqb0 k r.m_py then Some r else None)

(** val assoc :
    char list -> (char list * char list) list -> char list option **)

let rec assoc k = function
| [] -> None
| p :: r -> let (a, b) = p in if eqb0 k a then Some b else assoc k r

type resolution =
| RName of char list
| RCrash

(** val resolve : menv -> char list -> resolution **)

let resolve e n0 =
  if mem_str n0 e.e_module
  then RCrash
  else (match assoc n0 e.e_builtins with
        | Some m ->
          (match m with
           | [] -> RName (append m (append ('.'::[]) n0))
           | a::s ->
             (* If this appears, you're using Ascii internals. Please don't *)
 (fun f c ->
  let n = Char.code c in
  let h i = (n land (1 lsl i)) <> 0 in
  f (h 0) (h 1) (h 2) (h 3) (h 4) (h 5) (h 6) (h 7))
               (fun b b0 b1 b2 b3 b4 b5 b6 ->
               if b
               then if b0
                    then RName (append m (append ('.'::[]) n0))
                    else if b1
                         then if b2
                              then if b3
                                   then RName (append m (append ('.'::[]) n0))
                                   else if b4
                                        then if b5
                                             then RName
                                                    (append m
                                                      (append ('.'::[]) n0))
                                             else if b6
                                                  then RName
                                                         (append m
                                                           (append ('.'::[])
                                                             n0))
                                                  else (match s with
                                                        | [] -> RCrash
                                                        | _::_ ->
                                                          RName
                                                            (append m
                                                              (append
                                                                ('.'::[]) n0)))
                                        else RName
                                               (append m
                                                 (append ('.'::[]) n0))
                              else RName (append m (append ('.'::[]) n0))
                         else RName (append m (append ('.'::[]) n0))
               else RName (append m (append ('.'::[]) n0)))
               a)
        | None -> RName n0)

(** val find_row : menv -> char list -> mrow option **)

let find_row e n0 =
  match resolve e n0 with
  | RName q -> lookup_row q e.e_rows
  | RCrash -> None

(** val acceptable : char list -> char list -> bool **)

let acceptable n0 cpp =
  (||)
    ((||) (eqb0 cpp (append ('s'::('t'::('d'::(':'::(':'::[]))))) n0))
      ((&&) (eqb0 n0 ('l'::('n'::[])))
        (eqb0 cpp ('s'::('t'::('d'::(':'::(':'::('l'::('o'::('g'::[])))))))))))
    ((&&) (eqb0 n0 ('a'::('b'::('s'::[]))))
      ((||)
        (eqb0 cpp
          ('s'::('t'::('d'::(':'::(':'::('f'::('a'::('b'::('s'::[]))))))))))
        (eqb0 cpp ('s'::('t'::('d'::(':'::(':'::('a'::('b'::('s'::[])))))))))))

(** val cmath_sig : (char list * (nat * bool)) list **)

let cmath_sig =
  (('s'::('i'::('n'::[]))), ((S O), false)) :: ((('c'::('o'::('s'::[]))), ((S
    O), false)) :: ((('t'::('a'::('n'::[]))), ((S O),
    false)) :: ((('a'::('c'::('o'::('s'::[])))), ((S O),
    false)) :: ((('a'::('s'::('i'::('n'::[])))), ((S O),
    false)) :: ((('a'::('t'::('a'::('n'::[])))), ((S O),
    false)) :: ((('a'::('t'::('a'::('n'::('2'::[]))))), ((S (S O)),
    false)) :: ((('s'::('i'::('n'::('h'::[])))), ((S O),
    false)) :: ((('c'::('o'::('s'::('h'::[])))), ((S O),
    false)) :: ((('t'::('a'::('n'::('h'::[])))), ((S O),
    false)) :: ((('a'::('s'::('i'::('n'::('h'::[]))))), ((S O),
    false)) :: ((('a'::('c'::('o'::('s'::('h'::[]))))), ((S O),
    false)) :: ((('a'::('t'::('a'::('n'::('h'::[]))))), ((S O),
    false)) :: ((('e'::('x'::('p'::[]))), ((S O),
    false)) :: ((('l'::('d'::('e'::('x'::('p'::[]))))), ((S (S O)),
    false)) :: ((('l'::('o'::('g'::[]))), ((S O),
    false)) :: ((('l'::('n'::[])), ((S O),
    false)) :: ((('l'::('o'::('g'::('1'::('0'::[]))))), ((S O),
    false)) :: ((('e'::('x'::('p'::('2'::[])))), ((S O),
    false)) :: ((('e'::('x'::('p'::('m'::('1'::[]))))), ((S O),
    false)) :: ((('i'::('l'::('o'::('g'::('b'::[]))))), ((S O),
    false)) :: ((('l'::('o'::('g'::('1'::('p'::[]))))), ((S O),
    false)) :: ((('l'::('o'::('g'::('2'::[])))), ((S O),
    false)) :: ((('s'::('c'::('a'::('l'::('b'::('n'::[])))))), ((S (S O)),
    false)) :: ((('s'::('c'::('a'::('l'::('b'::('l'::('n'::[]))))))), ((S (S
    O)), false)) :: ((('p'::('o'::('w'::[]))), ((S (S O)),
    false)) :: ((('s'::('q'::('r'::('t'::[])))), ((S O),
    false)) :: ((('c'::('b'::('r'::('t'::[])))), ((S O),
    false)) :: ((('h'::('y'::('p'::('o'::('t'::[]))))), ((S (S O)),
    false)) :: ((('e'::('r'::('f'::[]))), ((S O),
    false)) :: ((('e'::('r'::('f'::('c'::[])))), ((S O),
    false)) :: ((('t'::('g'::('a'::('m'::('m'::('a'::[])))))), ((S O),
    false)) :: ((('l'::('g'::('a'::('m'::('m'::('a'::[])))))), ((S O),
    false)) :: ((('c'::('e'::('i'::('l'::[])))), ((S O),
    false)) :: ((('f'::('l'::('o'::('o'::('r'::[]))))), ((S O),
    false)) :: ((('f'::('m'::('o'::('d'::[])))), ((S (S O)),
    false)) :: ((('t'::('r'::('u'::('n'::('c'::[]))))), ((S O),
    false)) :: ((('r'::('o'::('u'::('n'::('d'::[]))))), ((S O),
    false)) :: ((('r'::('i'::('n'::('t'::[])))), ((S O),
    false)) :: ((('n'::('e'::('a'::('r'::('b'::('y'::('i'::('n'::('t'::[]))))))))),
    ((S O),
    false)) :: ((('r'::('e'::('m'::('a'::('i'::('n'::('d'::('e'::('r'::[]))))))))),
    ((S (S O)), false)) :: ((('r'::('e'::('m'::('q'::('u'::('o'::[])))))),
    ((S (S (S O))),
    true)) :: ((('c'::('o'::('p'::('y'::('s'::('i'::('g'::('n'::[])))))))),
    ((S (S O)), false)) :: ((('n'::('a'::('n'::[]))), ((S O),
    false)) :: ((('n'::('e'::('x'::('t'::('a'::('f'::('t'::('e'::('r'::[]))))))))),
    ((S (S O)),
    false)) :: ((('n'::('e'::('x'::('t'::('t'::('o'::('w'::('a'::('r'::('d'::[])))))))))),
    ((S (S O)), false)) :: ((('f'::('d'::('i'::('m'::[])))), ((S (S O)),
    false)) :: ((('f'::('m'::('a'::('x'::[])))), ((S (S O)),
    false)) :: ((('f'::('m'::('i'::('n'::[])))), ((S (S O)),
    false)) :: ((('f'::('a'::('b'::('s'::[])))), ((S O),
    false)) :: ((('a'::('b'::('s'::[]))), ((S O),
    false)) :: ((('f'::('m'::('a'::[]))), ((S (S (S O))),
    false)) :: [])))))))))))))))))))))))))))))))))))))))))))))))))))

(** val sig_of :
    char list -> (char list * (nat * bool)) list -> (nat * bool) option **)

let rec sig_of n0 = function
| [] -> None
| p :: r -> let (a, b) = p in if eqb0 n0 a then Some b else sig_of n0 r

(** val callable_from_query : char list -> bool **)

let callable_from_query n0 =
  match sig_of n0 cmath_sig with
  | Some p -> let (_, b) = p in if b then false else true
  | None -> false

(** val doc_ok : menv -> char list -> bool **)

let doc_ok e n0 =
  match find_row e n0 with
  | Some r ->
    (&&)
      ((&&)
        ((&&) (acceptable n0 r.m_cpp)
          (mem_str ('c'::('m'::('a'::('t'::('h'::[]))))) r.m_inc))
        (eqb0 r.m_ret ('d'::('o'::('u'::('b'::('l'::('e'::[]))))))))
      (callable_from_query n0)
  | None -> false

(** val s_row : mrow -> sexp **)

let s_row r =
  SList ((SAtom r.m_py) :: ((SAtom r.m_cpp) :: ((s_strs r.m_inc) :: ((SAtom
    r.m_ret) :: []))))

(** val audit : menv -> char list list -> sexp **)

let audit e doc =
  SList
    (map (fun n0 -> SList ((SAtom
      n0) :: ((match resolve e n0 with
               | RName q -> SAtom q
               | RCrash ->
                 SAtom ('<'::('c'::('r'::('a'::('s'::('h'::('>'::[])))))))) :: ((
      match find_row e n0 with
      | Some r -> s_row r
      | None -> SList []) :: ((s_bool (doc_ok e n0)) :: ((match sig_of n0
                                                                  cmath_sig with
                                                          | Some p0 ->
                                                            let (k, p) = p0 in
                                                            SList
                                                            ((s_nat k) :: (
                                                            (s_bool p) :: []))
                                                          | None -> SList []) :: []))))))
      doc)

(** val math_rows : mrow list **)

let math_rows =
  { m_py = ('s'::('i'::('n'::[]))); m_cpp =
    ('s'::('t'::('d'::(':'::(':'::('s'::('i'::('n'::[])))))))); m_inc =
    (('c'::('m'::('a'::('t'::('h'::[]))))) :: []); m_ret =
    ('d'::('o'::('u'::('b'::('l'::('e'::[])))))) } :: ({ m_py =
    ('c'::('o'::('s'::[]))); m_cpp =
    ('s'::('t'::('d'::(':'::(':'::('c'::('o'::('s'::[])))))))); m_inc =
    (('c'::('m'::('a'::('t'::('h'::[]))))) :: []); m_ret =
    ('d'::('o'::('u'::('b'::('l'::('e'::[])))))) } :: ({ m_py =
    ('t'::('a'::('n'::[]))); m_cpp =
    ('s'::('t'::('d'::(':'::(':'::('t'::('a'::('n'::[])))))))); m_inc =
    (('c'::('m'::('a'::('t'::('h'::[]))))) :: []); m_ret =
    ('d'::('o'::('u'::('b'::('l'::('e'::[])))))) } :: ({ m_py =
    ('a'::('c'::('o'::('s'::[])))); m_cpp =
    ('s'::('t'::('d'::(':'::(':'::('a'::('c'::('o'::('s'::[])))))))));
    m_inc = (('c'::('m'::('a'::('t'::('h'::[]))))) :: []); m_ret =
    ('d'::('o'::('u'::('b'::('l'::('e'::[])))))) } :: ({ m_py =
    ('a'::('s'::('i'::('n'::[])))); m_cpp =
    ('s'::('t'::('d'::(':'::(':'::('a'::('s'::('i'::('n'::[])))))))));
    m_inc = (('c'::('m'::('a'::('t'::('h'::[]))))) :: []); m_ret =
    ('d'::('o'::('u'::('b'::('l'::('e'::[])))))) } :: ({ m_py =
    ('a'::('t'::('a'::('n'::[])))); m_cpp =
    ('s'::('t'::('d'::(':'::(':'::('a'::('t'::('a'::('n'::[])))))))));
    m_inc = (('c'::('m'::('a'::('t'::('h'::[]))))) :: []); m_ret =
    ('d'::('o'::('u'::('b'::('l'::('e'::[])))))) } :: ({ m_py =
    ('a'::('t'::('a'::('n'::('2'::[]))))); m_cpp =
    ('s'::('t'::('d'::(':'::(':'::('a'::('t'::('a'::('n'::('2'::[]))))))))));
    m_inc = (('c'::('m'::('a'::('t'::('h'::[]))))) :: []); m_ret =
    ('d'::('o'::('u'::('b'::('l'::('e'::[])))))) } :: ({ m_py =
    ('s'::('i'::('n'::('h'::[])))); m_cpp =
    ('s'::('t'::('d'::(':'::(':'::('s'::('i'::('n'::('h'::[])))))))));
    m_inc = (('c'::('m'::('a'::('t'::('h'::[]))))) :: []); m_ret =
    ('d'::('o'::('u'::('b'::('l'::('e'::[])))))) } :: ({ m_py =
    ('c'::('o'::('s'::('h'::[])))); m_cpp =
    ('s'::('t'::('d'::(':'::(':'::('c'::('o'::('s'::('h'::[])))))))));
    m_inc = (('c'::('m'::('a'::('t'::('h'::[]))))) :: []); m_ret =
    ('d'::('o'::('u'::('b'::('l'::('e'::[])))))) } :: ({ m_py =
    ('t'::('a'::('n'::('h'::[])))); m_cpp =
    ('s'::('t'::('d'::(':'::(':'::('t'::('a'::('n'::('h'::[])))))))));
    m_inc = (('c'::('m'::('a'::('t'::('h'::[]))))) :: []); m_ret =
    ('d'::('o'::('u'::('b'::('l'::('e'::[])))))) } :: ({ m_py =
    ('a'::('s'::('i'::('n'::('h'::[]))))); m_cpp =
    ('s'::('t'::('d'::(':'::(':'::('a'::('s'::('i'::('n'::('h'::[]))))))))));
    m_inc = (('c'::('m'::('a'::('t'::('h'::[]))))) :: []); m_ret =
    ('d'::('o'::('u'::('b'::('l'::('e'::[])))))) } :: ({ m_py =
    ('a'::('c'::('o'::('s'::('h'::[]))))); m_cpp =
    ('s'::('t'::('d'::(':'::(':'::('a'::('c'::('o'::('s'::('h'::[]))))))))));
    m_inc = (('c'::('m'::('a'::('t'::('h'::[]))))) :: []); m_ret =
    ('d'::('o'::('u'::('b'::('l'::('e'::[])))))) } :: ({ m_py =
    ('a'::('t'::('a'::('n'::('h'::[]))))); m_cpp =
    ('s'::('t'::('d'::(':'::(':'::('a'::('t'::('a'::('n'::('h'::[]))))))))));
    m_inc = (('c'::('m'::('a'::('t'::('h'::[]))))) :: []); m_ret =
    ('d'::('o'::('u'::('b'::('l'::('e'::[])))))) } :: ({ m_py =
    ('e'::('x'::('p'::[]))); m_cpp =
    ('s'::('t'::('d'::(':'::(':'::('e'::('x'::('p'::[])))))))); m_inc =
    (('c'::('m'::('a'::('t'::('h'::[]))))) :: []); m_ret =
    ('d'::('o'::('u'::('b'::('l'::('e'::[])))))) } :: ({ m_py =
    ('l'::('d'::('e'::('x'::('p'::[]))))); m_cpp =
    ('s'::('t'::('d'::(':'::(':'::('l'::('d'::('e'::('x'::('p'::[]))))))))));
    m_inc = (('c'::('m'::('a'::('t'::('h'::[]))))) :: []); m_ret =
    ('d'::('o'::('u'::('b'::('l'::('e'::[])))))) } :: ({ m_py =
    ('l'::('o'::('g'::[]))); m_cpp =
    ('s'::('t'::('d'::(':'::(':'::('l'::('o'::('g'::[])))))))); m_inc =
    (('c'::('m'::('a'::('t'::('h'::[]))))) :: []); m_ret =
    ('d'::('o'::('u'::('b'::('l'::('e'::[])))))) } :: ({ m_py =
    ('l'::('n'::[])); m_cpp =
    ('s'::('t'::('d'::(':'::(':'::('l'::('o'::('g'::[])))))))); m_inc =
    (('c'::('m'::('a'::('t'::('h'::[]))))) :: []); m_ret =
    ('d'::('o'::('u'::('b'::('l'::('e'::[])))))) } :: ({ m_py =
    ('l'::('o'::('g'::('1'::('0'::[]))))); m_cpp =
    ('s'::('t'::('d'::(':'::(':'::('l'::('o'::('g'::('1'::('0'::[]))))))))));
    m_inc = (('c'::('m'::('a'::('t'::('h'::[]))))) :: []); m_ret =
    ('d'::('o'::('u'::('b'::('l'::('e'::[])))))) } :: ({ m_py =
    ('e'::('x'::('p'::('2'::[])))); m_cpp =
    ('s'::('t'::('d'::(':'::(':'::('e'::('x'::('p'::('2'::[])))))))));
    m_inc = (('c'::('m'::('a'::('t'::('h'::[]))))) :: []); m_ret =
    ('d'::('o'::('u'::('b'::('l'::('e'::[])))))) } :: ({ m_py =
    ('e'::('x'::('p'::('m'::('1'::[]))))); m_cpp =
    ('s'::('t'::('d'::(':'::(':'::('e'::('x'::('p'::('m'::('1'::[]))))))))));
    m_inc = (('c'::('m'::('a'::('t'::('h'::[]))))) :: []); m_ret =
    ('d'::('o'::('u'::('b'::('l'::('e'::[])))))) } :: ({ m_py =
    ('i'::('l'::('o'::('g'::('b'::[]))))); m_cpp =
    ('s'::('t'::('d'::(':'::(':'::('i'::('l'::('o'::('g'::('b'::[]))))))))));
    m_inc = (('c'::('m'::('a'::('t'::('h'::[]))))) :: []); m_ret =
    ('d'::('o'::('u'::('b'::('l'::('e'::[])))))) } :: ({ m_py =
    ('l'::('o'::('g'::('1'::('p'::[]))))); m_cpp =
    ('s'::('t'::('d'::(':'::(':'::('l'::('o'::('g'::('1'::('p'::[]))))))))));
    m_inc = (('c'::('m'::('a'::('t'::('h'::[]))))) :: []); m_ret =
    ('d'::('o'::('u'::('b'::('l'::('e'::[])))))) } :: ({ m_py =
    ('l'::('o'::('g'::('2'::[])))); m_cpp =
    ('s'::('t'::('d'::(':'::(':'::('l'::('o'::('g'::('2'::[])))))))));
    m_inc = (('c'::('m'::('a'::('t'::('h'::[]))))) :: []); m_ret =
    ('d'::('o'::('u'::('b'::('l'::('e'::[])))))) } :: ({ m_py =
    ('s'::('c'::('a'::('l'::('b'::('n'::[])))))); m_cpp =
    ('s'::('t'::('d'::(':'::(':'::('s'::('c'::('a'::('l'::('b'::('n'::[])))))))))));
    m_inc = (('c'::('m'::('a'::('t'::('h'::[]))))) :: []); m_ret =
    ('d'::('o'::('u'::('b'::('l'::('e'::[])))))) } :: ({ m_py =
    ('s'::('c'::('a'::('l'::('b'::('l'::('n'::[]))))))); m_cpp =
    ('s'::('t'::('d'::(':'::(':'::('s'::('c'::('a'::('l'::('b'::('l'::('n'::[]))))))))))));
    m_inc = (('c'::('m'::('a'::('t'::('h'::[]))))) :: []); m_ret =
    ('d'::('o'::('u'::('b'::('l'::('e'::[])))))) } :: ({ m_py =
    ('p'::('o'::('w'::[]))); m_cpp =
    ('s'::('t'::('d'::(':'::(':'::('p'::('o'::('w'::[])))))))); m_inc =
    (('c'::('m'::('a'::('t'::('h'::[]))))) :: []); m_ret =
    ('d'::('o'::('u'::('b'::('l'::('e'::[])))))) } :: ({ m_py =
    ('s'::('q'::('r'::('t'::[])))); m_cpp =
    ('s'::('t'::('d'::(':'::(':'::('s'::('q'::('r'::('t'::[])))))))));
    m_inc = (('c'::('m'::('a'::('t'::('h'::[]))))) :: []); m_ret =
    ('d'::('o'::('u'::('b'::('l'::('e'::[])))))) } :: ({ m_py =
    ('c'::('b'::('r'::('t'::[])))); m_cpp =
    ('s'::('t'::('d'::(':'::(':'::('c'::('b'::('r'::('t'::[])))))))));
    m_inc = (('c'::('m'::('a'::('t'::('h'::[]))))) :: []); m_ret =
    ('d'::('o'::('u'::('b'::('l'::('e'::[])))))) } :: ({ m_py =
    ('h'::('y'::('p'::('o'::('t'::[]))))); m_cpp =
    ('s'::('t'::('d'::(':'::(':'::('h'::('y'::('p'::('o'::('t'::[]))))))))));
    m_inc = (('c'::('m'::('a'::('t'::('h'::[]))))) :: []); m_ret =
    ('d'::('o'::('u'::('b'::('l'::('e'::[])))))) } :: ({ m_py =
    ('e'::('r'::('f'::[]))); m_cpp =
    ('s'::('t'::('d'::(':'::(':'::('e'::('r'::('f'::[])))))))); m_inc =
    (('c'::('m'::('a'::('t'::('h'::[]))))) :: []); m_ret =
    ('d'::('o'::('u'::('b'::('l'::('e'::[])))))) } :: ({ m_py =
    ('e'::('r'::('f'::('c'::[])))); m_cpp =
    ('s'::('t'::('d'::(':'::(':'::('e'::('r'::('f'::('c'::[])))))))));
    m_inc = (('c'::('m'::('a'::('t'::('h'::[]))))) :: []); m_ret =
    ('d'::('o'::('u'::('b'::('l'::('e'::[])))))) } :: ({ m_py =
    ('t'::('g'::('a'::('m'::('m'::('a'::[])))))); m_cpp =
    ('s'::('t'::('d'::(':'::(':'::('t'::('g'::('a'::('m'::('m'::('a'::[])))))))))));
    m_inc = (('c'::('m'::('a'::('t'::('h'::[]))))) :: []); m_ret =
    ('d'::('o'::('u'::('b'::('l'::('e'::[])))))) } :: ({ m_py =
    ('l'::('g'::('a'::('m'::('m'::('a'::[])))))); m_cpp =
    ('s'::('t'::('d'::(':'::(':'::('l'::('g'::('a'::('m'::('m'::('a'::[])))))))))));
    m_inc = (('c'::('m'::('a'::('t'::('h'::[]))))) :: []); m_ret =
    ('d'::('o'::('u'::('b'::('l'::('e'::[])))))) } :: ({ m_py =
    ('c'::('e'::('i'::('l'::[])))); m_cpp =
    ('s'::('t'::('d'::(':'::(':'::('c'::('e'::('i'::('l'::[])))))))));
    m_inc = (('c'::('m'::('a'::('t'::('h'::[]))))) :: []); m_ret =
    ('d'::('o'::('u'::('b'::('l'::('e'::[])))))) } :: ({ m_py =
    ('f'::('l'::('o'::('o'::('r'::[]))))); m_cpp =
    ('s'::('t'::('d'::(':'::(':'::('f'::('l'::('o'::('o'::('r'::[]))))))))));
    m_inc = (('c'::('m'::('a'::('t'::('h'::[]))))) :: []); m_ret =
    ('d'::('o'::('u'::('b'::('l'::('e'::[])))))) } :: ({ m_py =
    ('f'::('m'::('o'::('d'::[])))); m_cpp =
    ('s'::('t'::('d'::(':'::(':'::('f'::('m'::('o'::('d'::[])))))))));
    m_inc = (('c'::('m'::('a'::('t'::('h'::[]))))) :: []); m_ret =
    ('d'::('o'::('u'::('b'::('l'::('e'::[])))))) } :: ({ m_py =
    ('t'::('r'::('u'::('n'::('c'::[]))))); m_cpp =
    ('s'::('t'::('d'::(':'::(':'::('t'::('r'::('u'::('n'::('c'::[]))))))))));
    m_inc = (('c'::('m'::('a'::('t'::('h'::[]))))) :: []); m_ret =
    ('d'::('o'::('u'::('b'::('l'::('e'::[])))))) } :: ({ m_py =
    ('r'::('o'::('u'::('n'::('d'::[]))))); m_cpp =
    ('s'::('t'::('d'::(':'::(':'::('r'::('o'::('u'::('n'::('d'::[]))))))))));
    m_inc = (('c'::('m'::('a'::('t'::('h'::[]))))) :: []); m_ret =
    ('d'::('o'::('u'::('b'::('l'::('e'::[])))))) } :: ({ m_py =
    ('r'::('i'::('n'::('t'::[])))); m_cpp =
    ('s'::('t'::('d'::(':'::(':'::('r'::('i'::('n'::('t'::[])))))))));
    m_inc = (('c'::('m'::('a'::('t'::('h'::[]))))) :: []); m_ret =
    ('d'::('o'::('u'::('b'::('l'::('e'::[])))))) } :: ({ m_py =
    ('n'::('e'::('a'::('r'::('b'::('y'::('i'::('n'::('t'::[])))))))));
    m_cpp =
    ('s'::('t'::('d'::(':'::(':'::('n'::('e'::('a'::('r'::('b'::('y'::('i'::('n'::('t'::[]))))))))))))));
    m_inc = (('c'::('m'::('a'::('t'::('h'::[]))))) :: []); m_ret =
    ('d'::('o'::('u'::('b'::('l'::('e'::[])))))) } :: ({ m_py =
    ('r'::('e'::('m'::('a'::('i'::('n'::('d'::('e'::('r'::[])))))))));
    m_cpp =
    ('s'::('t'::('d'::(':'::(':'::('r'::('e'::('m'::('a'::('i'::('n'::('d'::('e'::('r'::[]))))))))))))));
    m_inc = (('c'::('m'::('a'::('t'::('h'::[]))))) :: []); m_ret =
    ('d'::('o'::('u'::('b'::('l'::('e'::[])))))) } :: ({ m_py =
    ('r'::('e'::('m'::('q'::('u'::('o'::[])))))); m_cpp =
    ('s'::('t'::('d'::(':'::(':'::('r'::('e'::('m'::('q'::('u'::('o'::[])))))))))));
    m_inc = (('c'::('m'::('a'::('t'::('h'::[]))))) :: []); m_ret =
    ('d'::('o'::('u'::('b'::('l'::('e'::[])))))) } :: ({ m_py =
    ('c'::('o'::('p'::('y'::('s'::('i'::('g'::('n'::[])))))))); m_cpp =
    ('s'::('t'::('d'::(':'::(':'::('c'::('o'::('p'::('y'::('s'::('i'::('g'::('n'::[])))))))))))));
    m_inc = (('c'::('m'::('a'::('t'::('h'::[]))))) :: []); m_ret =
    ('d'::('o'::('u'::('b'::('l'::('e'::[])))))) } :: ({ m_py =
    ('n'::('a'::('n'::[]))); m_cpp =
    ('s'::('t'::('d'::(':'::(':'::('n'::('a'::('n'::[])))))))); m_inc =
    (('c'::('m'::('a'::('t'::('h'::[]))))) :: []); m_ret =
    ('d'::('o'::('u'::('b'::('l'::('e'::[])))))) } :: ({ m_py =
    ('n'::('e'::('x'::('t'::('a'::('f'::('t'::('e'::('r'::[])))))))));
    m_cpp =
    ('s'::('t'::('d'::(':'::(':'::('n'::('e'::('x'::('t'::('a'::('f'::('t'::('e'::('r'::[]))))))))))))));
    m_inc = (('c'::('m'::('a'::('t'::('h'::[]))))) :: []); m_ret =
    ('d'::('o'::('u'::('b'::('l'::('e'::[])))))) } :: ({ m_py =
    ('n'::('e'::('x'::('t'::('t'::('o'::('w'::('a'::('r'::('d'::[]))))))))));
    m_cpp =
    ('s'::('t'::('d'::(':'::(':'::('n'::('e'::('x'::('t'::('t'::('o'::('w'::('a'::('r'::('d'::[])))))))))))))));
    m_inc = (('c'::('m'::('a'::('t'::('h'::[]))))) :: []); m_ret =
    ('d'::('o'::('u'::('b'::('l'::('e'::[])))))) } :: ({ m_py =
    ('f'::('d'::('i'::('m'::[])))); m_cpp =
    ('s'::('t'::('d'::(':'::(':'::('f'::('d'::('i'::('m'::[])))))))));
    m_inc = (('c'::('m'::('a'::('t'::('h'::[]))))) :: []); m_ret =
    ('d'::('o'::('u'::('b'::('l'::('e'::[])))))) } :: ({ m_py =
    ('f'::('m'::('a'::('x'::[])))); m_cpp =
    ('s'::('t'::('d'::(':'::(':'::('f'::('m'::('a'::('x'::[])))))))));
    m_inc = (('c'::('m'::('a'::('t'::('h'::[]))))) :: []); m_ret =
    ('d'::('o'::('u'::('b'::('l'::('e'::[])))))) } :: ({ m_py =
    ('f'::('m'::('i'::('n'::[])))); m_cpp =
    ('s'::('t'::('d'::(':'::(':'::('f'::('m'::('i'::('n'::[])))))))));
    m_inc = (('c'::('m'::('a'::('t'::('h'::[]))))) :: []); m_ret =
    ('d'::('o'::('u'::('b'::('l'::('e'::[])))))) } :: ({ m_py =
    ('f'::('a'::('b'::('s'::[])))); m_cpp =
    ('s'::('t'::('d'::(':'::(':'::('f'::('a'::('b'::('s'::[])))))))));
    m_inc = (('c'::('m'::('a'::('t'::('h'::[]))))) :: []); m_ret =
    ('d'::('o'::('u'::('b'::('l'::('e'::[])))))) } :: ({ m_py =
    ('a'::('b'::('s'::[]))); m_cpp =
    ('s'::('t'::('d'::(':'::(':'::('f'::('a'::('b'::('s'::[])))))))));
    m_inc = (('c'::('m'::('a'::('t'::('h'::[]))))) :: []); m_ret =
    ('d'::('o'::('u'::('b'::('l'::('e'::[])))))) } :: ({ m_py =
    ('f'::('m'::('a'::[]))); m_cpp =
    ('s'::('t'::('d'::(':'::(':'::('f'::('m'::('a'::[])))))))); m_inc =
    (('c'::('m'::('a'::('t'::('h'::[]))))) :: []); m_ret =
    ('d'::('o'::('u'::('b'::('l'::('e'::[])))))) } :: ({ m_py =
    ('b'::('u'::('i'::('l'::('t'::('i'::('n'::('s'::('.'::('a'::('b'::('s'::[]))))))))))));
    m_cpp = ('s'::('t'::('d'::(':'::(':'::('a'::('b'::('s'::[]))))))));
    m_inc = (('c'::('m'::('a'::('t'::('h'::[]))))) :: []); m_ret =
    ('d'::('o'::('u'::('b'::('l'::('e'::[])))))) } :: ({ m_py =
    ('b'::('u'::('i'::('l'::('t'::('i'::('n'::('s'::('.'::('p'::('o'::('w'::[]))))))))))));
    m_cpp = ('s'::('t'::('d'::(':'::(':'::('p'::('o'::('w'::[]))))))));
    m_inc = (('c'::('m'::('a'::('t'::('h'::[]))))) :: []); m_ret =
    ('d'::('o'::('u'::('b'::('l'::('e'::[])))))) } :: ({ m_py =
    ('b'::('u'::('i'::('l'::('t'::('i'::('n'::('s'::('.'::('r'::('o'::('u'::('n'::('d'::[]))))))))))))));
    m_cpp =
    ('s'::('t'::('d'::(':'::(':'::('r'::('o'::('u'::('n'::('d'::[]))))))))));
    m_inc = (('c'::('m'::('a'::('t'::('h'::[]))))) :: []); m_ret =
    ('d'::('o'::('u'::('b'::('l'::('e'::[])))))) } :: []))))))))))))))))))))))))))))))))))))))))))))))))))))))

(** val module_names : char list list **)

let module_names =
  ('a'::('s'::('t'::[]))) :: (('n'::('a'::('m'::('e'::('d'::('t'::('u'::('p'::('l'::('e'::[])))))))))) :: (('F'::('u'::('n'::('c'::('t'::('i'::('o'::('n'::('A'::('S'::('T'::[]))))))))))) :: (('f'::('i'::('n'::('d'::('_'::('k'::('n'::('o'::('w'::('n'::('_'::('f'::('u'::('n'::('c'::('t'::('i'::('o'::('n'::('s'::[])))))))))))))))))))) :: (('a'::('d'::('d'::('_'::('f'::('u'::('n'::('c'::('t'::('i'::('o'::('n'::('_'::('m'::('a'::('p'::('p'::('i'::('n'::('g'::[])))))))))))))))))))) :: (('f'::('u'::('n'::('c'::('t'::('i'::('o'::('n'::('s'::('_'::('t'::('o'::('_'::('r'::('e'::('p'::('l'::('a'::('c'::('e'::[])))))))))))))))))))) :: (('c'::('p'::('p'::('_'::('f'::('u'::('n'::('c'::('t'::('i'::('o'::('n'::[])))))))))))) :: []))))))

(** val builtin_names : (char list * char list) list **)

let builtin_names =
  (('A'::('r'::('i'::('t'::('h'::('m'::('e'::('t'::('i'::('c'::('E'::('r'::('r'::('o'::('r'::[]))))))))))))))),
    ('b'::('u'::('i'::('l'::('t'::('i'::('n'::('s'::[]))))))))) :: ((('A'::('s'::('s'::('e'::('r'::('t'::('i'::('o'::('n'::('E'::('r'::('r'::('o'::('r'::[])))))))))))))),
    ('b'::('u'::('i'::('l'::('t'::('i'::('n'::('s'::[]))))))))) :: ((('A'::('t'::('t'::('r'::('i'::('b'::('u'::('t'::('e'::('E'::('r'::('r'::('o'::('r'::[])))))))))))))),
    ('b'::('u'::('i'::('l'::('t'::('i'::('n'::('s'::[]))))))))) :: ((('B'::('a'::('s'::('e'::('E'::('x'::('c'::('e'::('p'::('t'::('i'::('o'::('n'::[]))))))))))))),
    ('b'::('u'::('i'::('l'::('t'::('i'::('n'::('s'::[]))))))))) :: ((('B'::('a'::('s'::('e'::('E'::('x'::('c'::('e'::('p'::('t'::('i'::('o'::('n'::('G'::('r'::('o'::('u'::('p'::[])))))))))))))))))),
    ('b'::('u'::('i'::('l'::('t'::('i'::('n'::('s'::[]))))))))) :: ((('B'::('l'::('o'::('c'::('k'::('i'::('n'::('g'::('I'::('O'::('E'::('r'::('r'::('o'::('r'::[]))))))))))))))),
    ('b'::('u'::('i'::('l'::('t'::('i'::('n'::('s'::[]))))))))) :: ((('B'::('r'::('o'::('k'::('e'::('n'::('P'::('i'::('p'::('e'::('E'::('r'::('r'::('o'::('r'::[]))))))))))))))),
    ('b'::('u'::('i'::('l'::('t'::('i'::('n'::('s'::[]))))))))) :: ((('B'::('u'::('f'::('f'::('e'::('r'::('E'::('r'::('r'::('o'::('r'::[]))))))))))),
    ('b'::('u'::('i'::('l'::('t'::('i'::('n'::('s'::[]))))))))) :: ((('B'::('y'::('t'::('e'::('s'::('W'::('a'::('r'::('n'::('i'::('n'::('g'::[])))))))))))),
    ('b'::('u'::('i'::('l'::('t'::('i'::('n'::('s'::[]))))))))) :: ((('C'::('h'::('i'::('l'::('d'::('P'::('r'::('o'::('c'::('e'::('s'::('s'::('E'::('r'::('r'::('o'::('r'::[]))))))))))))))))),
    ('b'::('u'::('i'::('l'::('t'::('i'::('n'::('s'::[]))))))))) :: ((('C'::('o'::('n'::('n'::('e'::('c'::('t'::('i'::('o'::('n'::('A'::('b'::('o'::('r'::('t'::('e'::('d'::('E'::('r'::('r'::('o'::('r'::[])))))))))))))))))))))),
    ('b'::('u'::('i'::('l'::('t'::('i'::('n'::('s'::[]))))))))) :: ((('C'::('o'::('n'::('n'::('e'::('c'::('t'::('i'::('o'::('n'::('E'::('r'::('r'::('o'::('r'::[]))))))))))))))),
    ('b'::('u'::('i'::('l'::('t'::('i'::('n'::('s'::[]))))))))) :: ((('C'::('o'::('n'::('n'::('e'::('c'::('t'::('i'::('o'::('n'::('R'::('e'::('f'::('u'::('s'::('e'::('d'::('E'::('r'::('r'::('o'::('r'::[])))))))))))))))))))))),
    ('b'::('u'::('i'::('l'::('t'::('i'::('n'::('s'::[]))))))))) :: ((('C'::('o'::('n'::('n'::('e'::('c'::('t'::('i'::('o'::('n'::('R'::('e'::('s'::('e'::('t'::('E'::('r'::('r'::('o'::('r'::[])))))))))))))))))))),
    ('b'::('u'::('i'::('l'::('t'::('i'::('n'::('s'::[]))))))))) :: ((('D'::('e'::('p'::('r'::('e'::('c'::('a'::('t'::('i'::('o'::('n'::('W'::('a'::('r'::('n'::('i'::('n'::('g'::[])))))))))))))))))),
    ('b'::('u'::('i'::('l'::('t'::('i'::('n'::('s'::[]))))))))) :: ((('E'::('O'::('F'::('E'::('r'::('r'::('o'::('r'::[])))))))),
    ('b'::('u'::('i'::('l'::('t'::('i'::('n'::('s'::[]))))))))) :: ((('E'::('l'::('l'::('i'::('p'::('s'::('i'::('s'::[])))))))),
    ('-'::[])) :: ((('E'::('n'::('c'::('o'::('d'::('i'::('n'::('g'::('W'::('a'::('r'::('n'::('i'::('n'::('g'::[]))))))))))))))),
    ('b'::('u'::('i'::('l'::('t'::('i'::('n'::('s'::[]))))))))) :: ((('E'::('n'::('v'::('i'::('r'::('o'::('n'::('m'::('e'::('n'::('t'::('E'::('r'::('r'::('o'::('r'::[])))))))))))))))),
    ('b'::('u'::('i'::('l'::('t'::('i'::('n'::('s'::[]))))))))) :: ((('E'::('x'::('c'::('e'::('p'::('t'::('i'::('o'::('n'::[]))))))))),
    ('b'::('u'::('i'::('l'::('t'::('i'::('n'::('s'::[]))))))))) :: ((('E'::('x'::('c'::('e'::('p'::('t'::('i'::('o'::('n'::('G'::('r'::('o'::('u'::('p'::[])))))))))))))),
    ('b'::('u'::('i'::('l'::('t'::('i'::('n'::('s'::[]))))))))) :: ((('F'::('a'::('l'::('s'::('e'::[]))))),
    ('-'::[])) :: ((('F'::('i'::('l'::('e'::('E'::('x'::('i'::('s'::('t'::('s'::('E'::('r'::('r'::('o'::('r'::[]))))))))))))))),
    ('b'::('u'::('i'::('l'::('t'::('i'::('n'::('s'::[]))))))))) :: ((('F'::('i'::('l'::('e'::('N'::('o'::('t'::('F'::('o'::('u'::('n'::('d'::('E'::('r'::('r'::('o'::('r'::[]))))))))))))))))),
    ('b'::('u'::('i'::('l'::('t'::('i'::('n'::('s'::[]))))))))) :: ((('F'::('l'::('o'::('a'::('t'::('i'::('n'::('g'::('P'::('o'::('i'::('n'::('t'::('E'::('r'::('r'::('o'::('r'::[])))))))))))))))))),
    ('b'::('u'::('i'::('l'::('t'::('i'::('n'::('s'::[]))))))))) :: ((('F'::('u'::('t'::('u'::('r'::('e'::('W'::('a'::('r'::('n'::('i'::('n'::('g'::[]))))))))))))),
    ('b'::('u'::('i'::('l'::('t'::('i'::('n'::('s'::[]))))))))) :: ((('G'::('e'::('n'::('e'::('r'::('a'::('t'::('o'::('r'::('E'::('x'::('i'::('t'::[]))))))))))))),
    ('b'::('u'::('i'::('l'::('t'::('i'::('n'::('s'::[]))))))))) :: ((('I'::('O'::('E'::('r'::('r'::('o'::('r'::[]))))))),
    ('b'::('u'::('i'::('l'::('t'::('i'::('n'::('s'::[]))))))))) :: ((('I'::('m'::('p'::('o'::('r'::('t'::('E'::('r'::('r'::('o'::('r'::[]))))))))))),
    ('b'::('u'::('i'::('l'::('t'::('i'::('n'::('s'::[]))))))))) :: ((('I'::('m'::('p'::('o'::('r'::('t'::('W'::('a'::('r'::('n'::('i'::('n'::('g'::[]))))))))))))),
    ('b'::('u'::('i'::('l'::('t'::('i'::('n'::('s'::[]))))))))) :: ((('I'::('n'::('d'::('e'::('n'::('t'::('a'::('t'::('i'::('o'::('n'::('E'::('r'::('r'::('o'::('r'::[])))))))))))))))),
    ('b'::('u'::('i'::('l'::('t'::('i'::('n'::('s'::[]))))))))) :: ((('I'::('n'::('d'::('e'::('x'::('E'::('r'::('r'::('o'::('r'::[])))))))))),
    ('b'::('u'::('i'::('l'::('t'::('i'::('n'::('s'::[]))))))))) :: ((('I'::('n'::('t'::('e'::('r'::('r'::('u'::('p'::('t'::('e'::('d'::('E'::('r'::('r'::('o'::('r'::[])))))))))))))))),
    ('b'::('u'::('i'::('l'::('t'::('i'::('n'::('s'::[]))))))))) :: ((('I'::('s'::('A'::('D'::('i'::('r'::('e'::('c'::('t'::('o'::('r'::('y'::('E'::('r'::('r'::('o'::('r'::[]))))))))))))))))),
    ('b'::('u'::('i'::('l'::('t'::('i'::('n'::('s'::[]))))))))) :: ((('K'::('e'::('y'::('E'::('r'::('r'::('o'::('r'::[])))))))),
    ('b'::('u'::('i'::('l'::('t'::('i'::('n'::('s'::[]))))))))) :: ((('K'::('e'::('y'::('b'::('o'::('a'::('r'::('d'::('I'::('n'::('t'::('e'::('r'::('r'::('u'::('p'::('t'::[]))))))))))))))))),
    ('b'::('u'::('i'::('l'::('t'::('i'::('n'::('s'::[]))))))))) :: ((('L'::('o'::('o'::('k'::('u'::('p'::('E'::('r'::('r'::('o'::('r'::[]))))))))))),
    ('b'::('u'::('i'::('l'::('t'::('i'::('n'::('s'::[]))))))))) :: ((('M'::('e'::('m'::('o'::('r'::('y'::('E'::('r'::('r'::('o'::('r'::[]))))))))))),
    ('b'::('u'::('i'::('l'::('t'::('i'::('n'::('s'::[]))))))))) :: ((('M'::('o'::('d'::('u'::('l'::('e'::('N'::('o'::('t'::('F'::('o'::('u'::('n'::('d'::('E'::('r'::('r'::('o'::('r'::[]))))))))))))))))))),
    ('b'::('u'::('i'::('l'::('t'::('i'::('n'::('s'::[]))))))))) :: ((('N'::('a'::('m'::('e'::('E'::('r'::('r'::('o'::('r'::[]))))))))),
    ('b'::('u'::('i'::('l'::('t'::('i'::('n'::('s'::[]))))))))) :: ((('N'::('o'::('n'::('e'::[])))),
    ('-'::[])) :: ((('N'::('o'::('t'::('A'::('D'::('i'::('r'::('e'::('c'::('t'::('o'::('r'::('y'::('E'::('r'::('r'::('o'::('r'::[])))))))))))))))))),
    ('b'::('u'::('i'::('l'::('t'::('i'::('n'::('s'::[]))))))))) :: ((('N'::('o'::('t'::('I'::('m'::('p'::('l'::('e'::('m'::('e'::('n'::('t'::('e'::('d'::[])))))))))))))),
    ('-'::[])) :: ((('N'::('o'::('t'::('I'::('m'::('p'::('l'::('e'::('m'::('e'::('n'::('t'::('e'::('d'::('E'::('r'::('r'::('o'::('r'::[]))))))))))))))))))),
    ('b'::('u'::('i'::('l'::('t'::('i'::('n'::('s'::[]))))))))) :: ((('O'::('S'::('E'::('r'::('r'::('o'::('r'::[]))))))),
    ('b'::('u'::('i'::('l'::('t'::('i'::('n'::('s'::[]))))))))) :: ((('O'::('v'::('e'::('r'::('f'::('l'::('o'::('w'::('E'::('r'::('r'::('o'::('r'::[]))))))))))))),
    ('b'::('u'::('i'::('l'::('t'::('i'::('n'::('s'::[]))))))))) :: ((('P'::('e'::('n'::('d'::('i'::('n'::('g'::('D'::('e'::('p'::('r'::('e'::('c'::('a'::('t'::('i'::('o'::('n'::('W'::('a'::('r'::('n'::('i'::('n'::('g'::[]))))))))))))))))))))))))),
    ('b'::('u'::('i'::('l'::('t'::('i'::('n'::('s'::[]))))))))) :: ((('P'::('e'::('r'::('m'::('i'::('s'::('s'::('i'::('o'::('n'::('E'::('r'::('r'::('o'::('r'::[]))))))))))))))),
    ('b'::('u'::('i'::('l'::('t'::('i'::('n'::('s'::[]))))))))) :: ((('P'::('r'::('o'::('c'::('e'::('s'::('s'::('L'::('o'::('o'::('k'::('u'::('p'::('E'::('r'::('r'::('o'::('r'::[])))))))))))))))))),
    ('b'::('u'::('i'::('l'::('t'::('i'::('n'::('s'::[]))))))))) :: ((('R'::('e'::('c'::('u'::('r'::('s'::('i'::('o'::('n'::('E'::('r'::('r'::('o'::('r'::[])))))))))))))),
    ('b'::('u'::('i'::('l'::('t'::('i'::('n'::('s'::[]))))))))) :: ((('R'::('e'::('f'::('e'::('r'::('e'::('n'::('c'::('e'::('E'::('r'::('r'::('o'::('r'::[])))))))))))))),
    ('b'::('u'::('i'::('l'::('t'::('i'::('n'::('s'::[]))))))))) :: ((('R'::('e'::('s'::('o'::('u'::('r'::('c'::('e'::('W'::('a'::('r'::('n'::('i'::('n'::('g'::[]))))))))))))))),
    ('b'::('u'::('i'::('l'::('t'::('i'::('n'::('s'::[]))))))))) :: ((('R'::('u'::('n'::('t'::('i'::('m'::('e'::('E'::('r'::('r'::('o'::('r'::[])))))))))))),
    ('b'::('u'::('i'::('l'::('t'::('i'::('n'::('s'::[]))))))))) :: ((('R'::('u'::('n'::('t'::('i'::('m'::('e'::('W'::('a'::('r'::('n'::('i'::('n'::('g'::[])))))))))))))),
    ('b'::('u'::('i'::('l'::('t'::('i'::('n'::('s'::[]))))))))) :: ((('S'::('t'::('o'::('p'::('A'::('s'::('y'::('n'::('c'::('I'::('t'::('e'::('r'::('a'::('t'::('i'::('o'::('n'::[])))))))))))))))))),
    ('b'::('u'::('i'::('l'::('t'::('i'::('n'::('s'::[]))))))))) :: ((('S'::('t'::('o'::('p'::('I'::('t'::('e'::('r'::('a'::('t'::('i'::('o'::('n'::[]))))))))))))),
    ('b'::('u'::('i'::('l'::('t'::('i'::('n'::('s'::[]))))))))) :: ((('S'::('y'::('n'::('t'::('a'::('x'::('E'::('r'::('r'::('o'::('r'::[]))))))))))),
    ('b'::('u'::('i'::('l'::('t'::('i'::('n'::('s'::[]))))))))) :: ((('S'::('y'::('n'::('t'::('a'::('x'::('W'::('a'::('r'::('n'::('i'::('n'::('g'::[]))))))))))))),
    ('b'::('u'::('i'::('l'::('t'::('i'::('n'::('s'::[]))))))))) :: ((('S'::('y'::('s'::('t'::('e'::('m'::('E'::('r'::('r'::('o'::('r'::[]))))))))))),
    ('b'::('u'::('i'::('l'::('t'::('i'::('n'::('s'::[]))))))))) :: ((('S'::('y'::('s'::('t'::('e'::('m'::('E'::('x'::('i'::('t'::[])))))))))),
    ('b'::('u'::('i'::('l'::('t'::('i'::('n'::('s'::[]))))))))) :: ((('T'::('a'::('b'::('E'::('r'::('r'::('o'::('r'::[])))))))),
    ('b'::('u'::('i'::('l'::('t'::('i'::('n'::('s'::[]))))))))) :: ((('T'::('i'::('m'::('e'::('o'::('u'::('t'::('E'::('r'::('r'::('o'::('r'::[])))))))))))),
    ('b'::('u'::('i'::('l'::('t'::('i'::('n'::('s'::[]))))))))) :: ((('T'::('r'::('u'::('e'::[])))),
    ('-'::[])) :: ((('T'::('y'::('p'::('e'::('E'::('r'::('r'::('o'::('r'::[]))))))))),
    ('b'::('u'::('i'::('l'::('t'::('i'::('n'::('s'::[]))))))))) :: ((('U'::('n'::('b'::('o'::('u'::('n'::('d'::('L'::('o'::('c'::('a'::('l'::('E'::('r'::('r'::('o'::('r'::[]))))))))))))))))),
    ('b'::('u'::('i'::('l'::('t'::('i'::('n'::('s'::[]))))))))) :: ((('U'::('n'::('i'::('c'::('o'::('d'::('e'::('D'::('e'::('c'::('o'::('d'::('e'::('E'::('r'::('r'::('o'::('r'::[])))))))))))))))))),
    ('b'::('u'::('i'::('l'::('t'::('i'::('n'::('s'::[]))))))))) :: ((('U'::('n'::('i'::('c'::('o'::('d'::('e'::('E'::('n'::('c'::('o'::('d'::('e'::('E'::('r'::('r'::('o'::('r'::[])))))))))))))))))),
    ('b'::('u'::('i'::('l'::('t'::('i'::('n'::('s'::[]))))))))) :: ((('U'::('n'::('i'::('c'::('o'::('d'::('e'::('E'::('r'::('r'::('o'::('r'::[])))))))))))),
    ('b'::('u'::('i'::('l'::('t'::('i'::('n'::('s'::[]))))))))) :: ((('U'::('n'::('i'::('c'::('o'::('d'::('e'::('T'::('r'::('a'::('n'::('s'::('l'::('a'::('t'::('e'::('E'::('r'::('r'::('o'::('r'::[]))))))))))))))))))))),
    ('b'::('u'::('i'::('l'::('t'::('i'::('n'::('s'::[]))))))))) :: ((('U'::('n'::('i'::('c'::('o'::('d'::('e'::('W'::('a'::('r'::('n'::('i'::('n'::('g'::[])))))))))))))),
    ('b'::('u'::('i'::('l'::('t'::('i'::('n'::('s'::[]))))))))) :: ((('U'::('s'::('e'::('r'::('W'::('a'::('r'::('n'::('i'::('n'::('g'::[]))))))))))),
    ('b'::('u'::('i'::('l'::('t'::('i'::('n'::('s'::[]))))))))) :: ((('V'::('a'::('l'::('u'::('e'::('E'::('r'::('r'::('o'::('r'::[])))))))))),
    ('b'::('u'::('i'::('l'::('t'::('i'::('n'::('s'::[]))))))))) :: ((('W'::('a'::('r'::('n'::('i'::('n'::('g'::[]))))))),
    ('b'::('u'::('i'::('l'::('t'::('i'::('n'::('s'::[]))))))))) :: ((('Z'::('e'::('r'::('o'::('D'::('i'::('v'::('i'::('s'::('i'::('o'::('n'::('E'::('r'::('r'::('o'::('r'::[]))))))))))))))))),
    ('b'::('u'::('i'::('l'::('t'::('i'::('n'::('s'::[]))))))))) :: ((('_'::('_'::('b'::('u'::('i'::('l'::('d'::('_'::('c'::('l'::('a'::('s'::('s'::('_'::('_'::[]))))))))))))))),
    ('b'::('u'::('i'::('l'::('t'::('i'::('n'::('s'::[]))))))))) :: ((('_'::('_'::('d'::('e'::('b'::('u'::('g'::('_'::('_'::[]))))))))),
    ('-'::[])) :: ((('_'::('_'::('d'::('o'::('c'::('_'::('_'::[]))))))),
    ('-'::[])) :: ((('_'::('_'::('i'::('m'::('p'::('o'::('r'::('t'::('_'::('_'::[])))))))))),
    ('b'::('u'::('i'::('l'::('t'::('i'::('n'::('s'::[]))))))))) :: ((('_'::('_'::('l'::('o'::('a'::('d'::('e'::('r'::('_'::('_'::[])))))))))),
    ('_'::('f'::('r'::('o'::('z'::('e'::('n'::('_'::('i'::('m'::('p'::('o'::('r'::('t'::('l'::('i'::('b'::[])))))))))))))))))) :: ((('_'::('_'::('n'::('a'::('m'::('e'::('_'::('_'::[])))))))),
    ('-'::[])) :: ((('_'::('_'::('p'::('a'::('c'::('k'::('a'::('g'::('e'::('_'::('_'::[]))))))))))),
    ('-'::[])) :: ((('_'::('_'::('s'::('p'::('e'::('c'::('_'::('_'::[])))))))),
    ('_'::('f'::('r'::('o'::('z'::('e'::('n'::('_'::('i'::('m'::('p'::('o'::('r'::('t'::('l'::('i'::('b'::[])))))))))))))))))) :: ((('a'::('b'::('s'::[]))),
    ('b'::('u'::('i'::('l'::('t'::('i'::('n'::('s'::[]))))))))) :: ((('a'::('i'::('t'::('e'::('r'::[]))))),
    ('b'::('u'::('i'::('l'::('t'::('i'::('n'::('s'::[]))))))))) :: ((('a'::('l'::('l'::[]))),
    ('b'::('u'::('i'::('l'::('t'::('i'::('n'::('s'::[]))))))))) :: ((('a'::('n'::('e'::('x'::('t'::[]))))),
    ('b'::('u'::('i'::('l'::('t'::('i'::('n'::('s'::[]))))))))) :: ((('a'::('n'::('y'::[]))),
    ('b'::('u'::('i'::('l'::('t'::('i'::('n'::('s'::[]))))))))) :: ((('a'::('s'::('c'::('i'::('i'::[]))))),
    ('b'::('u'::('i'::('l'::('t'::('i'::('n'::('s'::[]))))))))) :: ((('b'::('i'::('n'::[]))),
    ('b'::('u'::('i'::('l'::('t'::('i'::('n'::('s'::[]))))))))) :: ((('b'::('o'::('o'::('l'::[])))),
    ('b'::('u'::('i'::('l'::('t'::('i'::('n'::('s'::[]))))))))) :: ((('b'::('r'::('e'::('a'::('k'::('p'::('o'::('i'::('n'::('t'::[])))))))))),
    ('b'::('u'::('i'::('l'::('t'::('i'::('n'::('s'::[]))))))))) :: ((('b'::('y'::('t'::('e'::('a'::('r'::('r'::('a'::('y'::[]))))))))),
    ('b'::('u'::('i'::('l'::('t'::('i'::('n'::('s'::[]))))))))) :: ((('b'::('y'::('t'::('e'::('s'::[]))))),
    ('b'::('u'::('i'::('l'::('t'::('i'::('n'::('s'::[]))))))))) :: ((('c'::('a'::('l'::('l'::('a'::('b'::('l'::('e'::[])))))))),
    ('b'::('u'::('i'::('l'::('t'::('i'::('n'::('s'::[]))))))))) :: ((('c'::('h'::('r'::[]))),
    ('b'::('u'::('i'::('l'::('t'::('i'::('n'::('s'::[]))))))))) :: ((('c'::('l'::('a'::('s'::('s'::('m'::('e'::('t'::('h'::('o'::('d'::[]))))))))))),
    ('b'::('u'::('i'::('l'::('t'::('i'::('n'::('s'::[]))))))))) :: ((('c'::('o'::('m'::('p'::('i'::('l'::('e'::[]))))))),
    ('b'::('u'::('i'::('l'::('t'::('i'::('n'::('s'::[]))))))))) :: ((('c'::('o'::('m'::('p'::('l'::('e'::('x'::[]))))))),
    ('b'::('u'::('i'::('l'::('t'::('i'::('n'::('s'::[]))))))))) :: ((('c'::('o'::('p'::('y'::('r'::('i'::('g'::('h'::('t'::[]))))))))),
    ('_'::('s'::('i'::('t'::('e'::('b'::('u'::('i'::('l'::('t'::('i'::('n'::('s'::[])))))))))))))) :: ((('c'::('r'::('e'::('d'::('i'::('t'::('s'::[]))))))),
    ('_'::('s'::('i'::('t'::('e'::('b'::('u'::('i'::('l'::('t'::('i'::('n'::('s'::[])))))))))))))) :: ((('d'::('e'::('l'::('a'::('t'::('t'::('r'::[]))))))),
    ('b'::('u'::('i'::('l'::('t'::('i'::('n'::('s'::[]))))))))) :: ((('d'::('i'::('c'::('t'::[])))),
    ('b'::('u'::('i'::('l'::('t'::('i'::('n'::('s'::[]))))))))) :: ((('d'::('i'::('r'::[]))),
    ('b'::('u'::('i'::('l'::('t'::('i'::('n'::('s'::[]))))))))) :: ((('d'::('i'::('v'::('m'::('o'::('d'::[])))))),
    ('b'::('u'::('i'::('l'::('t'::('i'::('n'::('s'::[]))))))))) :: ((('e'::('n'::('u'::('m'::('e'::('r'::('a'::('t'::('e'::[]))))))))),
    ('b'::('u'::('i'::('l'::('t'::('i'::('n'::('s'::[]))))))))) :: ((('e'::('v'::('a'::('l'::[])))),
    ('b'::('u'::('i'::('l'::('t'::('i'::('n'::('s'::[]))))))))) :: ((('e'::('x'::('e'::('c'::[])))),
    ('b'::('u'::('i'::('l'::('t'::('i'::('n'::('s'::[]))))))))) :: ((('e'::('x'::('i'::('t'::[])))),
    ('_'::('s'::('i'::('t'::('e'::('b'::('u'::('i'::('l'::('t'::('i'::('n'::('s'::[])))))))))))))) :: ((('f'::('i'::('l'::('t'::('e'::('r'::[])))))),
    ('b'::('u'::('i'::('l'::('t'::('i'::('n'::('s'::[]))))))))) :: ((('f'::('l'::('o'::('a'::('t'::[]))))),
    ('b'::('u'::('i'::('l'::('t'::('i'::('n'::('s'::[]))))))))) :: ((('f'::('o'::('r'::('m'::('a'::('t'::[])))))),
    ('b'::('u'::('i'::('l'::('t'::('i'::('n'::('s'::[]))))))))) :: ((('f'::('r'::('o'::('z'::('e'::('n'::('s'::('e'::('t'::[]))))))))),
    ('b'::('u'::('i'::('l'::('t'::('i'::('n'::('s'::[]))))))))) :: ((('g'::('e'::('t'::('a'::('t'::('t'::('r'::[]))))))),
    ('b'::('u'::('i'::('l'::('t'::('i'::('n'::('s'::[]))))))))) :: ((('g'::('l'::('o'::('b'::('a'::('l'::('s'::[]))))))),
    ('b'::('u'::('i'::('l'::('t'::('i'::('n'::('s'::[]))))))))) :: ((('h'::('a'::('s'::('a'::('t'::('t'::('r'::[]))))))),
    ('b'::('u'::('i'::('l'::('t'::('i'::('n'::('s'::[]))))))))) :: ((('h'::('a'::('s'::('h'::[])))),
    ('b'::('u'::('i'::('l'::('t'::('i'::('n'::('s'::[]))))))))) :: ((('h'::('e'::('l'::('p'::[])))),
    ('_'::('s'::('i'::('t'::('e'::('b'::('u'::('i'::('l'::('t'::('i'::('n'::('s'::[])))))))))))))) :: ((('h'::('e'::('x'::[]))),
    ('b'::('u'::('i'::('l'::('t'::('i'::('n'::('s'::[]))))))))) :: ((('i'::('d'::[])),
    ('b'::('u'::('i'::('l'::('t'::('i'::('n'::('s'::[]))))))))) :: ((('i'::('n'::('p'::('u'::('t'::[]))))),
    ('b'::('u'::('i'::('l'::('t'::('i'::('n'::('s'::[]))))))))) :: ((('i'::('n'::('t'::[]))),
    ('b'::('u'::('i'::('l'::('t'::('i'::('n'::('s'::[]))))))))) :: ((('i'::('s'::('i'::('n'::('s'::('t'::('a'::('n'::('c'::('e'::[])))))))))),
    ('b'::('u'::('i'::('l'::('t'::('i'::('n'::('s'::[]))))))))) :: ((('i'::('s'::('s'::('u'::('b'::('c'::('l'::('a'::('s'::('s'::[])))))))))),
    ('b'::('u'::('i'::('l'::('t'::('i'::('n'::('s'::[]))))))))) :: ((('i'::('t'::('e'::('r'::[])))),
    ('b'::('u'::('i'::('l'::('t'::('i'::('n'::('s'::[]))))))))) :: ((('l'::('e'::('n'::[]))),
    ('b'::('u'::('i'::('l'::('t'::('i'::('n'::('s'::[]))))))))) :: ((('l'::('i'::('c'::('e'::('n'::('s'::('e'::[]))))))),
    ('_'::('s'::('i'::('t'::('e'::('b'::('u'::('i'::('l'::('t'::('i'::('n'::('s'::[])))))))))))))) :: ((('l'::('i'::('s'::('t'::[])))),
    ('b'::('u'::('i'::('l'::('t'::('i'::('n'::('s'::[]))))))))) :: ((('l'::('o'::('c'::('a'::('l'::('s'::[])))))),
    ('b'::('u'::('i'::('l'::('t'::('i'::('n'::('s'::[]))))))))) :: ((('m'::('a'::('p'::[]))),
    ('b'::('u'::('i'::('l'::('t'::('i'::('n'::('s'::[]))))))))) :: ((('m'::('a'::('x'::[]))),
    ('b'::('u'::('i'::('l'::('t'::('i'::('n'::('s'::[]))))))))) :: ((('m'::('e'::('m'::('o'::('r'::('y'::('v'::('i'::('e'::('w'::[])))))))))),
    ('b'::('u'::('i'::('l'::('t'::('i'::('n'::('s'::[]))))))))) :: ((('m'::('i'::('n'::[]))),
    ('b'::('u'::('i'::('l'::('t'::('i'::('n'::('s'::[]))))))))) :: ((('n'::('e'::('x'::('t'::[])))),
    ('b'::('u'::('i'::('l'::('t'::('i'::('n'::('s'::[]))))))))) :: ((('o'::('b'::('j'::('e'::('c'::('t'::[])))))),
    ('b'::('u'::('i'::('l'::('t'::('i'::('n'::('s'::[]))))))))) :: ((('o'::('c'::('t'::[]))),
    ('b'::('u'::('i'::('l'::('t'::('i'::('n'::('s'::[]))))))))) :: ((('o'::('p'::('e'::('n'::[])))),
    ('_'::('i'::('o'::[])))) :: ((('o'::('r'::('d'::[]))),
    ('b'::('u'::('i'::('l'::('t'::('i'::('n'::('s'::[]))))))))) :: ((('p'::('o'::('w'::[]))),
    ('b'::('u'::('i'::('l'::('t'::('i'::('n'::('s'::[]))))))))) :: ((('p'::('r'::('i'::('n'::('t'::[]))))),
    ('b'::('u'::('i'::('l'::('t'::('i'::('n'::('s'::[]))))))))) :: ((('p'::('r'::('o'::('p'::('e'::('r'::('t'::('y'::[])))))))),
    ('b'::('u'::('i'::('l'::('t'::('i'::('n'::('s'::[]))))))))) :: ((('q'::('u'::('i'::('t'::[])))),
    ('_'::('s'::('i'::('t'::('e'::('b'::('u'::('i'::('l'::('t'::('i'::('n'::('s'::[])))))))))))))) :: ((('r'::('a'::('n'::('g'::('e'::[]))))),
    ('b'::('u'::('i'::('l'::('t'::('i'::('n'::('s'::[]))))))))) :: ((('r'::('e'::('p'::('r'::[])))),
    ('b'::('u'::('i'::('l'::('t'::('i'::('n'::('s'::[]))))))))) :: ((('r'::('e'::('v'::('e'::('r'::('s'::('e'::('d'::[])))))))),
    ('b'::('u'::('i'::('l'::('t'::('i'::('n'::('s'::[]))))))))) :: ((('r'::('o'::('u'::('n'::('d'::[]))))),
    ('b'::('u'::('i'::('l'::('t'::('i'::('n'::('s'::[]))))))))) :: ((('s'::('e'::('t'::[]))),
    ('b'::('u'::('i'::('l'::('t'::('i'::('n'::('s'::[]))))))))) :: ((('s'::('e'::('t'::('a'::('t'::('t'::('r'::[]))))))),
    ('b'::('u'::('i'::('l'::('t'::('i'::('n'::('s'::[]))))))))) :: ((('s'::('l'::('i'::('c'::('e'::[]))))),
    ('b'::('u'::('i'::('l'::('t'::('i'::('n'::('s'::[]))))))))) :: ((('s'::('o'::('r'::('t'::('e'::('d'::[])))))),
    ('b'::('u'::('i'::('l'::('t'::('i'::('n'::('s'::[]))))))))) :: ((('s'::('t'::('a'::('t'::('i'::('c'::('m'::('e'::('t'::('h'::('o'::('d'::[])))))))))))),
    ('b'::('u'::('i'::('l'::('t'::('i'::('n'::('s'::[]))))))))) :: ((('s'::('t'::('r'::[]))),
    ('b'::('u'::('i'::('l'::('t'::('i'::('n'::('s'::[]))))))))) :: ((('s'::('u'::('m'::[]))),
    ('b'::('u'::('i'::('l'::('t'::('i'::('n'::('s'::[]))))))))) :: ((('s'::('u'::('p'::('e'::('r'::[]))))),
    ('b'::('u'::('i'::('l'::('t'::('i'::('n'::('s'::[]))))))))) :: ((('t'::('u'::('p'::('l'::('e'::[]))))),
    ('b'::('u'::('i'::('l'::('t'::('i'::('n'::('s'::[]))))))))) :: ((('t'::('y'::('p'::('e'::[])))),
    ('b'::('u'::('i'::('l'::('t'::('i'::('n'::('s'::[]))))))))) :: ((('v'::('a'::('r'::('s'::[])))),
    ('b'::('u'::('i'::('l'::('t'::('i'::('n'::('s'::[]))))))))) :: ((('z'::('i'::('p'::[]))),
    ('b'::('u'::('i'::('l'::('t'::('i'::('n'::('s'::[]))))))))) :: []))))))))))))))))))))))))))))))))))))))))))))))))))))))))))))))))))))))))))))))))))))))))))))))))))))))))))))))))))))))))))))))))))))))))))))))))))))))))))))

(** val documented : char list list **)

let documented =
  ('s'::('i'::('n'::[]))) :: (('c'::('o'::('s'::[]))) :: (('t'::('a'::('n'::[]))) :: (('a'::('c'::('o'::('s'::[])))) :: (('a'::('s'::('i'::('n'::[])))) :: (('a'::('t'::('a'::('n'::[])))) :: (('a'::('t'::('a'::('n'::('2'::[]))))) :: (('s'::('i'::('n'::('h'::[])))) :: (('c'::('o'::('s'::('h'::[])))) :: (('t'::('a'::('n'::('h'::[])))) :: (('a'::('s'::('i'::('n'::('h'::[]))))) :: (('a'::('c'::('o'::('s'::('h'::[]))))) :: (('a'::('t'::('a'::('n'::('h'::[]))))) :: (('e'::('x'::('p'::[]))) :: (('l'::('d'::('e'::('x'::('p'::[]))))) :: (('l'::('o'::('g'::[]))) :: (('l'::('n'::[])) :: (('l'::('o'::('g'::('1'::('0'::[]))))) :: (('e'::('x'::('p'::('2'::[])))) :: (('e'::('x'::('p'::('m'::('1'::[]))))) :: (('i'::('l'::('o'::('g'::('b'::[]))))) :: (('l'::('o'::('g'::('1'::('p'::[]))))) :: (('l'::('o'::('g'::('2'::[])))) :: (('s'::('c'::('a'::('l'::('b'::('n'::[])))))) :: (('s'::('c'::('a'::('l'::('b'::('l'::('n'::[]))))))) :: (('p'::('o'::('w'::[]))) :: (('s'::('q'::('r'::('t'::[])))) :: (('c'::('b'::('r'::('t'::[])))) :: (('h'::('y'::('p'::('o'::('t'::[]))))) :: (('e'::('r'::('f'::[]))) :: (('e'::('r'::('f'::('c'::[])))) :: (('t'::('g'::('a'::('m'::('m'::('a'::[])))))) :: (('l'::('g'::('a'::('m'::('m'::('a'::[])))))) :: (('c'::('e'::('i'::('l'::[])))) :: (('f'::('l'::('o'::('o'::('r'::[]))))) :: (('f'::('m'::('o'::('d'::[])))) :: (('t'::('r'::('u'::('n'::('c'::[]))))) :: (('r'::('o'::('u'::('n'::('d'::[]))))) :: (('r'::('i'::('n'::('t'::[])))) :: (('n'::('e'::('a'::('r'::('b'::('y'::('i'::('n'::('t'::[]))))))))) :: (('r'::('e'::('m'::('a'::('i'::('n'::('d'::('e'::('r'::[]))))))))) :: (('r'::('e'::('m'::('q'::('u'::('o'::[])))))) :: (('c'::('o'::('p'::('y'::('s'::('i'::('g'::('n'::[])))))))) :: (('n'::('a'::('n'::[]))) :: (('n'::('e'::('x'::('t'::('a'::('f'::('t'::('e'::('r'::[]))))))))) :: (('n'::('e'::('x'::('t'::('t'::('o'::('w'::('a'::('r'::('d'::[])))))))))) :: (('f'::('d'::('i'::('m'::[])))) :: (('f'::('m'::('a'::('x'::[])))) :: (('f'::('m'::('i'::('n'::[])))) :: (('f'::('a'::('b'::('s'::[])))) :: (('a'::('b'::('s'::[]))) :: (('f'::('m'::('a'::[]))) :: [])))))))))))))))))))))))))))))))))))))))))))))))))))

(** val math_env : menv **)

let math_env =
  { e_rows = math_rows; e_module = module_names; e_builtins = builtin_names }

type chars = char list

(** val to_chars : char list -> chars **)

let to_chars =
  list_ascii_of_string

(** val of_chars : chars -> char list **)

let of_chars =
  string_of_list_ascii

(** val is_ws : char -> bool **)

let is_ws c =
  let n0 = nat_of_ascii c in
  (||)
    ((&&) (Nat.leb (S (S (S (S (S (S (S (S (S O))))))))) n0)
      (Nat.leb n0 (S (S (S (S (S (S (S (S (S (S (S (S (S O)))))))))))))))
    ((&&)
      (Nat.leb (S (S (S (S (S (S (S (S (S (S (S (S (S (S (S (S (S (S (S (S (S
        (S (S (S (S (S (S (S O)))))))))))))))))))))))))))) n0)
      (Nat.leb n0 (S (S (S (S (S (S (S (S (S (S (S (S (S (S (S (S (S (S (S (S
        (S (S (S (S (S (S (S (S (S (S (S (S O))))))))))))))))))))))))))))))))))

(** val is_star : char -> bool **)

let is_star c =
  (=) c '*'

(** val lstrip : chars -> chars **)

let rec lstrip l = match l with
| [] -> []
| c :: r -> if is_ws c then lstrip r else l

(** val strip_stars_rev : chars -> chars * nat **)

let rec strip_stars_rev l = match l with
| [] -> ([], O)
| c :: r ->
  if is_ws c
  then strip_stars_rev r
  else if is_star c
       then let (l', n0) = strip_stars_rev r in (l', (S n0))
       else (l, O)

(** val prefix_chars : chars -> chars -> bool **)

let rec prefix_chars p l =
  match p with
  | [] -> true
  | a :: p' ->
    (match l with
     | [] -> false
     | b :: l' -> (&&) ((=) a b) (prefix_chars p' l'))

(** val const_kw : chars **)

let const_kw =
  to_chars ('c'::('o'::('n'::('s'::('t'::(' '::[]))))))

type parsed = { p_name : char list; p_depth : nat; p_const : bool }

(** val parse_chars : chars -> (chars * nat) * bool **)

let parse_chars s =
  let (l', n0) = strip_stars_rev (rev s) in
  let core = lstrip (rev l') in
  if prefix_chars const_kw core
  then (((skipn (S (S (S (S (S (S O)))))) core), n0), true)
  else ((core, n0), false)

(** val parse_type : char list -> parsed **)

let parse_type s =
  let (p, c) = parse_chars (to_chars s) in
  let (nm, n0) = p in { p_name = (of_chars nm); p_depth = n0; p_const = c }

(** val stars : nat -> char list **)

let rec stars = function
| O -> []
| S k -> append ('*'::[]) (stars k)

(** val str_parsed : parsed -> char list **)

let str_parsed p =
  append p.p_name (stars p.p_depth)

type terminal = { t_type : char list; t_depth : nat; t_const : bool;
                  t_tree : char list option }

(** val mk_term : char list -> nat -> terminal **)

let mk_term n0 d =
  { t_type = n0; t_depth = d; t_const = false; t_tree = None }

(** val term_of_parsed : parsed -> terminal **)

let term_of_parsed p =
  { t_type = p.p_name; t_depth = p.p_depth; t_const = p.p_const; t_tree =
    None }

(** val str_terminal : terminal -> char list **)

let str_terminal t =
  append
    (if t.t_const then 'c'::('o'::('n'::('s'::('t'::(' '::[]))))) else [])
    (append t.t_type (stars t.t_depth))

(** val tree_type : terminal -> terminal **)

let tree_type t =
  match t.t_tree with
  | Some ty ->
    { t_type = ty; t_depth = t.t_depth; t_const = t.t_const; t_tree = None }
  | None -> t

type cpptype =
| TTerm of terminal
| TColl of terminal * terminal

(** val view : cpptype -> terminal **)

let view = function
| TTerm x -> x
| TColl (a, _) -> a

(** val is_coll : cpptype -> bool **)

let is_coll = function
| TTerm _ -> false
| TColl (_, _) -> true

(** val vector_of : terminal -> cpptype **)

let vector_of e =
  TColl
    ((mk_term
       (append
         ('s'::('t'::('d'::(':'::(':'::('v'::('e'::('c'::('t'::('o'::('r'::('<'::[]))))))))))))
         (append (str_terminal e) ('>'::[]))) O), e)

type minfo = { mi_type : cpptype; mi_deref : z }

type mkey = char list * char list

(** val mkey_eqb : mkey -> mkey -> bool **)

let mkey_eqb a b =
  (&&) (eqb0 (fst a) (fst b)) (eqb0 (snd a) (snd b))

type mreg = (mkey * minfo) list

(** val add_method : mreg -> char list -> char list -> minfo -> mreg **)

let add_method r ty m i =
  ((ty, m), i) :: r

(** val method_type_info : mreg -> char list -> char list -> minfo option **)

let rec method_type_info r ty m =
  match r with
  | [] -> None
  | p :: r' ->
    let (k, i) = p in
    if mkey_eqb k (ty, m) then Some i else method_type_info r' ty m

(** val is_dot : char -> bool **)

let is_dot c =
  (=) c '.'

(** val split_dot_aux : char list -> char list -> char list list **)

let rec split_dot_aux s cur =
  match s with
  | [] -> cur :: []
  | c::r ->
    if is_dot c
    then cur :: (split_dot_aux r [])
    else split_dot_aux r (append cur (c::[]))

(** val split_dot : char list -> char list list **)

let split_dot s =
  split_dot_aux s []

(** val replace_dot : char list -> char list **)

let rec replace_dot = function
| [] -> []
| c::r ->
  if is_dot c
  then append (':'::(':'::[])) (replace_dot r)
  else c::(replace_dot r)

type enum_def = { en_path : char list list; en_name : char list;
                  en_values : char list list }

type ereg = enum_def list

(** val is_prefix : char list list -> char list list -> bool **)

let rec is_prefix p l =
  match p with
  | [] -> true
  | a :: p' ->
    (match l with
     | [] -> false
     | b :: l' -> (&&) (eqb0 a b) (is_prefix p' l'))

(** val ns_exists : ereg -> char list list -> bool **)

let ns_exists r p = match p with
| [] -> false
| _ :: _ -> existsb (fun e -> is_prefix p e.en_path) r

(** val find_enum : ereg -> char list list -> char list -> enum_def option **)

let rec find_enum r p n0 =
  match r with
  | [] -> None
  | e :: r' ->
    if (&&) (list_str_eqb e.en_path p) (eqb0 e.en_name n0)
    then Some e
    else find_enum r' p n0

(** val define_enum :
    ereg -> char list -> char list -> char list list -> ereg **)

let define_enum r ns name vals =
  let p = split_dot ns in
  (match find_enum r p name with
   | Some _ -> r
   | None -> app r ({ en_path = p; en_name = name; en_values = vals } :: []))

(** val ns_full_name : char list list -> char list **)

let ns_full_name p =
  join_str ('.'::[]) p

(** val enum_full_name : enum_def -> char list **)

let enum_full_name e =
  append (ns_full_name e.en_path) (append ('.'::[]) e.en_name)

(** val value_as_cpp : enum_def -> char list -> char list **)

let value_as_cpp e v =
  replace_dot (append (ns_full_name e.en_path) (append (':'::(':'::[])) v))

type method_md = { md_type_string : char list option;
                   md_method_name : char list option;
                   md_return_type : char list option;
                   md_elem : char list option; md_coll : char list option;
                   md_tree : char list option; md_deref : z option }

type md_item =
| MdMethod of method_md
| MdEnum of char list * char list * char list list
| MdOther

type registry = { r_methods : mreg; r_enums : ereg }

(** val empty_registry : registry **)

let empty_registry =
  { r_methods = []; r_enums = [] }

(** val md_return : method_md -> cpptype result **)

let md_return m =
  match m.md_return_type with
  | Some rt ->
    let p = parse_type rt in
    OK (TTerm { t_type = p.p_name; t_depth = p.p_depth; t_const = false;
    t_tree = m.md_tree })
  | None ->
    (match m.md_elem with
     | Some el ->
       let pe = parse_type el in
       let pc =
         match m.md_coll with
         | Some c -> parse_type c
         | None ->
           { p_name =
             (append
               ('s'::('t'::('d'::(':'::(':'::('v'::('e'::('c'::('t'::('o'::('r'::('<'::[]))))))))))))
               (append (str_parsed pe) ('>'::[]))); p_depth = O; p_const =
             false }
       in
       OK (TColl ((term_of_parsed pc), (term_of_parsed pe)))
     | None -> Error ErrKey)

(** val md_method : mreg -> method_md -> mreg result **)

let md_method r m =
  bind (md_return m) (fun t ->
    let d = match m.md_deref with
            | Some z0 -> z0
            | None -> Z0 in
    (match m.md_type_string with
     | Some ty ->
       (match m.md_method_name with
        | Some nm -> OK (add_method r ty nm { mi_type = t; mi_deref = d })
        | None -> Error ErrKey)
     | None -> Error ErrKey))

(** val md_step : registry -> md_item -> registry result **)

let md_step r = function
| MdMethod m ->
  bind (md_method r.r_methods m) (fun ms -> OK { r_methods = ms; r_enums =
    r.r_enums })
| MdEnum (ns, n0, vs) ->
  OK { r_methods = r.r_methods; r_enums = (define_enum r.r_enums ns n0 vs) }
| MdOther -> OK r

(** val process_md : registry -> md_item list -> registry result **)

let rec process_md r = function
| [] -> OK r
| i :: l' -> bind (md_step r i) (fun r' -> process_md r' l')

(** val wrap_deref : nat -> char list -> char list **)

let rec wrap_deref n0 e =
  match n0 with
  | O -> e
  | S k -> wrap_deref k (append ('('::('*'::[])) (append e (')'::[])))

(** val member_access : char list -> nat -> z -> char list **)

let member_access e p_depth0 extra =
  let depth = Z.add extra (Z.of_nat p_depth0) in
  append (wrap_deref (Z.to_nat (Z.sub depth (Zpos XH))) e)
    (if Z.ltb Z0 depth then '-'::('>'::[]) else '.'::[])

(** val base_types : char list list **)

let base_types =
  ('d'::('o'::('u'::('b'::('l'::('e'::[])))))) :: (('f'::('l'::('o'::('a'::('t'::[]))))) :: (('i'::('n'::('t'::[]))) :: []))

(** val warn_text : char list -> char list -> char list **)

let warn_text ty m =
  append
    ('W'::('a'::('r'::('n'::('i'::('n'::('g'::(':'::(' '::('a'::('s'::('s'::('u'::('m'::('i'::('n'::('g'::(' '::('t'::('h'::('a'::('t'::(' '::('t'::('h'::('e'::(' '::('m'::('e'::('t'::('h'::('o'::('d'::(' '::('\''::[])))))))))))))))))))))))))))))))))))
    (append ty
      (append (':'::(':'::[]))
        (append m
          ('('::('.'::('.'::('.'::(')'::('\''::(' '::('h'::('a'::('s'::(' '::('r'::('e'::('t'::('u'::('r'::('n'::(' '::('t'::('y'::('p'::('e'::(' '::('\''::('d'::('o'::('u'::('b'::('l'::('e'::('\''::('.'::(' '::('U'::('s'::('e'::(' '::('c'::('p'::('p'::('_'::('t'::('y'::('p'::('e'::('s'::('.'::('a'::('d'::('d'::('_'::('m'::('e'::('t'::('h'::('o'::('d'::('_'::('t'::('y'::('p'::('e'::('_'::('i'::('n'::('f'::('o'::(' '::('t'::('o'::(' '::('s'::('u'::('p'::('p'::('r'::('e'::('s'::('s'::(' '::('('::('o'::('r'::(' '::('c'::('o'::('r'::('r'::('e'::('c'::('t'::(')'::(' '::('t'::('h'::('i'::('s'::(' '::('w'::('a'::('r'::('n'::('i'::('n'::('g'::('.'::[])))))))))))))))))))))))))))))))))))))))))))))))))))))))))))))))))))))))))))))))))))))))))))))))))))))))))))))

(** val determine_type_mf :
    mreg -> terminal -> char list -> (minfo * char list list) result **)

let determine_type_mf r parent m =
  match method_type_info r parent.t_type m with
  | Some i -> OK (i, [])
  | None ->
    if mem_str parent.t_type base_types
    then Error ErrTranslation
    else OK ({ mi_type = (TTerm
           (mk_term ('d'::('o'::('u'::('b'::('l'::('e'::[])))))) O));
           mi_deref = Z0 }, ((warn_text parent.t_type m) :: []))

type vkind =
| KValue
| KColl
| KEnumVal

type rep =
| RVal of char list * cpptype * vkind
| RNs of char list list
| REnum of enum_def

type arg =
| ALit of char list
| AName of char list * char list list

type step =
| SCall of char list * arg list
| SAttr of char list
| SIndex of char list

type 'a out = ('a * char list list) result

(** val do_attr : registry -> rep -> char list -> rep out **)

let do_attr g r a =
  match r with
  | RVal (e, t, k) ->
    (match k with
     | KValue ->
       bind (determine_type_mf g.r_methods (view t) a) (fun x ->
         let (i, w) = x in
         OK ((RVal ((append (member_access e (view t).t_depth i.mi_deref) a),
         i.mi_type, KValue)), w))
     | KColl ->
       bind (determine_type_mf g.r_methods (view t) a) (fun x ->
         let (i, w) = x in
         OK ((RVal ((append (member_access e (view t).t_depth i.mi_deref) a),
         i.mi_type, KValue)), w))
     | KEnumVal -> Error ErrValue)
  | RNs p ->
    if ns_exists g.r_enums (app p (a :: []))
    then OK ((RNs (app p (a :: []))), [])
    else (match find_enum g.r_enums p a with
          | Some d -> OK ((REnum d), [])
          | None -> Error ErrRuntime)
  | REnum d ->
    if mem_str a d.en_values
    then OK ((RVal ((value_as_cpp d a), (TTerm
           (mk_term (enum_full_name d) O)), KEnumVal)), [])
    else Error ErrRuntime

(** val do_attrs : registry -> rep -> char list list -> rep out **)

let rec do_attrs g r = function
| [] -> OK (r, [])
| a :: l' ->
  bind (do_attr g r a) (fun x ->
    let (r', w) = x in
    bind (do_attrs g r' l') (fun x0 ->
      let (r'', w') = x0 in OK (r'', (app w w'))))

(** val rep_as_cpp : rep -> char list result **)

let rep_as_cpp = function
| RVal (e, _, _) -> OK e
| _ -> Error ErrAttr

(** val do_arg : registry -> arg -> char list out **)

let do_arg g = function
| ALit s -> OK (s, [])
| AName (id, attrs) ->
  if ns_exists g.r_enums (id :: [])
  then bind (do_attrs g (RNs (id :: [])) attrs) (fun x ->
         let (r, w) = x in bind (rep_as_cpp r) (fun s -> OK (s, w)))
  else Error ErrRuntime

(** val do_args : registry -> arg list -> char list list out **)

let rec do_args g = function
| [] -> OK ([], [])
| a :: l' ->
  bind (do_arg g a) (fun x ->
    let (s, w) = x in
    bind (do_args g l') (fun x0 ->
      let (ss, w') = x0 in OK ((s :: ss), (app w w'))))

(** val do_call : registry -> rep -> char list -> arg list -> rep out **)

let do_call g r m args =
  match r with
  | RVal (e, t, _) ->
    bind (determine_type_mf g.r_methods (view t) m) (fun x ->
      let (i, w) = x in
      let stub = member_access e (view t).t_depth i.mi_deref in
      bind (do_args g args) (fun x0 ->
        let (ss, w') = x0 in
        OK ((RVal
        ((append stub
           (append m
             (append ('('::[]) (append (join_str (','::[]) ss) (')'::[]))))),
        i.mi_type, (if is_coll i.mi_type then KColl else KValue))),
        (app w w'))))
  | _ -> Error ErrValue

(** val do_index : rep -> char list -> rep out **)

let do_index r k =
  match r with
  | RVal (e, t, k0) ->
    (match t with
     | TTerm _ -> Error ErrRuntime
     | TColl (a, el) ->
       (match k0 with
        | KColl ->
          OK ((RVal
            ((append (member_access e a.t_depth Z0)
               (append ('a'::('t'::('('::[]))) (append k (')'::[])))), (TTerm
            el), KValue)), [])
        | _ -> Error ErrRuntime))
  | _ -> Error ErrAttr

(** val do_step : registry -> rep -> step -> rep out **)

let do_step g r = function
| SCall (m, args) -> do_call g r m args
| SAttr a -> do_attr g r a
| SIndex k -> do_index r k

(** val do_steps : registry -> rep -> step list -> rep out **)

let rec do_steps g r = function
| [] -> OK (r, [])
| s :: l' ->
  bind (do_step g r s) (fun x ->
    let (r', w) = x in
    bind (do_steps g r' l') (fun x0 ->
      let (r'', w') = x0 in OK (r'', (app w w'))))

(** val dereference_once : char list -> terminal -> char list **)

let dereference_once e t =
  match t.t_depth with
  | O -> e
  | S _ -> append ('*'::[]) e

(** val do_iter : rep -> char list -> (char list * rep) result **)

let do_iter r it =
  match r with
  | RVal (e, t, k) ->
    (match t with
     | TTerm _ -> Error ErrValue
     | TColl (a, el) ->
       (match k with
        | KColl ->
          OK
            ((append
               ('f'::('o'::('r'::(' '::('('::('a'::('u'::('t'::('o'::(' '::('&'::('&'::[]))))))))))))
               (append it
                 (append (' '::(':'::(' '::[])))
                   (append (dereference_once e a) (')'::[]))))), (RVal (it,
            (TTerm el), KValue)))
        | _ -> Error ErrValue))
  | _ -> Error ErrValue

type prog = { pg_levels : step list list; pg_last : step list;
              pg_vec : step list option }

type emitted = { em_loops : char list list; em_decl : char list;
                 em_stmt : char list; em_warn : char list list }

(** val it_name : nat -> char list **)

let it_name n0 =
  append ('i'::('t'::[])) (dec_nat n0)

(** val do_levels :
    registry -> rep -> nat -> step list list -> (((rep * nat) * char list
    list) * char list list) result **)

let rec do_levels g r n0 = function
| [] -> OK (((r, n0), []), [])
| l :: ls' ->
  bind (do_steps g r l) (fun x ->
    let (r1, w) = x in
    bind (do_iter r1 (it_name n0)) (fun x0 ->
      let (h, r2) = x0 in
      bind (do_levels g r2 (S n0) ls') (fun x1 ->
        let (p, w') = x1 in
        let (p0, hs) = p in
        let (r3, n') = p0 in OK (((r3, n'), (h :: hs)), (app w w')))))

(** val column_value : char list -> cpptype -> char list * char list **)

let column_value e t =
  let tr = tree_type (view t) in
  ((str_terminal tr),
  (if eqb0 tr.t_type (view t).t_type
   then append ('C'::('O'::('L'::(' '::('='::(' '::[]))))))
          (append e (';'::[]))
   else append
          ('C'::('O'::('L'::(' '::('='::(' '::('s'::('t'::('a'::('t'::('i'::('c'::('_'::('c'::('a'::('s'::('t'::('<'::[]))))))))))))))))))
          (append tr.t_type
            (append ('>'::('('::[])) (append e (')'::(';'::[])))))))

(** val column_vector : char list -> cpptype -> char list * char list **)

let column_vector e t =
  let tr = tree_type (view t) in
  ((str_terminal (view (vector_of tr))),
  (if eqb0 tr.t_type (view t).t_type
   then append
          ('C'::('O'::('L'::('.'::('p'::('u'::('s'::('h'::('_'::('b'::('a'::('c'::('k'::('('::[]))))))))))))))
          (append e (')'::(';'::[])))
   else append
          ('C'::('O'::('L'::('.'::('p'::('u'::('s'::('h'::('_'::('b'::('a'::('c'::('k'::('('::('s'::('t'::('a'::('t'::('i'::('c'::('_'::('c'::('a'::('s'::('t'::('<'::[]))))))))))))))))))))))))))
          (append tr.t_type
            (append ('>'::('('::[])) (append e (')'::(')'::(';'::[]))))))))

(** val translate : registry -> rep -> prog -> emitted result **)

let translate g root p =
  bind (do_levels g root O p.pg_levels) (fun x ->
    let (p0, w1) = x in
    let (p1, hs) = p0 in
    let (r1, n0) = p1 in
    bind (do_steps g r1 p.pg_last) (fun x0 ->
      let (r2, w2) = x0 in
      (match p.pg_vec with
       | Some inner ->
         bind (do_iter r2 (it_name n0)) (fun x1 ->
           let (h, r3) = x1 in
           bind (do_steps g r3 inner) (fun x2 ->
             let (r4, w3) = x2 in
             (match r4 with
              | RVal (e, t, _) ->
                let (d, s) = column_vector e t in
                OK { em_loops = (app hs (h :: [])); em_decl = d; em_stmt = s;
                em_warn = (app w1 (app w2 w3)) }
              | _ -> Error ErrAttr)))
       | None ->
         (match r2 with
          | RVal (e, t, _) ->
            let (d, s) = column_value e t in
            OK { em_loops = hs; em_decl = d; em_stmt = s; em_warn =
            (app w1 w2) }
          | _ -> Error ErrAttr))))

(** val run_query :
    md_item list -> char list -> char list -> nat -> prog -> emitted result **)

let run_query md root_e root_ty root_depth p =
  bind (process_md empty_registry md) (fun g ->
    translate g (RVal (root_e, (TTerm (mk_term root_ty root_depth)), KValue))
      p)

(** val s_parsed : parsed -> sexp **)

let s_parsed p =
  SList
    ((s_str p.p_name) :: ((s_nat p.p_depth) :: ((s_bool p.p_const) :: [])))

(** val run_parse : sexp -> sexp **)

let run_parse = function
| SAtom a -> s_parsed (parse_type a)
| SList _ -> bad_input

(** val run_access : sexp -> sexp **)

let run_access = function
| SAtom _ -> bad_input
| SList l ->
  (match l with
   | [] -> bad_input
   | s0 :: l0 ->
     (match s0 with
      | SAtom e ->
        (match l0 with
         | [] -> bad_input
         | d :: l1 ->
           (match l1 with
            | [] -> bad_input
            | x :: l2 ->
              (match l2 with
               | [] ->
                 (match d_nat d with
                  | Some d' ->
                    (match d_Z x with
                     | Some x' -> s_str (member_access e d' x')
                     | None -> bad_input)
                  | None -> bad_input)
               | _ :: _ -> bad_input)))
      | SList _ -> bad_input))

(** val d_opt : (sexp -> 'a1 option) -> sexp -> 'a1 option option **)

let d_opt d = function
| SAtom _ -> None
| SList l ->
  (match l with
   | [] -> Some None
   | x :: l0 ->
     (match l0 with
      | [] -> (match d x with
               | Some a -> Some (Some a)
               | None -> None)
      | _ :: _ -> None))

(** val s_opt : ('a1 -> sexp) -> 'a1 option -> sexp **)

let s_opt enc = function
| Some a -> SList ((enc a) :: [])
| None -> SList []

(** val s_terminal : terminal -> sexp **)

let s_terminal t =
  SList
    ((s_str t.t_type) :: ((s_nat t.t_depth) :: ((s_bool t.t_const) :: (
    (s_opt s_str t.t_tree) :: ((s_str (str_terminal t)) :: [])))))

(** val s_cpptype : cpptype -> sexp **)

let s_cpptype = function
| TTerm x -> s_tag ('t'::('e'::('r'::('m'::[])))) ((s_terminal x) :: [])
| TColl (a, e) ->
  s_tag ('c'::('o'::('l'::('l'::[]))))
    ((s_terminal a) :: ((s_terminal e) :: []))

(** val d_md : sexp -> md_item option **)

let d_md = function
| SAtom _ -> None
| SList l ->
  (match l with
   | [] -> None
   | s0 :: l0 ->
     (match s0 with
      | SAtom s1 ->
        (match s1 with
         | [] -> None
         | a::s2 ->
           (* If this appears, you're using Ascii internals. Please don't *)
 (fun f c ->
  let n = Char.code c in
  let h i = (n land (1 lsl i)) <> 0 in
  f (h 0) (h 1) (h 2) (h 3) (h 4) (h 5) (h 6) (h 7))
             (fun b b0 b1 b2 b3 b4 b5 b6 ->
             if b
             then if b0
                  then if b1
                       then if b2
                            then if b3
                                 then None
                                 else if b4
                                      then if b5
                                           then if b6
                                                then None
                                                else (match s2 with
                                                      | [] -> None
                                                      | a0::s3 ->
                                                        (* If this appears, you're using Ascii internals. Please don't *)
 (fun f c ->
  let n = Char.code c in
  let h i = (n land (1 lsl i)) <> 0 in
  f (h 0) (h 1) (h 2) (h 3) (h 4) (h 5) (h 6) (h 7))
                                                          (fun b7 b8 b9 b10 b11 b12 b13 b14 ->
                                                          if b7
                                                          then None
                                                          else if b8
                                                               then None
                                                               else if b9
                                                                    then 
                                                                    if b10
                                                                    then None
                                                                    else 
                                                                    if b11
                                                                    then 
                                                                    if b12
                                                                    then 
                                                                    if b13
                                                                    then 
                                                                    if b14
                                                                    then None
                                                                    else 
                                                                    (match s3 with
                                                                    | [] ->
                                                                    None
                                                                    | a1::s4 ->
                                                                    (* If this appears, you're using Ascii internals. Please don't *)
 (fun f c ->
  let n = Char.code c in
  let h i = (n land (1 lsl i)) <> 0 in
  f (h 0) (h 1) (h 2) (h 3) (h 4) (h 5) (h 6) (h 7))
                                                                    (fun b15 b16 b17 b18 b19 b20 b21 b22 ->
                                                                    if b15
                                                                    then None
                                                                    else 
                                                                    if b16
                                                                    then None
                                                                    else 
                                                                    if b17
                                                                    then None
                                                                    else 
                                                                    if b18
                                                                    then 
                                                                    if b19
                                                                    then None
                                                                    else 
                                                                    if b20
                                                                    then 
                                                                    if b21
                                                                    then 
                                                                    if b22
                                                                    then None
                                                                    else 
                                                                    (match s4 with
                                                                    | [] ->
                                                                    None
                                                                    | a2::s5 ->
                                                                    (* If this appears, you're using Ascii internals. Please don't *)
 (fun f c ->
  let n = Char.code c in
  let h i = (n land (1 lsl i)) <> 0 in
  f (h 0) (h 1) (h 2) (h 3) (h 4) (h 5) (h 6) (h 7))
                                                                    (fun b23 b24 b25 b26 b27 b28 b29 b30 ->
                                                                    if b23
                                                                    then 
                                                                    if b24
                                                                    then None
                                                                    else 
                                                                    if b25
                                                                    then 
                                                                    if b26
                                                                    then None
                                                                    else 
                                                                    if b27
                                                                    then None
                                                                    else 
                                                                    if b28
                                                                    then 
                                                                    if b29
                                                                    then 
                                                                    if b30
                                                                    then None
                                                                    else 
                                                                    (match s5 with
                                                                    | [] ->
                                                                    None
                                                                    | a3::s6 ->
                                                                    (* If this appears, you're using Ascii internals. Please don't *)
 (fun f c ->
  let n = Char.code c in
  let h i = (n land (1 lsl i)) <> 0 in
  f (h 0) (h 1) (h 2) (h 3) (h 4) (h 5) (h 6) (h 7))
                                                                    (fun b31 b32 b33 b34 b35 b36 b37 b38 ->
                                                                    if b31
                                                                    then None
                                                                    else 
                                                                    if b32
                                                                    then 
                                                                    if b33
                                                                    then None
                                                                    else 
                                                                    if b34
                                                                    then None
                                                                    else 
                                                                    if b35
                                                                    then 
                                                                    if b36
                                                                    then 
                                                                    if b37
                                                                    then 
                                                                    if b38
                                                                    then None
                                                                    else 
                                                                    (match s6 with
                                                                    | [] ->
                                                                    (match l0 with
                                                                    | [] ->
                                                                    Some
                                                                    MdOther
                                                                    | _ :: _ ->
                                                                    None)
                                                                    | _::_ ->
                                                                    None)
                                                                    else None
                                                                    else None
                                                                    else None
                                                                    else None)
                                                                    a3)
                                                                    else None
                                                                    else None
                                                                    else None
                                                                    else None)
                                                                    a2)
                                                                    else None
                                                                    else None
                                                                    else None)
                                                                    a1)
                                                                    else None
                                                                    else None
                                                                    else None
                                                                    else None)
                                                          a0)
                                           else None
                                      else None
                            else None
                       else None
                  else if b1
                       then if b2
                            then if b3
                                 then None
                                 else if b4
                                      then if b5
                                           then if b6
                                                then None
                                                else (match s2 with
                                                      | [] -> None
                                                      | a0::s3 ->
                                                        (* If this appears, you're using Ascii internals. Please don't *)
 (fun f c ->
  let n = Char.code c in
  let h i = (n land (1 lsl i)) <> 0 in
  f (h 0) (h 1) (h 2) (h 3) (h 4) (h 5) (h 6) (h 7))
                                                          (fun b7 b8 b9 b10 b11 b12 b13 b14 ->
                                                          if b7
                                                          then if b8
                                                               then None
                                                               else if b9
                                                                    then 
                                                                    if b10
                                                                    then None
                                                                    else 
                                                                    if b11
                                                                    then None
                                                                    else 
                                                                    if b12
                                                                    then 
                                                                    if b13
                                                                    then 
                                                                    if b14
                                                                    then None
                                                                    else 
                                                                    (match s3 with
                                                                    | [] ->
                                                                    None
                                                                    | a1::s4 ->
                                                                    (* If this appears, you're using Ascii internals. Please don't *)
 (fun f c ->
  let n = Char.code c in
  let h i = (n land (1 lsl i)) <> 0 in
  f (h 0) (h 1) (h 2) (h 3) (h 4) (h 5) (h 6) (h 7))
                                                                    (fun b15 b16 b17 b18 b19 b20 b21 b22 ->
                                                                    if b15
                                                                    then None
                                                                    else 
                                                                    if b16
                                                                    then None
                                                                    else 
                                                                    if b17
                                                                    then 
                                                                    if b18
                                                                    then None
                                                                    else 
                                                                    if b19
                                                                    then 
                                                                    if b20
                                                                    then 
                                                                    if b21
                                                                    then 
                                                                    if b22
                                                                    then None
                                                                    else 
                                                                    (match s4 with
                                                                    | [] ->
                                                                    None
                                                                    | a2::s5 ->
                                                                    (* If this appears, you're using Ascii internals. Please don't *)
 (fun f c ->
  let n = Char.code c in
  let h i = (n land (1 lsl i)) <> 0 in
  f (h 0) (h 1) (h 2) (h 3) (h 4) (h 5) (h 6) (h 7))
                                                                    (fun b23 b24 b25 b26 b27 b28 b29 b30 ->
                                                                    if b23
                                                                    then None
                                                                    else 
                                                                    if b24
                                                                    then None
                                                                    else 
                                                                    if b25
                                                                    then None
                                                                    else 
                                                                    if b26
                                                                    then 
                                                                    if b27
                                                                    then None
                                                                    else 
                                                                    if b28
                                                                    then 
                                                                    if b29
                                                                    then 
                                                                    if b30
                                                                    then None
                                                                    else 
                                                                    (match s5 with
                                                                    | [] ->
                                                                    None
                                                                    | a3::s6 ->
                                                                    (* If this appears, you're using Ascii internals. Please don't *)
 (fun f c ->
  let n = Char.code c in
  let h i = (n land (1 lsl i)) <> 0 in
  f (h 0) (h 1) (h 2) (h 3) (h 4) (h 5) (h 6) (h 7))
                                                                    (fun b31 b32 b33 b34 b35 b36 b37 b38 ->
                                                                    if b31
                                                                    then 
                                                                    if b32
                                                                    then 
                                                                    if b33
                                                                    then 
                                                                    if b34
                                                                    then 
                                                                    if b35
                                                                    then None
                                                                    else 
                                                                    if b36
                                                                    then 
                                                                    if b37
                                                                    then 
                                                                    if b38
                                                                    then None
                                                                    else 
                                                                    (match s6 with
                                                                    | [] ->
                                                                    None
                                                                    | a4::s7 ->
                                                                    (* If this appears, you're using Ascii internals. Please don't *)
 (fun f c ->
  let n = Char.code c in
  let h i = (n land (1 lsl i)) <> 0 in
  f (h 0) (h 1) (h 2) (h 3) (h 4) (h 5) (h 6) (h 7))
                                                                    (fun b39 b40 b41 b42 b43 b44 b45 b46 ->
                                                                    if b39
                                                                    then None
                                                                    else 
                                                                    if b40
                                                                    then None
                                                                    else 
                                                                    if b41
                                                                    then 
                                                                    if b42
                                                                    then None
                                                                    else 
                                                                    if b43
                                                                    then None
                                                                    else 
                                                                    if b44
                                                                    then 
                                                                    if b45
                                                                    then 
                                                                    if b46
                                                                    then None
                                                                    else 
                                                                    (match s7 with
                                                                    | [] ->
                                                                    (match l0 with
                                                                    | [] ->
                                                                    None
                                                                    | ts :: l1 ->
                                                                    (match l1 with
                                                                    | [] ->
                                                                    None
                                                                    | mn :: l2 ->
                                                                    (match l2 with
                                                                    | [] ->
                                                                    None
                                                                    | rt :: l3 ->
                                                                    (match l3 with
                                                                    | [] ->
                                                                    None
                                                                    | el :: l4 ->
                                                                    (match l4 with
                                                                    | [] ->
                                                                    None
                                                                    | co :: l5 ->
                                                                    (match l5 with
                                                                    | [] ->
                                                                    None
                                                                    | tr :: l6 ->
                                                                    (match l6 with
                                                                    | [] ->
                                                                    None
                                                                    | de :: l7 ->
                                                                    (match l7 with
                                                                    | [] ->
                                                                    (match 
                                                                    d_opt
                                                                    d_str ts with
                                                                    | Some ts' ->
                                                                    (match 
                                                                    d_opt
                                                                    d_str mn with
                                                                    | Some mn' ->
                                                                    (match 
                                                                    d_opt
                                                                    d_str rt with
                                                                    | Some rt' ->
                                                                    (match 
                                                                    d_opt
                                                                    d_str el with
                                                                    | Some el' ->
                                                                    (match 
                                                                    d_opt
                                                                    d_str co with
                                                                    | Some co' ->
                                                                    (match 
                                                                    d_opt
                                                                    d_str tr with
                                                                    | Some tr' ->
                                                                    (match 
                                                                    d_opt d_Z
                                                                    de with
                                                                    | Some de' ->
                                                                    Some
                                                                    (MdMethod
                                                                    { md_type_string =
                                                                    ts';
                                                                    md_method_name =
                                                                    mn';
                                                                    md_return_type =
                                                                    rt';
                                                                    md_elem =
                                                                    el';
                                                                    md_coll =
                                                                    co';
                                                                    md_tree =
                                                                    tr';
                                                                    md_deref =
                                                                    de' })
                                                                    | None ->
                                                                    None)
                                                                    | None ->
                                                                    None)
                                                                    | None ->
                                                                    None)
                                                                    | None ->
                                                                    None)
                                                                    | None ->
                                                                    None)
                                                                    | None ->
                                                                    None)
                                                                    | None ->
                                                                    None)
                                                                    | _ :: _ ->
                                                                    None))))))))
                                                                    | _::_ ->
                                                                    None)
                                                                    else None
                                                                    else None
                                                                    else None)
                                                                    a4)
                                                                    else None
                                                                    else None
                                                                    else None
                                                                    else None
                                                                    else None
                                                                    else None)
                                                                    a3)
                                                                    else None
                                                                    else None
                                                                    else None)
                                                                    a2)
                                                                    else None
                                                                    else None
                                                                    else None
                                                                    else None)
                                                                    a1)
                                                                    else None
                                                                    else None
                                                                    else None
                                                          else None)
                                                          a0)
                                           else None
                                      else None
                            else if b3
                                 then None
                                 else if b4
                                      then if b5
                                           then if b6
                                                then None
                                                else (match s2 with
                                                      | [] -> None
                                                      | a0::s3 ->
                                                        (* If this appears, you're using Ascii internals. Please don't *)
 (fun f c ->
  let n = Char.code c in
  let h i = (n land (1 lsl i)) <> 0 in
  f (h 0) (h 1) (h 2) (h 3) (h 4) (h 5) (h 6) (h 7))
                                                          (fun b7 b8 b9 b10 b11 b12 b13 b14 ->
                                                          if b7
                                                          then None
                                                          else if b8
                                                               then if b9
                                                                    then 
                                                                    if b10
                                                                    then 
                                                                    if b11
                                                                    then None
                                                                    else 
                                                                    if b12
                                                                    then 
                                                                    if b13
                                                                    then 
                                                                    if b14
                                                                    then None
                                                                    else 
                                                                    (match s3 with
                                                                    | [] ->
                                                                    None
                                                                    | a1::s4 ->
                                                                    (* If this appears, you're using Ascii internals. Please don't *)
 (fun f c ->
  let n = Char.code c in
  let h i = (n land (1 lsl i)) <> 0 in
  f (h 0) (h 1) (h 2) (h 3) (h 4) (h 5) (h 6) (h 7))
                                                                    (fun b15 b16 b17 b18 b19 b20 b21 b22 ->
                                                                    if b15
                                                                    then 
                                                                    if b16
                                                                    then None
                                                                    else 
                                                                    if b17
                                                                    then 
                                                                    if b18
                                                                    then None
                                                                    else 
                                                                    if b19
                                                                    then 
                                                                    if b20
                                                                    then 
                                                                    if b21
                                                                    then 
                                                                    if b22
                                                                    then None
                                                                    else 
                                                                    (match s4 with
                                                                    | [] ->
                                                                    None
                                                                    | a2::s5 ->
                                                                    (* If this appears, you're using Ascii internals. Please don't *)
 (fun f c ->
  let n = Char.code c in
  let h i = (n land (1 lsl i)) <> 0 in
  f (h 0) (h 1) (h 2) (h 3) (h 4) (h 5) (h 6) (h 7))
                                                                    (fun b23 b24 b25 b26 b27 b28 b29 b30 ->
                                                                    if b23
                                                                    then 
                                                                    if b24
                                                                    then None
                                                                    else 
                                                                    if b25
                                                                    then 
                                                                    if b26
                                                                    then 
                                                                    if b27
                                                                    then None
                                                                    else 
                                                                    if b28
                                                                    then 
                                                                    if b29
                                                                    then 
                                                                    if b30
                                                                    then None
                                                                    else 
                                                                    (match s5 with
                                                                    | [] ->
                                                                    (match l0 with
                                                                    | [] ->
                                                                    None
                                                                    | s6 :: l1 ->
                                                                    (match s6 with
                                                                    | SAtom ns ->
                                                                    (match l1 with
                                                                    | [] ->
                                                                    None
                                                                    | s7 :: l2 ->
                                                                    (match s7 with
                                                                    | SAtom n0 ->
                                                                    (match l2 with
                                                                    | [] ->
                                                                    None
                                                                    | vs :: l3 ->
                                                                    (match l3 with
                                                                    | [] ->
                                                                    (match 
                                                                    d_strs vs with
                                                                    | Some vs' ->
                                                                    Some
                                                                    (MdEnum
                                                                    (ns, n0,
                                                                    vs'))
                                                                    | None ->
                                                                    None)
                                                                    | _ :: _ ->
                                                                    None))
                                                                    | SList _ ->
                                                                    None))
                                                                    | SList _ ->
                                                                    None))
                                                                    | _::_ ->
                                                                    None)
                                                                    else None
                                                                    else None
                                                                    else None
                                                                    else None
                                                                    else None)
                                                                    a2)
                                                                    else None
                                                                    else None
                                                                    else None
                                                                    else None
                                                                    else None)
                                                                    a1)
                                                                    else None
                                                                    else None
                                                                    else None
                                                                    else None
                                                               else None)
                                                          a0)
                                           else None
                                      else None
                       else None
             else None)
             a)
      | SList _ -> None))

(** val d_mds : sexp -> md_item list option **)

let d_mds = function
| SAtom _ -> None
| SList l -> d_list d_md l

(** val run_lookup : sexp -> sexp **)

let run_lookup = function
| SAtom _ -> bad_input
| SList l ->
  (match l with
   | [] -> bad_input
   | mds :: l0 ->
     (match l0 with
      | [] -> bad_input
      | s0 :: l1 ->
        (match s0 with
         | SAtom ty ->
           (match l1 with
            | [] -> bad_input
            | s1 :: l2 ->
              (match s1 with
               | SAtom m ->
                 (match l2 with
                  | [] ->
                    (match d_mds mds with
                     | Some l3 ->
                       s_result (fun x -> SList
                         ((s_cpptype (fst x).mi_type) :: ((s_Z
                                                            (fst x).mi_deref) :: (
                         (s_strs (snd x)) :: []))))
                         (bind (process_md empty_registry l3) (fun g ->
                           determine_type_mf g.r_methods (mk_term ty O) m))
                     | None -> bad_input)
                  | _ :: _ -> bad_input)
               | SList _ -> bad_input))
         | SList _ -> bad_input)))

(** val run_enum : sexp -> sexp **)

let run_enum = function
| SAtom _ -> bad_input
| SList l ->
  (match l with
   | [] -> bad_input
   | mds :: l0 ->
     (match l0 with
      | [] -> bad_input
      | s0 :: l1 ->
        (match s0 with
         | SAtom id ->
           (match l1 with
            | [] -> bad_input
            | attrs :: l2 ->
              (match l2 with
               | [] ->
                 (match d_mds mds with
                  | Some l3 ->
                    (match d_strs attrs with
                     | Some al ->
                       s_result (fun x -> s_str (fst x))
                         (bind (process_md empty_registry l3) (fun g ->
                           do_arg g (AName (id, al))))
                     | None -> bad_input)
                  | None -> bad_input)
               | _ :: _ -> bad_input))
         | SList _ -> bad_input)))

(** val d_arg : sexp -> arg option **)

let d_arg = function
| SAtom _ -> None
| SList l ->
  (match l with
   | [] -> None
   | s0 :: l0 ->
     (match s0 with
      | SAtom s1 ->
        (match s1 with
         | [] -> None
         | a::s2 ->
           (* If this appears, you're using Ascii internals. Please don't *)
 (fun f c ->
  let n = Char.code c in
  let h i = (n land (1 lsl i)) <> 0 in
  f (h 0) (h 1) (h 2) (h 3) (h 4) (h 5) (h 6) (h 7))
             (fun b b0 b1 b2 b3 b4 b5 b6 ->
             if b
             then None
             else if b0
                  then if b1
                       then if b2
                            then if b3
                                 then None
                                 else if b4
                                      then if b5
                                           then if b6
                                                then None
                                                else (match s2 with
                                                      | [] -> None
                                                      | a0::s3 ->
                                                        (* If this appears, you're using Ascii internals. Please don't *)
 (fun f c ->
  let n = Char.code c in
  let h i = (n land (1 lsl i)) <> 0 in
  f (h 0) (h 1) (h 2) (h 3) (h 4) (h 5) (h 6) (h 7))
                                                          (fun b7 b8 b9 b10 b11 b12 b13 b14 ->
                                                          if b7
                                                          then if b8
                                                               then None
                                                               else if b9
                                                                    then None
                                                                    else 
                                                                    if b10
                                                                    then None
                                                                    else 
                                                                    if b11
                                                                    then None
                                                                    else 
                                                                    if b12
                                                                    then 
                                                                    if b13
                                                                    then 
                                                                    if b14
                                                                    then None
                                                                    else 
                                                                    (match s3 with
                                                                    | [] ->
                                                                    None
                                                                    | a1::s4 ->
                                                                    (* If this appears, you're using Ascii internals. Please don't *)
 (fun f c ->
  let n = Char.code c in
  let h i = (n land (1 lsl i)) <> 0 in
  f (h 0) (h 1) (h 2) (h 3) (h 4) (h 5) (h 6) (h 7))
                                                                    (fun b15 b16 b17 b18 b19 b20 b21 b22 ->
                                                                    if b15
                                                                    then 
                                                                    if b16
                                                                    then None
                                                                    else 
                                                                    if b17
                                                                    then 
                                                                    if b18
                                                                    then 
                                                                    if b19
                                                                    then None
                                                                    else 
                                                                    if b20
                                                                    then 
                                                                    if b21
                                                                    then 
                                                                    if b22
                                                                    then None
                                                                    else 
                                                                    (match s4 with
                                                                    | [] ->
                                                                    None
                                                                    | a2::s5 ->
                                                                    (* If this appears, you're using Ascii internals. Please don't *)
 (fun f c ->
  let n = Char.code c in
  let h i = (n land (1 lsl i)) <> 0 in
  f (h 0) (h 1) (h 2) (h 3) (h 4) (h 5) (h 6) (h 7))
                                                                    (fun b23 b24 b25 b26 b27 b28 b29 b30 ->
                                                                    if b23
                                                                    then 
                                                                    if b24
                                                                    then None
                                                                    else 
                                                                    if b25
                                                                    then 
                                                                    if b26
                                                                    then None
                                                                    else 
                                                                    if b27
                                                                    then None
                                                                    else 
                                                                    if b28
                                                                    then 
                                                                    if b29
                                                                    then 
                                                                    if b30
                                                                    then None
                                                                    else 
                                                                    (match s5 with
                                                                    | [] ->
                                                                    (match l0 with
                                                                    | [] ->
                                                                    None
                                                                    | s6 :: l1 ->
                                                                    (match s6 with
                                                                    | SAtom id ->
                                                                    (match l1 with
                                                                    | [] ->
                                                                    None
                                                                    | attrs :: l2 ->
                                                                    (match l2 with
                                                                    | [] ->
                                                                    option_map
                                                                    (fun x ->
                                                                    AName
                                                                    (id, x))
                                                                    (d_strs
                                                                    attrs)
                                                                    | _ :: _ ->
                                                                    None))
                                                                    | SList _ ->
                                                                    None))
                                                                    | _::_ ->
                                                                    None)
                                                                    else None
                                                                    else None
                                                                    else None
                                                                    else None)
                                                                    a2)
                                                                    else None
                                                                    else None
                                                                    else None
                                                                    else None
                                                                    else None)
                                                                    a1)
                                                                    else None
                                                                    else None
                                                          else None)
                                                          a0)
                                           else None
                                      else None
                            else None
                       else None
                  else if b1
                       then if b2
                            then if b3
                                 then None
                                 else if b4
                                      then if b5
                                           then if b6
                                                then None
                                                else (match s2 with
                                                      | [] -> None
                                                      | a0::s3 ->
                                                        (* If this appears, you're using Ascii internals. Please don't *)
 (fun f c ->
  let n = Char.code c in
  let h i = (n land (1 lsl i)) <> 0 in
  f (h 0) (h 1) (h 2) (h 3) (h 4) (h 5) (h 6) (h 7))
                                                          (fun b7 b8 b9 b10 b11 b12 b13 b14 ->
                                                          if b7
                                                          then if b8
                                                               then None
                                                               else if b9
                                                                    then None
                                                                    else 
                                                                    if b10
                                                                    then 
                                                                    if b11
                                                                    then None
                                                                    else 
                                                                    if b12
                                                                    then 
                                                                    if b13
                                                                    then 
                                                                    if b14
                                                                    then None
                                                                    else 
                                                                    (match s3 with
                                                                    | [] ->
                                                                    None
                                                                    | a1::s4 ->
                                                                    (* If this appears, you're using Ascii internals. Please don't *)
 (fun f c ->
  let n = Char.code c in
  let h i = (n land (1 lsl i)) <> 0 in
  f (h 0) (h 1) (h 2) (h 3) (h 4) (h 5) (h 6) (h 7))
                                                                    (fun b15 b16 b17 b18 b19 b20 b21 b22 ->
                                                                    if b15
                                                                    then None
                                                                    else 
                                                                    if b16
                                                                    then None
                                                                    else 
                                                                    if b17
                                                                    then 
                                                                    if b18
                                                                    then None
                                                                    else 
                                                                    if b19
                                                                    then 
                                                                    if b20
                                                                    then 
                                                                    if b21
                                                                    then 
                                                                    if b22
                                                                    then None
                                                                    else 
                                                                    (match s4 with
                                                                    | [] ->
                                                                    (match l0 with
                                                                    | [] ->
                                                                    None
                                                                    | s5 :: l1 ->
                                                                    (match s5 with
                                                                    | SAtom x ->
                                                                    (match l1 with
                                                                    | [] ->
                                                                    Some
                                                                    (ALit x)
                                                                    | _ :: _ ->
                                                                    None)
                                                                    | SList _ ->
                                                                    None))
                                                                    | _::_ ->
                                                                    None)
                                                                    else None
                                                                    else None
                                                                    else None
                                                                    else None)
                                                                    a1)
                                                                    else None
                                                                    else None
                                                                    else None
                                                          else None)
                                                          a0)
                                           else None
                                      else None
                            else None
                       else None)
             a)
      | SList _ -> None))

(** val d_step : sexp -> step option **)

let d_step = function
| SAtom _ -> None
| SList l ->
  (match l with
   | [] -> None
   | s0 :: l0 ->
     (match s0 with
      | SAtom s1 ->
        (match s1 with
         | [] -> None
         | a0::s2 ->
           (* If this appears, you're using Ascii internals. Please don't *)
 (fun f c ->
  let n = Char.code c in
  let h i = (n land (1 lsl i)) <> 0 in
  f (h 0) (h 1) (h 2) (h 3) (h 4) (h 5) (h 6) (h 7))
             (fun b b0 b1 b2 b3 b4 b5 b6 ->
             if b
             then if b0
                  then if b1
                       then None
                       else if b2
                            then None
                            else if b3
                                 then None
                                 else if b4
                                      then if b5
                                           then if b6
                                                then None
                                                else (match s2 with
                                                      | [] -> None
                                                      | a::s3 ->
                                                        (* If this appears, you're using Ascii internals. Please don't *)
 (fun f c ->
  let n = Char.code c in
  let h i = (n land (1 lsl i)) <> 0 in
  f (h 0) (h 1) (h 2) (h 3) (h 4) (h 5) (h 6) (h 7))
                                                          (fun b7 b8 b9 b10 b11 b12 b13 b14 ->
                                                          if b7
                                                          then if b8
                                                               then None
                                                               else if b9
                                                                    then None
                                                                    else 
                                                                    if b10
                                                                    then None
                                                                    else 
                                                                    if b11
                                                                    then None
                                                                    else 
                                                                    if b12
                                                                    then 
                                                                    if b13
                                                                    then 
                                                                    if b14
                                                                    then None
                                                                    else 
                                                                    (match s3 with
                                                                    | [] ->
                                                                    None
                                                                    | a1::s4 ->
                                                                    (* If this appears, you're using Ascii internals. Please don't *)
 (fun f c ->
  let n = Char.code c in
  let h i = (n land (1 lsl i)) <> 0 in
  f (h 0) (h 1) (h 2) (h 3) (h 4) (h 5) (h 6) (h 7))
                                                                    (fun b15 b16 b17 b18 b19 b20 b21 b22 ->
                                                                    if b15
                                                                    then None
                                                                    else 
                                                                    if b16
                                                                    then None
                                                                    else 
                                                                    if b17
                                                                    then 
                                                                    if b18
                                                                    then 
                                                                    if b19
                                                                    then None
                                                                    else 
                                                                    if b20
                                                                    then 
                                                                    if b21
                                                                    then 
                                                                    if b22
                                                                    then None
                                                                    else 
                                                                    (match s4 with
                                                                    | [] ->
                                                                    None
                                                                    | a2::s5 ->
                                                                    (* If this appears, you're using Ascii internals. Please don't *)
 (fun f c ->
  let n = Char.code c in
  let h i = (n land (1 lsl i)) <> 0 in
  f (h 0) (h 1) (h 2) (h 3) (h 4) (h 5) (h 6) (h 7))
                                                                    (fun b23 b24 b25 b26 b27 b28 b29 b30 ->
                                                                    if b23
                                                                    then None
                                                                    else 
                                                                    if b24
                                                                    then None
                                                                    else 
                                                                    if b25
                                                                    then 
                                                                    if b26
                                                                    then 
                                                                    if b27
                                                                    then None
                                                                    else 
                                                                    if b28
                                                                    then 
                                                                    if b29
                                                                    then 
                                                                    if b30
                                                                    then None
                                                                    else 
                                                                    (match s5 with
                                                                    | [] ->
                                                                    (match l0 with
                                                                    | [] ->
                                                                    None
                                                                    | s6 :: l1 ->
                                                                    (match s6 with
                                                                    | SAtom m ->
                                                                    (match l1 with
                                                                    | [] ->
                                                                    None
                                                                    | s7 :: l2 ->
                                                                    (match s7 with
                                                                    | SAtom _ ->
                                                                    None
                                                                    | SList args ->
                                                                    (match l2 with
                                                                    | [] ->
                                                                    option_map
                                                                    (fun x ->
                                                                    SCall (m,
                                                                    x))
                                                                    (d_list
                                                                    d_arg
                                                                    args)
                                                                    | _ :: _ ->
                                                                    None)))
                                                                    | SList _ ->
                                                                    None))
                                                                    | _::_ ->
                                                                    None)
                                                                    else None
                                                                    else None
                                                                    else None
                                                                    else None)
                                                                    a2)
                                                                    else None
                                                                    else None
                                                                    else None
                                                                    else None)
                                                                    a1)
                                                                    else None
                                                                    else None
                                                          else None)
                                                          a)
                                           else None
                                      else None
                  else if b1
                       then None
                       else if b2
                            then if b3
                                 then None
                                 else if b4
                                      then if b5
                                           then if b6
                                                then None
                                                else (match s2 with
                                                      | [] -> None
                                                      | a::s3 ->
                                                        (* If this appears, you're using Ascii internals. Please don't *)
 (fun f c ->
  let n = Char.code c in
  let h i = (n land (1 lsl i)) <> 0 in
  f (h 0) (h 1) (h 2) (h 3) (h 4) (h 5) (h 6) (h 7))
                                                          (fun b7 b8 b9 b10 b11 b12 b13 b14 ->
                                                          if b7
                                                          then None
                                                          else if b8
                                                               then if b9
                                                                    then 
                                                                    if b10
                                                                    then 
                                                                    if b11
                                                                    then None
                                                                    else 
                                                                    if b12
                                                                    then 
                                                                    if b13
                                                                    then 
                                                                    if b14
                                                                    then None
                                                                    else 
                                                                    (match s3 with
                                                                    | [] ->
                                                                    None
                                                                    | a1::s4 ->
                                                                    (* If this appears, you're using Ascii internals. Please don't *)
 (fun f c ->
  let n = Char.code c in
  let h i = (n land (1 lsl i)) <> 0 in
  f (h 0) (h 1) (h 2) (h 3) (h 4) (h 5) (h 6) (h 7))
                                                                    (fun b15 b16 b17 b18 b19 b20 b21 b22 ->
                                                                    if b15
                                                                    then None
                                                                    else 
                                                                    if b16
                                                                    then None
                                                                    else 
                                                                    if b17
                                                                    then 
                                                                    if b18
                                                                    then None
                                                                    else 
                                                                    if b19
                                                                    then None
                                                                    else 
                                                                    if b20
                                                                    then 
                                                                    if b21
                                                                    then 
                                                                    if b22
                                                                    then None
                                                                    else 
                                                                    (match s4 with
                                                                    | [] ->
                                                                    None
                                                                    | a2::s5 ->
                                                                    (* If this appears, you're using Ascii internals. Please don't *)
 (fun f c ->
  let n = Char.code c in
  let h i = (n land (1 lsl i)) <> 0 in
  f (h 0) (h 1) (h 2) (h 3) (h 4) (h 5) (h 6) (h 7))
                                                                    (fun b23 b24 b25 b26 b27 b28 b29 b30 ->
                                                                    if b23
                                                                    then 
                                                                    if b24
                                                                    then None
                                                                    else 
                                                                    if b25
                                                                    then 
                                                                    if b26
                                                                    then None
                                                                    else 
                                                                    if b27
                                                                    then None
                                                                    else 
                                                                    if b28
                                                                    then 
                                                                    if b29
                                                                    then 
                                                                    if b30
                                                                    then None
                                                                    else 
                                                                    (match s5 with
                                                                    | [] ->
                                                                    None
                                                                    | a3::s6 ->
                                                                    (* If this appears, you're using Ascii internals. Please don't *)
 (fun f c ->
  let n = Char.code c in
  let h i = (n land (1 lsl i)) <> 0 in
  f (h 0) (h 1) (h 2) (h 3) (h 4) (h 5) (h 6) (h 7))
                                                                    (fun b31 b32 b33 b34 b35 b36 b37 b38 ->
                                                                    if b31
                                                                    then None
                                                                    else 
                                                                    if b32
                                                                    then None
                                                                    else 
                                                                    if b33
                                                                    then None
                                                                    else 
                                                                    if b34
                                                                    then 
                                                                    if b35
                                                                    then 
                                                                    if b36
                                                                    then 
                                                                    if b37
                                                                    then 
                                                                    if b38
                                                                    then None
                                                                    else 
                                                                    (match s6 with
                                                                    | [] ->
                                                                    (match l0 with
                                                                    | [] ->
                                                                    None
                                                                    | s7 :: l1 ->
                                                                    (match s7 with
                                                                    | SAtom k ->
                                                                    (match l1 with
                                                                    | [] ->
                                                                    Some
                                                                    (SIndex k)
                                                                    | _ :: _ ->
                                                                    None)
                                                                    | SList _ ->
                                                                    None))
                                                                    | _::_ ->
                                                                    None)
                                                                    else None
                                                                    else None
                                                                    else None
                                                                    else None)
                                                                    a3)
                                                                    else None
                                                                    else None
                                                                    else None
                                                                    else None)
                                                                    a2)
                                                                    else None
                                                                    else None
                                                                    else None)
                                                                    a1)
                                                                    else None
                                                                    else None
                                                                    else None
                                                                    else None
                                                               else None)
                                                          a)
                                           else None
                                      else None
                            else if b3
                                 then None
                                 else if b4
                                      then if b5
                                           then if b6
                                                then None
                                                else (match s2 with
                                                      | [] -> None
                                                      | a1::s3 ->
                                                        (* If this appears, you're using Ascii internals. Please don't *)
 (fun f c ->
  let n = Char.code c in
  let h i = (n land (1 lsl i)) <> 0 in
  f (h 0) (h 1) (h 2) (h 3) (h 4) (h 5) (h 6) (h 7))
                                                          (fun b7 b8 b9 b10 b11 b12 b13 b14 ->
                                                          if b7
                                                          then None
                                                          else if b8
                                                               then None
                                                               else if b9
                                                                    then 
                                                                    if b10
                                                                    then None
                                                                    else 
                                                                    if b11
                                                                    then 
                                                                    if b12
                                                                    then 
                                                                    if b13
                                                                    then 
                                                                    if b14
                                                                    then None
                                                                    else 
                                                                    (match s3 with
                                                                    | [] ->
                                                                    None
                                                                    | a2::s4 ->
                                                                    (* If this appears, you're using Ascii internals. Please don't *)
 (fun f c ->
  let n = Char.code c in
  let h i = (n land (1 lsl i)) <> 0 in
  f (h 0) (h 1) (h 2) (h 3) (h 4) (h 5) (h 6) (h 7))
                                                                    (fun b15 b16 b17 b18 b19 b20 b21 b22 ->
                                                                    if b15
                                                                    then None
                                                                    else 
                                                                    if b16
                                                                    then None
                                                                    else 
                                                                    if b17
                                                                    then 
                                                                    if b18
                                                                    then None
                                                                    else 
                                                                    if b19
                                                                    then 
                                                                    if b20
                                                                    then 
                                                                    if b21
                                                                    then 
                                                                    if b22
                                                                    then None
                                                                    else 
                                                                    (match s4 with
                                                                    | [] ->
                                                                    None
                                                                    | a3::s5 ->
                                                                    (* If this appears, you're using Ascii internals. Please don't *)
 (fun f c ->
  let n = Char.code c in
  let h i = (n land (1 lsl i)) <> 0 in
  f (h 0) (h 1) (h 2) (h 3) (h 4) (h 5) (h 6) (h 7))
                                                                    (fun b23 b24 b25 b26 b27 b28 b29 b30 ->
                                                                    if b23
                                                                    then None
                                                                    else 
                                                                    if b24
                                                                    then 
                                                                    if b25
                                                                    then None
                                                                    else 
                                                                    if b26
                                                                    then None
                                                                    else 
                                                                    if b27
                                                                    then 
                                                                    if b28
                                                                    then 
                                                                    if b29
                                                                    then 
                                                                    if b30
                                                                    then None
                                                                    else 
                                                                    (match s5 with
                                                                    | [] ->
                                                                    (match l0 with
                                                                    | [] ->
                                                                    None
                                                                    | s6 :: l1 ->
                                                                    (match s6 with
                                                                    | SAtom a ->
                                                                    (match l1 with
                                                                    | [] ->
                                                                    Some
                                                                    (SAttr a)
                                                                    | _ :: _ ->
                                                                    None)
                                                                    | SList _ ->
                                                                    None))
                                                                    | _::_ ->
                                                                    None)
                                                                    else None
                                                                    else None
                                                                    else None
                                                                    else None)
                                                                    a3)
                                                                    else None
                                                                    else None
                                                                    else None
                                                                    else None)
                                                                    a2)
                                                                    else None
                                                                    else None
                                                                    else None
                                                                    else None)
                                                          a1)
                                           else None
                                      else None
             else None)
             a0)
      | SList _ -> None))

(** val d_steps : sexp -> step list option **)

let d_steps = function
| SAtom _ -> None
| SList l -> d_list d_step l

(** val d_prog : sexp -> prog option **)

let d_prog = function
| SAtom _ -> None
| SList l ->
  (match l with
   | [] -> None
   | s0 :: l0 ->
     (match s0 with
      | SAtom _ -> None
      | SList levels ->
        (match l0 with
         | [] -> None
         | last :: l1 ->
           (match l1 with
            | [] -> None
            | vec :: l2 ->
              (match l2 with
               | [] ->
                 (match d_list d_steps levels with
                  | Some ls ->
                    (match d_steps last with
                     | Some la ->
                       (match d_opt d_steps vec with
                        | Some v ->
                          Some { pg_levels = ls; pg_last = la; pg_vec = v }
                        | None -> None)
                     | None -> None)
                  | None -> None)
               | _ :: _ -> None)))))

(** val s_emitted : emitted -> sexp **)

let s_emitted e =
  SList
    ((s_strs e.em_loops) :: ((s_str e.em_decl) :: ((s_str e.em_stmt) :: (
    (s_strs e.em_warn) :: []))))

(** val run_translate : sexp -> sexp **)

let run_translate = function
| SAtom _ -> bad_input
| SList l ->
  (match l with
   | [] -> bad_input
   | mds :: l0 ->
     (match l0 with
      | [] -> bad_input
      | s0 :: l1 ->
        (match s0 with
         | SAtom re ->
           (match l1 with
            | [] -> bad_input
            | s1 :: l2 ->
              (match s1 with
               | SAtom rt ->
                 (match l2 with
                  | [] -> bad_input
                  | rd :: l3 ->
                    (match l3 with
                     | [] -> bad_input
                     | pg :: l4 ->
                       (match l4 with
                        | [] ->
                          (match d_mds mds with
                           | Some l5 ->
                             (match d_nat rd with
                              | Some d ->
                                (match d_prog pg with
                                 | Some p ->
                                   s_result s_emitted (run_query l5 re rt d p)
                                 | None -> bad_input)
                              | None -> bad_input)
                           | None -> bad_input)
                        | _ :: _ -> bad_input)))
               | SList _ -> bad_input))
         | SList _ -> bad_input)))

(** val dispatch : char list -> sexp -> sexp **)

let dispatch cmd arg0 =
  if eqb0 cmd ('c'::('1'::('5'::('.'::('g'::('e'::('n'::[])))))))
  then run_gen arg0
  else if eqb0 cmd
            ('c'::('1'::('2'::('.'::('a'::('u'::('d'::('i'::('t'::[])))))))))
       then audit math_env documented
       else if eqb0 cmd
                 ('c'::('1'::('0'::('.'::('p'::('a'::('r'::('s'::('e'::[])))))))))
            then run_parse arg0
            else if eqb0 cmd
                      ('c'::('1'::('0'::('.'::('a'::('c'::('c'::('e'::('s'::('s'::[]))))))))))
                 then run_access arg0
                 else if eqb0 cmd
                           ('c'::('1'::('0'::('.'::('l'::('o'::('o'::('k'::('u'::('p'::[]))))))))))
                      then run_lookup arg0
                      else if eqb0 cmd
                                ('c'::('1'::('0'::('.'::('e'::('n'::('u'::('m'::[]))))))))
                           then run_enum arg0
                           else if eqb0 cmd
                                     ('c'::('1'::('0'::('.'::('t'::('r'::('a'::('n'::('s'::('l'::('a'::('t'::('e'::[])))))))))))))
                                then run_translate arg0
                                else s_tag
                                       ('u'::('n'::('k'::('n'::('o'::('w'::('n'::('-'::('c'::('o'::('m'::('m'::('a'::('n'::('d'::[])))))))))))))))
                                       ((SAtom cmd) :: [])
