
(** val negb : bool -> bool **)

let negb = function
| true -> false
| false -> true

type nat =
| O
| S of nat

(** val fst : ('a1 * 'a2) -> 'a1 **)

let fst = function
| (x, _) -> x

(** val snd : ('a1 * 'a2) -> 'a2 **)

let snd = function
| (_, y) -> y

(** val length : 'a1 list -> nat **)

let rec length = function
| [] -> O
| _ :: l' -> S (length l')

(** val app : 'a1 list -> 'a1 list -> 'a1 list **)

let rec app l m =
  match l with
  | [] -> m
  | a :: l1 -> a :: (app l1 m)

type comparison =
| Eq
| Lt
| Gt

(** val add : nat -> nat -> nat **)

let rec add n0 m =
  match n0 with
  | O -> m
  | S p -> S (add p m)

type positive =
| XI of positive
| XO of positive
| XH

type n =
| N0
| Npos of positive

module Nat =
 struct
  (** val leb : nat -> nat -> bool **)

  let rec leb n0 m =
    match n0 with
    | O -> true
    | S n' -> (match m with
               | O -> false
               | S m' -> leb n' m')

  (** val ltb : nat -> nat -> bool **)

  let ltb n0 m =
    leb (S n0) m
 end

module Pos =
 struct
  type mask =
  | IsNul
  | IsPos of positive
  | IsNeg
 end

module Coq_Pos =
 struct
  (** val succ : positive -> positive **)

  let rec succ = function
  | XI p -> XO (succ p)
  | XO p -> XI p
  | XH -> XO XH

  (** val pred_double : positive -> positive **)

  let rec pred_double = function
  | XI p -> XI (XO p)
  | XO p -> XI (pred_double p)
  | XH -> XH

  type mask = Pos.mask =
  | IsNul
  | IsPos of positive
  | IsNeg

  (** val succ_double_mask : mask -> mask **)

  let succ_double_mask = function
  | IsNul -> IsPos XH
  | IsPos p -> IsPos (XI p)
  | IsNeg -> IsNeg

  (** val double_mask : mask -> mask **)

  let double_mask = function
  | IsPos p -> IsPos (XO p)
  | x0 -> x0

  (** val double_pred_mask : positive -> mask **)

  let double_pred_mask = function
  | XI p -> IsPos (XO (XO p))
  | XO p -> IsPos (XO (pred_double p))
  | XH -> IsNul

  (** val sub_mask : positive -> positive -> mask **)

  let rec sub_mask x y =
    match x with
    | XI p ->
      (match y with
       | XI q -> double_mask (sub_mask p q)
       | XO q -> succ_double_mask (sub_mask p q)
       | XH -> IsPos (XO p))
    | XO p ->
      (match y with
       | XI q -> succ_double_mask (sub_mask_carry p q)
       | XO q -> double_mask (sub_mask p q)
       | XH -> IsPos (pred_double p))
    | XH -> (match y with
             | XH -> IsNul
             | _ -> IsNeg)

  (** val sub_mask_carry : positive -> positive -> mask **)

  and sub_mask_carry x y =
    match x with
    | XI p ->
      (match y with
       | XI q -> succ_double_mask (sub_mask_carry p q)
       | XO q -> double_mask (sub_mask p q)
       | XH -> IsPos (pred_double p))
    | XO p ->
      (match y with
       | XI q -> double_mask (sub_mask_carry p q)
       | XO q -> succ_double_mask (sub_mask_carry p q)
       | XH -> double_pred_mask p)
    | XH -> IsNeg

  (** val size : positive -> positive **)

  let rec size = function
  | XI p0 -> succ (size p0)
  | XO p0 -> succ (size p0)
  | XH -> XH

  (** val compare_cont : comparison -> positive -> positive -> comparison **)

  let rec compare_cont r x y =
    match x with
    | XI p ->
      (match y with
       | XI q -> compare_cont r p q
       | XO q -> compare_cont Gt p q
       | XH -> Gt)
    | XO p ->
      (match y with
       | XI q -> compare_cont Lt p q
       | XO q -> compare_cont r p q
       | XH -> Gt)
    | XH -> (match y with
             | XH -> r
             | _ -> Lt)

  (** val compare : positive -> positive -> comparison **)

  let compare =
    compare_cont Eq

  (** val eqb : positive -> positive -> bool **)

  let rec eqb p q =
    match p with
    | XI p0 -> (match q with
                | XI q0 -> eqb p0 q0
                | _ -> false)
    | XO p0 -> (match q with
                | XO q0 -> eqb p0 q0
                | _ -> false)
    | XH -> (match q with
             | XH -> true
             | _ -> false)

  (** val iter_op : ('a1 -> 'a1 -> 'a1) -> positive -> 'a1 -> 'a1 **)

  let rec iter_op op p a =
    match p with
    | XI p0 -> op a (iter_op op p0 (op a a))
    | XO p0 -> iter_op op p0 (op a a)
    | XH -> a

  (** val to_nat : positive -> nat **)

  let to_nat x =
    iter_op add x (S O)

  (** val of_succ_nat : nat -> positive **)

  let rec of_succ_nat = function
  | O -> XH
  | S x -> succ (of_succ_nat x)
 end

module N =
 struct
  (** val succ_double : n -> n **)

  let succ_double = function
  | N0 -> Npos XH
  | Npos p -> Npos (XI p)

  (** val double : n -> n **)

  let double = function
  | N0 -> N0
  | Npos p -> Npos (XO p)

  (** val sub : n -> n -> n **)

  let sub n0 m =
    match n0 with
    | N0 -> N0
    | Npos n' ->
      (match m with
       | N0 -> n0
       | Npos m' ->
         (match Coq_Pos.sub_mask n' m' with
          | Coq_Pos.IsPos p -> Npos p
          | _ -> N0))

  (** val compare : n -> n -> comparison **)

  let compare n0 m =
    match n0 with
    | N0 -> (match m with
             | N0 -> Eq
             | Npos _ -> Lt)
    | Npos n' -> (match m with
                  | N0 -> Gt
                  | Npos m' -> Coq_Pos.compare n' m')

  (** val eqb : n -> n -> bool **)

  let eqb n0 m =
    match n0 with
    | N0 -> (match m with
             | N0 -> true
             | Npos _ -> false)
    | Npos p -> (match m with
                 | N0 -> false
                 | Npos q -> Coq_Pos.eqb p q)

  (** val leb : n -> n -> bool **)

  let leb x y =
    match compare x y with
    | Gt -> false
    | _ -> true

  (** val size : n -> n **)

  let size = function
  | N0 -> N0
  | Npos p -> Npos (Coq_Pos.size p)

  (** val pos_div_eucl : positive -> n -> n * n **)

  let rec pos_div_eucl a b =
    match a with
    | XI a' ->
      let (q, r) = pos_div_eucl a' b in
      let r' = succ_double r in
      if leb b r' then ((succ_double q), (sub r' b)) else ((double q), r')
    | XO a' ->
      let (q, r) = pos_div_eucl a' b in
      let r' = double r in
      if leb b r' then ((succ_double q), (sub r' b)) else ((double q), r')
    | XH ->
      (match b with
       | N0 -> (N0, (Npos XH))
       | Npos p -> (match p with
                    | XH -> ((Npos XH), N0)
                    | _ -> (N0, (Npos XH))))

  (** val div_eucl : n -> n -> n * n **)

  let div_eucl a b =
    match a with
    | N0 -> (N0, N0)
    | Npos na -> (match b with
                  | N0 -> (N0, a)
                  | Npos _ -> pos_div_eucl na b)

  (** val div : n -> n -> n **)

  let div a b =
    fst (div_eucl a b)

  (** val modulo : n -> n -> n **)

  let modulo a b =
    snd (div_eucl a b)

  (** val to_nat : n -> nat **)

  let to_nat = function
  | N0 -> O
  | Npos p -> Coq_Pos.to_nat p

  (** val of_nat : nat -> n **)

  let of_nat = function
  | O -> N0
  | S n' -> Npos (Coq_Pos.of_succ_nat n')
 end

(** val zero : char **)

let zero = '\000'

(** val one : char **)

let one = '\001'

(** val shift : bool -> char -> char **)

let shift = fun b c -> Char.chr (((Char.code c) lsl 1) land 255 + if b then 1 else 0)

(** val ascii_of_pos : positive -> char **)

let ascii_of_pos =
  let rec loop n0 p =
    match n0 with
    | O -> zero
    | S n' ->
      (match p with
       | XI p' -> shift true (loop n' p')
       | XO p' -> shift false (loop n' p')
       | XH -> one)
  in loop (S (S (S (S (S (S (S (S O))))))))

(** val ascii_of_N : n -> char **)

let ascii_of_N = function
| N0 -> zero
| Npos p -> ascii_of_pos p

(** val ascii_of_nat : nat -> char **)

let ascii_of_nat a =
  ascii_of_N (N.of_nat a)

(** val map : ('a1 -> 'a2) -> 'a1 list -> 'a2 list **)

let rec map f = function
| [] -> []
| a :: t -> (f a) :: (map f t)

(** val forallb : ('a1 -> bool) -> 'a1 list -> bool **)

let rec forallb f = function
| [] -> true
| a :: l0 -> (&&) (f a) (forallb f l0)

(** val eqb0 : char list -> char list -> bool **)

let rec eqb0 s1 s2 =
  match s1 with
  | [] -> (match s2 with
           | [] -> true
           | _::_ -> false)
  | c1::s1' ->
    (match s2 with
     | [] -> false
     | c2::s2' -> if (=) c1 c2 then eqb0 s1' s2' else false)

(** val append : char list -> char list -> char list **)

let rec append s1 s2 =
  match s1 with
  | [] -> s2
  | c::s1' -> c::(append s1' s2)

type err =
| ErrValue
| ErrRuntime
| ErrAssert
| ErrNotImpl
| ErrKey
| ErrType
| ErrAttr
| ErrIndex
| ErrTranslation
| ErrOutOfFuel
| ErrOther of char list

type 'a result =
| OK of 'a
| Error of err

(** val err_name : err -> char list **)

let err_name = function
| ErrValue ->
  'V'::('a'::('l'::('u'::('e'::('E'::('r'::('r'::('o'::('r'::[])))))))))
| ErrRuntime ->
  'R'::('u'::('n'::('t'::('i'::('m'::('e'::('E'::('r'::('r'::('o'::('r'::[])))))))))))
| ErrAssert ->
  'A'::('s'::('s'::('e'::('r'::('t'::('i'::('o'::('n'::('E'::('r'::('r'::('o'::('r'::[])))))))))))))
| ErrNotImpl ->
  'N'::('o'::('t'::('I'::('m'::('p'::('l'::('e'::('m'::('e'::('n'::('t'::('e'::('d'::('E'::('r'::('r'::('o'::('r'::[]))))))))))))))))))
| ErrKey -> 'K'::('e'::('y'::('E'::('r'::('r'::('o'::('r'::[])))))))
| ErrType -> 'T'::('y'::('p'::('e'::('E'::('r'::('r'::('o'::('r'::[]))))))))
| ErrAttr ->
  'A'::('t'::('t'::('r'::('i'::('b'::('u'::('t'::('e'::('E'::('r'::('r'::('o'::('r'::[])))))))))))))
| ErrIndex ->
  'I'::('n'::('d'::('e'::('x'::('E'::('r'::('r'::('o'::('r'::[])))))))))
| ErrTranslation ->
  'x'::('A'::('O'::('D'::('T'::('r'::('a'::('n'::('s'::('l'::('a'::('t'::('i'::('o'::('n'::('E'::('r'::('r'::('o'::('r'::[])))))))))))))))))))
| ErrOutOfFuel ->
  'O'::('u'::('t'::('O'::('f'::('F'::('u'::('e'::('l'::[]))))))))
| ErrOther t -> t

(** val mem_str : char list -> char list list -> bool **)

let rec mem_str x = function
| [] -> false
| y :: r -> if eqb0 x y then true else mem_str x r

(** val list_str_eqb : char list list -> char list list -> bool **)

let rec list_str_eqb a b =
  match a with
  | [] -> (match b with
           | [] -> true
           | _ :: _ -> false)
  | x :: a' ->
    (match b with
     | [] -> false
     | y :: b' -> (&&) (eqb0 x y) (list_str_eqb a' b'))

(** val digit_char : nat -> char **)

let digit_char n0 =
  ascii_of_nat
    (add (S (S (S (S (S (S (S (S (S (S (S (S (S (S (S (S (S (S (S (S (S (S (S
      (S (S (S (S (S (S (S (S (S (S (S (S (S (S (S (S (S (S (S (S (S (S (S (S
      (S O)))))))))))))))))))))))))))))))))))))))))))))))) n0)

(** val dec_N_fuel : nat -> n -> char list -> char list **)

let rec dec_N_fuel fuel n0 acc =
  match fuel with
  | O -> acc
  | S f ->
    let d = N.to_nat (N.modulo n0 (Npos (XO (XI (XO XH))))) in
    let acc' = (digit_char d)::acc in
    if N.eqb (N.div n0 (Npos (XO (XI (XO XH))))) N0
    then acc'
    else dec_N_fuel f (N.div n0 (Npos (XO (XI (XO XH))))) acc'

(** val dec_N : n -> char list **)

let dec_N n0 =
  dec_N_fuel (S (N.to_nat (N.size n0))) n0 []

(** val dec_nat : nat -> char list **)

let dec_nat n0 =
  dec_N (N.of_nat n0)

type sexp =
| SAtom of char list
| SList of sexp list

(** val s_strs : char list list -> sexp **)

let s_strs l =
  SList (map (fun x -> SAtom x) l)

(** val s_nat : nat -> sexp **)

let s_nat n0 =
  SAtom (dec_nat n0)

(** val s_bool : bool -> sexp **)

let s_bool b =
  SAtom
    (if b
     then 't'::('r'::('u'::('e'::[])))
     else 'f'::('a'::('l'::('s'::('e'::[])))))

(** val s_tag : char list -> sexp list -> sexp **)

let s_tag t l =
  SList ((SAtom t) :: l)

(** val s_err : err -> sexp **)

let s_err e =
  s_tag ('e'::('r'::('r'::('o'::('r'::[]))))) ((SAtom (err_name e)) :: [])

(** val s_result : ('a1 -> sexp) -> 'a1 result -> sexp **)

let s_result enc = function
| OK a -> s_tag ('o'::('k'::[])) ((enc a) :: [])
| Error e -> s_err e

(** val d_str : sexp -> char list option **)

let d_str = function
| SAtom a -> Some a
| SList _ -> None

(** val d_list : (sexp -> 'a1 option) -> sexp list -> 'a1 list option **)

let rec d_list d = function
| [] -> Some []
| x :: r ->
  (match d x with
   | Some a ->
     (match d_list d r with
      | Some r' -> Some (a :: r')
      | None -> None)
   | None -> None)

(** val d_strs : sexp -> char list list option **)

let d_strs = function
| SAtom _ -> None
| SList l -> d_list d_str l

(** val bad_input : sexp **)

let bad_input =
  s_tag ('b'::('a'::('d'::('-'::('i'::('n'::('p'::('u'::('t'::[]))))))))) []

type jblock = { jb_name : char list; jb_script : char list list;
                jb_deps : char list list }

type entry = char list * (char list list * char list list)

type table = entry list

(** val tget :
    char list -> table -> (char list list * char list list) option **)

let rec tget n0 = function
| [] -> None
| e :: r -> let (k, v) = e in if eqb0 n0 k then Some v else tget n0 r

(** val textend : char list -> char list list -> table -> table **)

let rec textend n0 ds = function
| [] -> []
| e :: r ->
  let (k, p) = e in
  let (s, d) = p in
  if eqb0 n0 k
  then (k, (s, (app d ds))) :: r
  else (k, (s, d)) :: (textend n0 ds r)

(** val step1 : table -> jblock -> table result **)

let step1 t b =
  match tget b.jb_name t with
  | Some p ->
    let (s0, _) = p in
    if list_str_eqb b.jb_script s0
    then OK (textend b.jb_name b.jb_deps t)
    else Error ErrValue
  | None -> OK (app t ((b.jb_name, (b.jb_script, b.jb_deps)) :: []))

(** val phase1 : jblock list -> table -> table result **)

let rec phase1 bs t =
  match bs with
  | [] -> OK t
  | b :: r -> (match step1 t b with
               | OK t' -> phase1 r t'
               | Error e -> Error e)

(** val has_key : char list -> table -> bool **)

let has_key n0 t =
  match tget n0 t with
  | Some _ -> true
  | None -> false

(** val deps_present : table -> bool **)

let deps_present t =
  forallb (fun e -> forallb (fun d -> has_key d t) (snd (snd e))) t

(** val one_pass :
    table -> char list list -> char list list -> bool -> (char list
    list * char list list) * bool **)

let rec one_pass rest seen out emitted =
  match rest with
  | [] -> ((seen, out), emitted)
  | e :: r ->
    let (n0, p) = e in
    let (scr, ds) = p in
    if (&&) (negb (mem_str n0 seen)) (forallb (fun d -> mem_str d seen) ds)
    then one_pass r (app seen (n0 :: [])) (app out scr) true
    else one_pass r seen out emitted

(** val emit_loop :
    nat -> table -> char list list -> char list list -> char list list result **)

let rec emit_loop fuel t seen out =
  if Nat.ltb (length seen) (length t)
  then (match fuel with
        | O -> Error ErrOutOfFuel
        | S f ->
          let (p, b) = one_pass t seen out false in
          let (seen', out') = p in
          if b then emit_loop f t seen' out' else Error ErrValue)
  else OK out

(** val gen : jblock list -> char list list result **)

let gen bs =
  match phase1 bs [] with
  | OK t ->
    if deps_present t
    then emit_loop (S (length t)) t [] []
    else Error ErrValue
  | Error e -> Error e

(** val d_jblock : sexp -> jblock option **)

let d_jblock = function
| SAtom _ -> None
| SList l ->
  (match l with
   | [] -> None
   | s0 :: l0 ->
     (match s0 with
      | SAtom n0 ->
        (match l0 with
         | [] -> None
         | sc :: l1 ->
           (match l1 with
            | [] -> None
            | dp :: l2 ->
              (match l2 with
               | [] ->
                 (match d_strs sc with
                  | Some sc' ->
                    (match d_strs dp with
                     | Some dp' ->
                       Some { jb_name = n0; jb_script = sc'; jb_deps = dp' }
                     | None -> None)
                  | None -> None)
               | _ :: _ -> None)))
      | SList _ -> None))

(** val run_gen : sexp -> sexp **)

let run_gen = function
| SAtom _ -> bad_input
| SList l ->
  (match d_list d_jblock l with
   | Some bs -> s_result s_strs (gen bs)
   | None -> bad_input)

type mrow = { m_py : char list; m_cpp : char list; m_inc : char list list;
              m_ret : char list }

type menv = { e_rows : mrow list; e_module : char list list;
              e_builtins : (char list * char list) list }

(** val lookup_row : char list -> mrow list -> mrow option **)

let rec lookup_row k = function
| [] -> None
| r :: rest ->
  (match lookup_row k rest with
   | Some r' -> Some r'
   | None -> if eqb0 k r.m_py then Some r else None)

(** val assoc :
    char list -> (char list * char list) list -> char list option **)

let rec assoc k = function
| [] -> None
| p :: r -> let (a, b) = p in if eqb0 k a then Some b else assoc k r

type resolution =
| RName of char list
| RCrash

(** val resolve : menv -> char list -> resolution **)

let resolve e n0 =
  if mem_str n0 e.e_module
  then RCrash
  else (match assoc n0 e.e_builtins with
        | Some m ->
          (match m with
           | [] -> RName (append m (append ('.'::[]) n0))
           | a::s ->
             (* If this appears, you're using Ascii internals. Please don't *)
 (fun f c ->
  let n = Char.code c in
  let h i = (n land (1 lsl i)) <> 0 in
  f (h 0) (h 1) (h 2) (h 3) (h 4) (h 5) (h 6) (h 7))
               (fun b b0 b1 b2 b3 b4 b5 b6 ->
               if b
               then if b0
                    then RName (append m (append ('.'::[]) n0))
                    else if b1
                         then if b2
                              then if b3
                                   then RName (append m (append ('.'::[]) n0))
                                   else if b4
                                        then if b5
                                             then RName
                                                    (append m
                                                      (append ('.'::[]) n0))
                                             else if b6
                                                  then RName
                                                         (append m
                                                           (append ('.'::[])
                                                             n0))
                                                  else (match s with
                                                        | [] -> RCrash
                                                        | _::_ ->
                                                          RName
                                                            (append m
                                                              (append
                                                                ('.'::[]) n0)))
                                        else RName
                                               (append m
                                                 (append ('.'::[]) n0))
                              else RName (append m (append ('.'::[]) n0))
                         else RName (append m (append ('.'::[]) n0))
               else RName (append m (append ('.'::[]) n0)))
               a)
        | None -> RName n0)

(** val find_row : menv -> char list -> mrow option **)

let find_row e n0 =
  match resolve e n0 with
  | RName q -> lookup_row q e.e_rows
  | RCrash -> None

(** val acceptable : char list -> char list -> bool **)

let acceptable n0 cpp =
  (||)
    ((||) (eqb0 cpp (append ('s'::('t'::('d'::(':'::(':'::[]))))) n0))
      ((&&) (eqb0 n0 ('l'::('n'::[])))
        (eqb0 cpp ('s'::('t'::('d'::(':'::(':'::('l'::('o'::('g'::[])))))))))))
    ((&&) (eqb0 n0 ('a'::('b'::('s'::[]))))
      ((||)
        (eqb0 cpp
          ('s'::('t'::('d'::(':'::(':'::('f'::('a'::('b'::('s'::[]))))))))))
        (eqb0 cpp ('s'::('t'::('d'::(':'::(':'::('a'::('b'::('s'::[])))))))))))

(** val cmath_sig : (char list * (nat * bool)) list **)

let cmath_sig =
  (('s'::('i'::('n'::[]))), ((S O), false)) :: ((('c'::('o'::('s'::[]))), ((S
    O), false)) :: ((('t'::('a'::('n'::[]))), ((S O),
    false)) :: ((('a'::('c'::('o'::('s'::[])))), ((S O),
    false)) :: ((('a'::('s'::('i'::('n'::[])))), ((S O),
    false)) :: ((('a'::('t'::('a'::('n'::[])))), ((S O),
    false)) :: ((('a'::('t'::('a'::('n'::('2'::[]))))), ((S (S O)),
    false)) :: ((('s'::('i'::('n'::('h'::[])))), ((S O),
    false)) :: ((('c'::('o'::('s'::('h'::[])))), ((S O),
    false)) :: ((('t'::('a'::('n'::('h'::[])))), ((S O),
    false)) :: ((('a'::('s'::('i'::('n'::('h'::[]))))), ((S O),
    false)) :: ((('a'::('c'::('o'::('s'::('h'::[]))))), ((S O),
    false)) :: ((('a'::('t'::('a'::('n'::('h'::[]))))), ((S O),
    false)) :: ((('e'::('x'::('p'::[]))), ((S O),
    false)) :: ((('l'::('d'::('e'::('x'::('p'::[]))))), ((S (S O)),
    false)) :: ((('l'::('o'::('g'::[]))), ((S O),
    false)) :: ((('l'::('n'::[])), ((S O),
    false)) :: ((('l'::('o'::('g'::('1'::('0'::[]))))), ((S O),
    false)) :: ((('e'::('x'::('p'::('2'::[])))), ((S O),
    false)) :: ((('e'::('x'::('p'::('m'::('1'::[]))))), ((S O),
    false)) :: ((('i'::('l'::('o'::('g'::('b'::[]))))), ((S O),
    false)) :: ((('l'::('o'::('g'::('1'::('p'::[]))))), ((S O),
    false)) :: ((('l'::('o'::('g'::('2'::[])))), ((S O),
    false)) :: ((('s'::('c'::('a'::('l'::('b'::('n'::[])))))), ((S (S O)),
    false)) :: ((('s'::('c'::('a'::('l'::('b'::('l'::('n'::[]))))))), ((S (S
    O)), false)) :: ((('p'::('o'::('w'::[]))), ((S (S O)),
    false)) :: ((('s'::('q'::('r'::('t'::[])))), ((S O),
    false)) :: ((('c'::('b'::('r'::('t'::[])))), ((S O),
    false)) :: ((('h'::('y'::('p'::('o'::('t'::[]))))), ((S (S O)),
    false)) :: ((('e'::('r'::('f'::[]))), ((S O),
    false)) :: ((('e'::('r'::('f'::('c'::[])))), ((S O),
    false)) :: ((('t'::('g'::('a'::('m'::('m'::('a'::[])))))), ((S O),
    false)) :: ((('l'::('g'::('a'::('m'::('m'::('a'::[])))))), ((S O),
    false)) :: ((('c'::('e'::('i'::('l'::[])))), ((S O),
    false)) :: ((('f'::('l'::('o'::('o'::('r'::[]))))), ((S O),
    false)) :: ((('f'::('m'::('o'::('d'::[])))), ((S (S O)),
    false)) :: ((('t'::('r'::('u'::('n'::('c'::[]))))), ((S O),
    false)) :: ((('r'::('o'::('u'::('n'::('d'::[]))))), ((S O),
    false)) :: ((('r'::('i'::('n'::('t'::[])))), ((S O),
    false)) :: ((('n'::('e'::('a'::('r'::('b'::('y'::('i'::('n'::('t'::[]))))))))),
    ((S O),
    false)) :: ((('r'::('e'::('m'::('a'::('i'::('n'::('d'::('e'::('r'::[]))))))))),
    ((S (S O)), false)) :: ((('r'::('e'::('m'::('q'::('u'::('o'::[])))))),
    ((S (S (S O))),
    true)) :: ((('c'::('o'::('p'::('y'::('s'::('i'::('g'::('n'::[])))))))),
    ((S (S O)), false)) :: ((('n'::('a'::('n'::[]))), ((S O),
    false)) :: ((('n'::('e'::('x'::('t'::('a'::('f'::('t'::('e'::('r'::[]))))))))),
    ((S (S O)),
    false)) :: ((('n'::('e'::('x'::('t'::('t'::('o'::('w'::('a'::('r'::('d'::[])))))))))),
    ((S (S O)), false)) :: ((('f'::('d'::('i'::('m'::[])))), ((S (S O)),
    false)) :: ((('f'::('m'::('a'::('x'::[])))), ((S (S O)),
    false)) :: ((('f'::('m'::('i'::('n'::[])))), ((S (S O)),
    false)) :: ((('f'::('a'::('b'::('s'::[])))), ((S O),
    false)) :: ((('a'::('b'::('s'::[]))), ((S O),
    false)) :: ((('f'::('m'::('a'::[]))), ((S (S (S O))),
    false)) :: [])))))))))))))))))))))))))))))))))))))))))))))))))))

(** val sig_of :
    char list -> (char list * (nat * bool)) list -> (nat * bool) option **)

let rec sig_of n0 = function
| [] -> None
| p :: r -> let (a, b) = p in if eqb0 n0 a then Some b else sig_of n0 r

(** val callable_from_query : char list -> bool **)

let callable_from_query n0 =
  match sig_of n0 cmath_sig with
  | Some p -> let (_, b) = p in if b then false else true
  | None -> false

(** val doc_ok : menv -> char list -> bool **)

let doc_ok e n0 =
  match find_row e n0 with
  | Some r ->
    (&&)
      ((&&)
        ((&&) (acceptable n0 r.m_cpp)
          (mem_str ('c'::('m'::('a'::('t'::('h'::[]))))) r.m_inc))
        (eqb0 r.m_ret ('d'::('o'::('u'::('b'::('l'::('e'::[]))))))))
      (callable_from_query n0)
  | None -> false

(** val s_row : mrow -> sexp **)

let s_row r =
  SList ((SAtom r.m_py) :: ((SAtom r.m_cpp) :: ((s_strs r.m_inc) :: ((SAtom
    r.m_ret) :: []))))

(** val audit : menv -> char list list -> sexp **)

let audit e doc =
  SList
    (map (fun n0 -> SList ((SAtom
      n0) :: ((match resolve e n0 with
               | RName q -> SAtom q
               | RCrash ->
                 SAtom ('<'::('c'::('r'::('a'::('s'::('h'::('>'::[])))))))) :: ((
      match find_row e n0 with
      | Some r -> s_row r
      | None -> SList []) :: ((s_bool (doc_ok e n0)) :: ((match sig_of n0
                                                                  cmath_sig with
                                                          | Some p0 ->
                                                            let (k, p) = p0 in
                                                            SList
                                                            ((s_nat k) :: (
                                                            (s_bool p) :: []))
                                                          | None -> SList []) :: []))))))
      doc)

(** val math_rows : mrow list **)

let math_rows =
  []

(** val module_names : char list list **)

let module_names =
  []

(** val builtin_names : (char list * char list) list **)

let builtin_names =
  []

(** val documented : char list list **)

let documented =
  []

(** val math_env : menv **)

let math_env =
  { e_rows = math_rows; e_module = module_names; e_builtins = builtin_names }

(** val dispatch : char list -> sexp -> sexp **)

let dispatch cmd arg =
  if eqb0 cmd ('c'::('1'::('5'::('.'::('g'::('e'::('n'::[])))))))
  then run_gen arg
  else if eqb0 cmd
            ('c'::('1'::('2'::('.'::('a'::('u'::('d'::('i'::('t'::[])))))))))
       then audit math_env documented
       else s_tag
              ('u'::('n'::('k'::('n'::('o'::('w'::('n'::('-'::('c'::('o'::('m'::('m'::('a'::('n'::('d'::[])))))))))))))))
              ((SAtom cmd) :: [])
