
(** val negb : bool -> bool **)

let negb = function
| true -> false
| false -> true

type nat =
| O
| S of nat

(** val option_map : ('a1 -> 'a2) -> 'a1 option -> 'a2 option **)

let option_map f = function
| Some a -> Some (f a)
| None -> None

(** val fst : ('a1 * 'a2) -> 'a1 **)

let fst = function
| (x, _) -> x

(** val snd : ('a1 * 'a2) -> 'a2 **)

let snd = function
| (_, y) -> y

(** val length : 'a1 list -> nat **)

let rec length = function
| [] -> O
| _ :: l' -> S (length l')

(** val app : 'a1 list -> 'a1 list -> 'a1 list **)

let rec app l m =
  match l with
  | [] -> m
  | a :: l1 -> a :: (app l1 m)

type comparison =
| Eq
| Lt
| Gt

(** val add : nat -> nat -> nat **)

let rec add n0 m =
  match n0 with
  | O -> m
  | S p -> S (add p m)

type positive =
| XI of positive
| XO of positive
| XH

type n =
| N0
| Npos of positive

module Nat =
 struct
  (** val leb : nat -> nat -> bool **)

  let rec leb n0 m =
    match n0 with
    | O -> true
    | S n' -> (match m with
               | O -> false
               | S m' -> leb n' m')

  (** val ltb : nat -> nat -> bool **)

  let ltb n0 m =
    leb (S n0) m
 end

module Pos =
 struct
  type mask =
  | IsNul
  | IsPos of positive
  | IsNeg
 end

module Coq_Pos =
 struct
  (** val succ : positive -> positive **)

  let rec succ = function
  | XI p -> XO (succ p)
  | XO p -> XI p
  | XH -> XO XH

  (** val pred_double : positive -> positive **)

  let rec pred_double = function
  | XI p -> XI (XO p)
  | XO p -> XI (pred_double p)
  | XH -> XH

  type mask = Pos.mask =
  | IsNul
  | IsPos of positive
  | IsNeg

  (** val succ_double_mask : mask -> mask **)

  let succ_double_mask = function
  | IsNul -> IsPos XH
  | IsPos p -> IsPos (XI p)
  | IsNeg -> IsNeg

  (** val double_mask : mask -> mask **)

  let double_mask = function
  | IsPos p -> IsPos (XO p)
  | x0 -> x0

  (** val double_pred_mask : positive -> mask **)

  let double_pred_mask = function
  | XI p -> IsPos (XO (XO p))
  | XO p -> IsPos (XO (pred_double p))
  | XH -> IsNul

  (** val sub_mask : positive -> positive -> mask **)

  let rec sub_mask x y =
    match x with
    | XI p ->
      (match y with
       | XI q -> double_mask (sub_mask p q)
       | XO q -> succ_double_mask (sub_mask p q)
       | XH -> IsPos (XO p))
    | XO p ->
      (match y with
       | XI q -> succ_double_mask (sub_mask_carry p q)
       | XO q -> double_mask (sub_mask p q)
       | XH -> IsPos (pred_double p))
    | XH -> (match y with
             | XH -> IsNul
             | _ -> IsNeg)

  (** val sub_mask_carry : positive -> positive -> mask **)

  and sub_mask_carry x y =
    match x with
    | XI p ->
      (match y with
       | XI q -> succ_double_mask (sub_mask_carry p q)
       | XO q -> double_mask (sub_mask p q)
       | XH -> IsPos (pred_double p))
    | XO p ->
      (match y with
       | XI q -> double_mask (sub_mask_carry p q)
       | XO q -> succ_double_mask (sub_mask_carry p q)
       | XH -> double_pred_mask p)
    | XH -> IsNeg

  (** val size : positive -> positive **)

  let rec size = function
  | XI p0 -> succ (size p0)
  | XO p0 -> succ (size p0)
  | XH -> XH

  (** val compare_cont : comparison -> positive -> positive -> comparison **)

  let rec compare_cont r x y =
    match x with
    | XI p ->
      (match y with
       | XI q -> compare_cont r p q
       | XO q -> compare_cont Gt p q
       | XH -> Gt)
    | XO p ->
      (match y with
       | XI q -> compare_cont Lt p q
       | XO q -> compare_cont r p q
       | XH -> Gt)
    | XH -> (match y with
             | XH -> r
             | _ -> Lt)

  (** val compare : positive -> positive -> comparison **)

  let compare =
    compare_cont Eq

  (** val eqb : positive -> positive -> bool **)

  let rec eqb p q =
    match p with
    | XI p0 -> (match q with
                | XI q0 -> eqb p0 q0
                | _ -> false)
    | XO p0 -> (match q with
                | XO q0 -> eqb p0 q0
                | _ -> false)
    | XH -> (match q with
             | XH -> true
             | _ -> false)

  (** val iter_op : ('a1 -> 'a1 -> 'a1) -> positive -> 'a1 -> 'a1 **)

  let rec iter_op op p a =
    match p with
    | XI p0 -> op a (iter_op op p0 (op a a))
    | XO p0 -> iter_op op p0 (op a a)
    | XH -> a

  (** val to_nat : positive -> nat **)

  let to_nat x =
    iter_op add x (S O)

  (** val of_succ_nat : nat -> positive **)

  let rec of_succ_nat = function
  | O -> XH
  | S x -> succ (of_succ_nat x)
 end

module N =
 struct
  (** val succ_double : n -> n **)

  let succ_double = function
  | N0 -> Npos XH
  | Npos p -> Npos (XI p)

  (** val double : n -> n **)

  let double = function
  | N0 -> N0
  | Npos p -> Npos (XO p)

  (** val sub : n -> n -> n **)

  let sub n0 m =
    match n0 with
    | N0 -> N0
    | Npos n' ->
      (match m with
       | N0 -> n0
       | Npos m' ->
         (match Coq_Pos.sub_mask n' m' with
          | Coq_Pos.IsPos p -> Npos p
          | _ -> N0))

  (** val compare : n -> n -> comparison **)

  let compare n0 m =
    match n0 with
    | N0 -> (match m with
             | N0 -> Eq
             | Npos _ -> Lt)
    | Npos n' -> (match m with
                  | N0 -> Gt
                  | Npos m' -> Coq_Pos.compare n' m')

  (** val eqb : n -> n -> bool **)

  let eqb n0 m =
    match n0 with
    | N0 -> (match m with
             | N0 -> true
             | Npos _ -> false)
    | Npos p -> (match m with
                 | N0 -> false
                 | Npos q -> Coq_Pos.eqb p q)

  (** val leb : n -> n -> bool **)

  let leb x y =
    match compare x y with
    | Gt -> false
    | _ -> true

  (** val size : n -> n **)

  let size = function
  | N0 -> N0
  | Npos p -> Npos (Coq_Pos.size p)

  (** val pos_div_eucl : positive -> n -> n * n **)

  let rec pos_div_eucl a b =
    match a with
    | XI a' ->
      let (q, r) = pos_div_eucl a' b in
      let r' = succ_double r in
      if leb b r' then ((succ_double q), (sub r' b)) else ((double q), r')
    | XO a' ->
      let (q, r) = pos_div_eucl a' b in
      let r' = double r in
      if leb b r' then ((succ_double q), (sub r' b)) else ((double q), r')
    | XH ->
      (match b with
       | N0 -> (N0, (Npos XH))
       | Npos p -> (match p with
                    | XH -> ((Npos XH), N0)
                    | _ -> (N0, (Npos XH))))

  (** val div_eucl : n -> n -> n * n **)

  let div_eucl a b =
    match a with
    | N0 -> (N0, N0)
    | Npos na -> (match b with
                  | N0 -> (N0, a)
                  | Npos _ -> pos_div_eucl na b)

  (** val div : n -> n -> n **)

  let div a b =
    fst (div_eucl a b)

  (** val modulo : n -> n -> n **)

  let modulo a b =
    snd (div_eucl a b)

  (** val to_nat : n -> nat **)

  let to_nat = function
  | N0 -> O
  | Npos p -> Coq_Pos.to_nat p

  (** val of_nat : nat -> n **)

  let of_nat = function
  | O -> N0
  | S n' -> Npos (Coq_Pos.of_succ_nat n')
 end

(** val zero : char **)

let zero = '\000'

(** val one : char **)

let one = '\001'

(** val shift : bool -> char -> char **)

let shift = fun b c -> Char.chr (((Char.code c) lsl 1) land 255 + if b then 1 else 0)

(** val ascii_of_pos : positive -> char **)

let ascii_of_pos =
  let rec loop n0 p =
    match n0 with
    | O -> zero
    | S n' ->
      (match p with
       | XI p' -> shift true (loop n' p')
       | XO p' -> shift false (loop n' p')
       | XH -> one)
  in loop (S (S (S (S (S (S (S (S O))))))))

(** val ascii_of_N : n -> char **)

let ascii_of_N = function
| N0 -> zero
| Npos p -> ascii_of_pos p

(** val ascii_of_nat : nat -> char **)

let ascii_of_nat a =
  ascii_of_N (N.of_nat a)

(** val map : ('a1 -> 'a2) -> 'a1 list -> 'a2 list **)

let rec map f = function
| [] -> []
| a :: t -> (f a) :: (map f t)

(** val flat_map : ('a1 -> 'a2 list) -> 'a1 list -> 'a2 list **)

let rec flat_map f = function
| [] -> []
| x :: t -> app (f x) (flat_map f t)

(** val existsb : ('a1 -> bool) -> 'a1 list -> bool **)

let rec existsb f = function
| [] -> false
| a :: l0 -> (||) (f a) (existsb f l0)

(** val forallb : ('a1 -> bool) -> 'a1 list -> bool **)

let rec forallb f = function
| [] -> true
| a :: l0 -> (&&) (f a) (forallb f l0)

(** val filter : ('a1 -> bool) -> 'a1 list -> 'a1 list **)

let rec filter f = function
| [] -> []
| x :: l0 -> if f x then x :: (filter f l0) else filter f l0

(** val find : ('a1 -> bool) -> 'a1 list -> 'a1 option **)

let rec find f = function
| [] -> None
| x :: tl -> if f x then Some x else find f tl

(** val eqb0 : char list -> char list -> bool **)

let rec eqb0 s1 s2 =
  match s1 with
  | [] -> (match s2 with
           | [] -> true
           | _::_ -> false)
  | c1::s1' ->
    (match s2 with
     | [] -> false
     | c2::s2' -> if (=) c1 c2 then eqb0 s1' s2' else false)

(** val append : char list -> char list -> char list **)

let rec append s1 s2 =
  match s1 with
  | [] -> s2
  | c::s1' -> c::(append s1' s2)

(** val list_ascii_of_string : char list -> char list **)

let rec list_ascii_of_string = function
| [] -> []
| ch::s0 -> ch :: (list_ascii_of_string s0)

type err =
| ErrValue
| ErrRuntime
| ErrAssert
| ErrNotImpl
| ErrKey
| ErrType
| ErrAttr
| ErrIndex
| ErrTranslation
| ErrOutOfFuel
| ErrOther of char list

type 'a result =
| OK of 'a
| Error of err

(** val err_name : err -> char list **)

let err_name = function
| ErrValue ->
  'V'::('a'::('l'::('u'::('e'::('E'::('r'::('r'::('o'::('r'::[])))))))))
| ErrRuntime ->
  'R'::('u'::('n'::('t'::('i'::('m'::('e'::('E'::('r'::('r'::('o'::('r'::[])))))))))))
| ErrAssert ->
  'A'::('s'::('s'::('e'::('r'::('t'::('i'::('o'::('n'::('E'::('r'::('r'::('o'::('r'::[])))))))))))))
| ErrNotImpl ->
  'N'::('o'::('t'::('I'::('m'::('p'::('l'::('e'::('m'::('e'::('n'::('t'::('e'::('d'::('E'::('r'::('r'::('o'::('r'::[]))))))))))))))))))
| ErrKey -> 'K'::('e'::('y'::('E'::('r'::('r'::('o'::('r'::[])))))))
| ErrType -> 'T'::('y'::('p'::('e'::('E'::('r'::('r'::('o'::('r'::[]))))))))
| ErrAttr ->
  'A'::('t'::('t'::('r'::('i'::('b'::('u'::('t'::('e'::('E'::('r'::('r'::('o'::('r'::[])))))))))))))
| ErrIndex ->
  'I'::('n'::('d'::('e'::('x'::('E'::('r'::('r'::('o'::('r'::[])))))))))
| ErrTranslation ->
  'x'::('A'::('O'::('D'::('T'::('r'::('a'::('n'::('s'::('l'::('a'::('t'::('i'::('o'::('n'::('E'::('r'::('r'::('o'::('r'::[])))))))))))))))))))
| ErrOutOfFuel ->
  'O'::('u'::('t'::('O'::('f'::('F'::('u'::('e'::('l'::[]))))))))
| ErrOther t -> t

(** val mem_str : char list -> char list list -> bool **)

let rec mem_str x = function
| [] -> false
| y :: r -> if eqb0 x y then true else mem_str x r

(** val list_str_eqb : char list list -> char list list -> bool **)

let rec list_str_eqb a b =
  match a with
  | [] -> (match b with
           | [] -> true
           | _ :: _ -> false)
  | x :: a' ->
    (match b with
     | [] -> false
     | y :: b' -> (&&) (eqb0 x y) (list_str_eqb a' b'))

(** val concat_str : char list list -> char list **)

let rec concat_str = function
| [] -> []
| x :: r -> append x (concat_str r)

(** val digit_char : nat -> char **)

let digit_char n0 =
  ascii_of_nat
    (add (S (S (S (S (S (S (S (S (S (S (S (S (S (S (S (S (S (S (S (S (S (S (S
      (S (S (S (S (S (S (S (S (S (S (S (S (S (S (S (S (S (S (S (S (S (S (S (S
      (S O)))))))))))))))))))))))))))))))))))))))))))))))) n0)

(** val dec_N_fuel : nat -> n -> char list -> char list **)

let rec dec_N_fuel fuel n0 acc =
  match fuel with
  | O -> acc
  | S f ->
    let d = N.to_nat (N.modulo n0 (Npos (XO (XI (XO XH))))) in
    let acc' = (digit_char d)::acc in
    if N.eqb (N.div n0 (Npos (XO (XI (XO XH))))) N0
    then acc'
    else dec_N_fuel f (N.div n0 (Npos (XO (XI (XO XH))))) acc'

(** val dec_N : n -> char list **)

let dec_N n0 =
  dec_N_fuel (S (N.to_nat (N.size n0))) n0 []

(** val dec_nat : nat -> char list **)

let dec_nat n0 =
  dec_N (N.of_nat n0)

type sexp =
| SAtom of char list
| SList of sexp list

(** val s_strs : char list list -> sexp **)

let s_strs l =
  SList (map (fun x -> SAtom x) l)

(** val s_nat : nat -> sexp **)

let s_nat n0 =
  SAtom (dec_nat n0)

(** val s_bool : bool -> sexp **)

let s_bool b =
  SAtom
    (if b
     then 't'::('r'::('u'::('e'::[])))
     else 'f'::('a'::('l'::('s'::('e'::[])))))

(** val s_tag : char list -> sexp list -> sexp **)

let s_tag t l =
  SList ((SAtom t) :: l)

(** val s_err : err -> sexp **)

let s_err e =
  s_tag ('e'::('r'::('r'::('o'::('r'::[]))))) ((SAtom (err_name e)) :: [])

(** val s_result : ('a1 -> sexp) -> 'a1 result -> sexp **)

let s_result enc = function
| OK a -> s_tag ('o'::('k'::[])) ((enc a) :: [])
| Error e -> s_err e

(** val d_str : sexp -> char list option **)

let d_str = function
| SAtom a -> Some a
| SList _ -> None

(** val d_list : (sexp -> 'a1 option) -> sexp list -> 'a1 list option **)

let rec d_list d = function
| [] -> Some []
| x :: r ->
  (match d x with
   | Some a ->
     (match d_list d r with
      | Some r' -> Some (a :: r')
      | None -> None)
   | None -> None)

(** val d_strs : sexp -> char list list option **)

let d_strs = function
| SAtom _ -> None
| SList l -> d_list d_str l

(** val bad_input : sexp **)

let bad_input =
  s_tag ('b'::('a'::('d'::('-'::('i'::('n'::('p'::('u'::('t'::[]))))))))) []

type jblock = { jb_name : char list; jb_script : char list list;
                jb_deps : char list list }

type entry = char list * (char list list * char list list)

type table = entry list

(** val tget :
    char list -> table -> (char list list * char list list) option **)

let rec tget n0 = function
| [] -> None
| e :: r -> let (k, v) = e in if eqb0 n0 k then Some v else tget n0 r

(** val textend : char list -> char list list -> table -> table **)

let rec textend n0 ds = function
| [] -> []
| e :: r ->
  let (k, p) = e in
  let (s, d) = p in
  if eqb0 n0 k
  then (k, (s, (app d ds))) :: r
  else (k, (s, d)) :: (textend n0 ds r)

(** val step1 : table -> jblock -> table result **)

let step1 t b =
  match tget b.jb_name t with
  | Some p ->
    let (s0, _) = p in
    if list_str_eqb b.jb_script s0
    then OK (textend b.jb_name b.jb_deps t)
    else Error ErrValue
  | None -> OK (app t ((b.jb_name, (b.jb_script, b.jb_deps)) :: []))

(** val phase1 : jblock list -> table -> table result **)

let rec phase1 bs t =
  match bs with
  | [] -> OK t
  | b :: r -> (match step1 t b with
               | OK t' -> phase1 r t'
               | Error e -> Error e)

(** val has_key : char list -> table -> bool **)

let has_key n0 t =
  match tget n0 t with
  | Some _ -> true
  | None -> false

(** val deps_present : table -> bool **)

let deps_present t =
  forallb (fun e -> forallb (fun d -> has_key d t) (snd (snd e))) t

(** val one_pass :
    table -> char list list -> char list list -> bool -> (char list
    list * char list list) * bool **)

let rec one_pass rest seen out emitted =
  match rest with
  | [] -> ((seen, out), emitted)
  | e :: r ->
    let (n0, p) = e in
    let (scr, ds) = p in
    if (&&) (negb (mem_str n0 seen)) (forallb (fun d -> mem_str d seen) ds)
    then one_pass r (app seen (n0 :: [])) (app out scr) true
    else one_pass r seen out emitted

(** val emit_loop :
    nat -> table -> char list list -> char list list -> char list list result **)

let rec emit_loop fuel t seen out =
  if Nat.ltb (length seen) (length t)
  then (match fuel with
        | O -> Error ErrOutOfFuel
        | S f ->
          let (p, b) = one_pass t seen out false in
          let (seen', out') = p in
          if b then emit_loop f t seen' out' else Error ErrValue)
  else OK out

(** val gen : jblock list -> char list list result **)

let gen bs =
  match phase1 bs [] with
  | OK t ->
    if deps_present t
    then emit_loop (S (length t)) t [] []
    else Error ErrValue
  | Error e -> Error e

(** val d_jblock : sexp -> jblock option **)

let d_jblock = function
| SAtom _ -> None
| SList l ->
  (match l with
   | [] -> None
   | s0 :: l0 ->
     (match s0 with
      | SAtom n0 ->
        (match l0 with
         | [] -> None
         | sc :: l1 ->
           (match l1 with
            | [] -> None
            | dp :: l2 ->
              (match l2 with
               | [] ->
                 (match d_strs sc with
                  | Some sc' ->
                    (match d_strs dp with
                     | Some dp' ->
                       Some { jb_name = n0; jb_script = sc'; jb_deps = dp' }
                     | None -> None)
                  | None -> None)
               | _ :: _ -> None)))
      | SList _ -> None))

(** val run_gen : sexp -> sexp **)

let run_gen = function
| SAtom _ -> bad_input
| SList l ->
  (match d_list d_jblock l with
   | Some bs -> s_result s_strs (gen bs)
   | None -> bad_input)

type mrow = { m_py : char list; m_cpp : char list; m_inc : char list list;
              m_ret : char list }

type menv = { e_rows : mrow list; e_module : char list list;
              e_builtins : (char list * char list) list }

(** val lookup_row : char list -> mrow list -> mrow option **)

let rec lookup_row k = function
| [] -> None
| r :: rest ->
  (match lookup_row k rest with
   | Some r' -> Some r'
   | None -> if eqb0 k r.m_py then Some r else None)

(** val assoc :
    char list -> (char list * char list) list -> char list option **)

let rec assoc k = function
| [] -> None
| p :: r -> let (a, b) = p in if eqb0 k a then Some b else assoc k r

type resolution =
| RName of char list
| RCrash

(** val resolve : menv -> char list -> resolution **)

let resolve e n0 =
  if mem_str n0 e.e_module
  then RCrash
  else (match assoc n0 e.e_builtins with
        | Some m ->
          (match m with
           | [] -> RName (append m (append ('.'::[]) n0))
           | a::s ->
             (* If this appears, you're using Ascii internals. Please don't *)
 (fun f c ->
  let n = Char.code c in
  let h i = (n land (1 lsl i)) <> 0 in
  f (h 0) (h 1) (h 2) (h 3) (h 4) (h 5) (h 6) (h 7))
               (fun b b0 b1 b2 b3 b4 b5 b6 ->
               if b
               then if b0
                    then RName (append m (append ('.'::[]) n0))
                    else if b1
                         then if b2
                              then if b3
                                   then RName (append m (append ('.'::[]) n0))
                                   else if b4
                                        then if b5
                                             then RName
                                                    (append m
                                                      (append ('.'::[]) n0))
                                             else if b6
                                                  then RName
                                                         (append m
                                                           (append ('.'::[])
                                                             n0))
                                                  else (match s with
                                                        | [] -> RCrash
                                                        | _::_ ->
                                                          RName
                                                            (append m
                                                              (append
                                                                ('.'::[]) n0)))
                                        else RName
                                               (append m
                                                 (append ('.'::[]) n0))
                              else RName (append m (append ('.'::[]) n0))
                         else RName (append m (append ('.'::[]) n0))
               else RName (append m (append ('.'::[]) n0)))
               a)
        | None -> RName n0)

(** val find_row : menv -> char list -> mrow option **)

let find_row e n0 =
  match resolve e n0 with
  | RName q -> lookup_row q e.e_rows
  | RCrash -> None

(** val acceptable : char list -> char list -> bool **)

let acceptable n0 cpp =
  (||)
    ((||) (eqb0 cpp (append ('s'::('t'::('d'::(':'::(':'::[]))))) n0))
      ((&&) (eqb0 n0 ('l'::('n'::[])))
        (eqb0 cpp ('s'::('t'::('d'::(':'::(':'::('l'::('o'::('g'::[])))))))))))
    ((&&) (eqb0 n0 ('a'::('b'::('s'::[]))))
      ((||)
        (eqb0 cpp
          ('s'::('t'::('d'::(':'::(':'::('f'::('a'::('b'::('s'::[]))))))))))
        (eqb0 cpp ('s'::('t'::('d'::(':'::(':'::('a'::('b'::('s'::[])))))))))))

(** val cmath_sig : (char list * (nat * bool)) list **)

let cmath_sig =
  (('s'::('i'::('n'::[]))), ((S O), false)) :: ((('c'::('o'::('s'::[]))), ((S
    O), false)) :: ((('t'::('a'::('n'::[]))), ((S O),
    false)) :: ((('a'::('c'::('o'::('s'::[])))), ((S O),
    false)) :: ((('a'::('s'::('i'::('n'::[])))), ((S O),
    false)) :: ((('a'::('t'::('a'::('n'::[])))), ((S O),
    false)) :: ((('a'::('t'::('a'::('n'::('2'::[]))))), ((S (S O)),
    false)) :: ((('s'::('i'::('n'::('h'::[])))), ((S O),
    false)) :: ((('c'::('o'::('s'::('h'::[])))), ((S O),
    false)) :: ((('t'::('a'::('n'::('h'::[])))), ((S O),
    false)) :: ((('a'::('s'::('i'::('n'::('h'::[]))))), ((S O),
    false)) :: ((('a'::('c'::('o'::('s'::('h'::[]))))), ((S O),
    false)) :: ((('a'::('t'::('a'::('n'::('h'::[]))))), ((S O),
    false)) :: ((('e'::('x'::('p'::[]))), ((S O),
    false)) :: ((('l'::('d'::('e'::('x'::('p'::[]))))), ((S (S O)),
    false)) :: ((('l'::('o'::('g'::[]))), ((S O),
    false)) :: ((('l'::('n'::[])), ((S O),
    false)) :: ((('l'::('o'::('g'::('1'::('0'::[]))))), ((S O),
    false)) :: ((('e'::('x'::('p'::('2'::[])))), ((S O),
    false)) :: ((('e'::('x'::('p'::('m'::('1'::[]))))), ((S O),
    false)) :: ((('i'::('l'::('o'::('g'::('b'::[]))))), ((S O),
    false)) :: ((('l'::('o'::('g'::('1'::('p'::[]))))), ((S O),
    false)) :: ((('l'::('o'::('g'::('2'::[])))), ((S O),
    false)) :: ((('s'::('c'::('a'::('l'::('b'::('n'::[])))))), ((S (S O)),
    false)) :: ((('s'::('c'::('a'::('l'::('b'::('l'::('n'::[]))))))), ((S (S
    O)), false)) :: ((('p'::('o'::('w'::[]))), ((S (S O)),
    false)) :: ((('s'::('q'::('r'::('t'::[])))), ((S O),
    false)) :: ((('c'::('b'::('r'::('t'::[])))), ((S O),
    false)) :: ((('h'::('y'::('p'::('o'::('t'::[]))))), ((S (S O)),
    false)) :: ((('e'::('r'::('f'::[]))), ((S O),
    false)) :: ((('e'::('r'::('f'::('c'::[])))), ((S O),
    false)) :: ((('t'::('g'::('a'::('m'::('m'::('a'::[])))))), ((S O),
    false)) :: ((('l'::('g'::('a'::('m'::('m'::('a'::[])))))), ((S O),
    false)) :: ((('c'::('e'::('i'::('l'::[])))), ((S O),
    false)) :: ((('f'::('l'::('o'::('o'::('r'::[]))))), ((S O),
    false)) :: ((('f'::('m'::('o'::('d'::[])))), ((S (S O)),
    false)) :: ((('t'::('r'::('u'::('n'::('c'::[]))))), ((S O),
    false)) :: ((('r'::('o'::('u'::('n'::('d'::[]))))), ((S O),
    false)) :: ((('r'::('i'::('n'::('t'::[])))), ((S O),
    false)) :: ((('n'::('e'::('a'::('r'::('b'::('y'::('i'::('n'::('t'::[]))))))))),
    ((S O),
    false)) :: ((('r'::('e'::('m'::('a'::('i'::('n'::('d'::('e'::('r'::[]))))))))),
    ((S (S O)), false)) :: ((('r'::('e'::('m'::('q'::('u'::('o'::[])))))),
    ((S (S (S O))),
    true)) :: ((('c'::('o'::('p'::('y'::('s'::('i'::('g'::('n'::[])))))))),
    ((S (S O)), false)) :: ((('n'::('a'::('n'::[]))), ((S O),
    false)) :: ((('n'::('e'::('x'::('t'::('a'::('f'::('t'::('e'::('r'::[]))))))))),
    ((S (S O)),
    false)) :: ((('n'::('e'::('x'::('t'::('t'::('o'::('w'::('a'::('r'::('d'::[])))))))))),
    ((S (S O)), false)) :: ((('f'::('d'::('i'::('m'::[])))), ((S (S O)),
    false)) :: ((('f'::('m'::('a'::('x'::[])))), ((S (S O)),
    false)) :: ((('f'::('m'::('i'::('n'::[])))), ((S (S O)),
    false)) :: ((('f'::('a'::('b'::('s'::[])))), ((S O),
    false)) :: ((('a'::('b'::('s'::[]))), ((S O),
    false)) :: ((('f'::('m'::('a'::[]))), ((S (S (S O))),
    false)) :: [])))))))))))))))))))))))))))))))))))))))))))))))))))

(** val sig_of :
    char list -> (char list * (nat * bool)) list -> (nat * bool) option **)

let rec sig_of n0 = function
| [] -> None
| p :: r -> let (a, b) = p in if eqb0 n0 a then Some b else sig_of n0 r

(** val callable_from_query : char list -> bool **)

let callable_from_query n0 =
  match sig_of n0 cmath_sig with
  | Some p -> let (_, b) = p in if b then false else true
  | None -> false

(** val doc_ok : menv -> char list -> bool **)

let doc_ok e n0 =
  match find_row e n0 with
  | Some r ->
    (&&)
      ((&&)
        ((&&) (acceptable n0 r.m_cpp)
          (mem_str ('c'::('m'::('a'::('t'::('h'::[]))))) r.m_inc))
        (eqb0 r.m_ret ('d'::('o'::('u'::('b'::('l'::('e'::[]))))))))
      (callable_from_query n0)
  | None -> false

(** val s_row : mrow -> sexp **)

let s_row r =
  SList ((SAtom r.m_py) :: ((SAtom r.m_cpp) :: ((s_strs r.m_inc) :: ((SAtom
    r.m_ret) :: []))))

(** val audit : menv -> char list list -> sexp **)

let audit e doc =
  SList
    (map (fun n0 -> SList ((SAtom
      n0) :: ((match resolve e n0 with
               | RName q -> SAtom q
               | RCrash ->
                 SAtom ('<'::('c'::('r'::('a'::('s'::('h'::('>'::[])))))))) :: ((
      match find_row e n0 with
      | Some r -> s_row r
      | None -> SList []) :: ((s_bool (doc_ok e n0)) :: ((match sig_of n0
                                                                  cmath_sig with
                                                          | Some p0 ->
                                                            let (k, p) = p0 in
                                                            SList
                                                            ((s_nat k) :: (
                                                            (s_bool p) :: []))
                                                          | None -> SList []) :: []))))))
      doc)

(** val math_rows : mrow list **)

let math_rows =
  { m_py = ('s'::('i'::('n'::[]))); m_cpp =
    ('s'::('t'::('d'::(':'::(':'::('s'::('i'::('n'::[])))))))); m_inc =
    (('c'::('m'::('a'::('t'::('h'::[]))))) :: []); m_ret =
    ('d'::('o'::('u'::('b'::('l'::('e'::[])))))) } :: ({ m_py =
    ('c'::('o'::('s'::[]))); m_cpp =
    ('s'::('t'::('d'::(':'::(':'::('c'::('o'::('s'::[])))))))); m_inc =
    (('c'::('m'::('a'::('t'::('h'::[]))))) :: []); m_ret =
    ('d'::('o'::('u'::('b'::('l'::('e'::[])))))) } :: ({ m_py =
    ('t'::('a'::('n'::[]))); m_cpp =
    ('s'::('t'::('d'::(':'::(':'::('t'::('a'::('n'::[])))))))); m_inc =
    (('c'::('m'::('a'::('t'::('h'::[]))))) :: []); m_ret =
    ('d'::('o'::('u'::('b'::('l'::('e'::[])))))) } :: ({ m_py =
    ('a'::('c'::('o'::('s'::[])))); m_cpp =
    ('s'::('t'::('d'::(':'::(':'::('a'::('c'::('o'::('s'::[])))))))));
    m_inc = (('c'::('m'::('a'::('t'::('h'::[]))))) :: []); m_ret =
    ('d'::('o'::('u'::('b'::('l'::('e'::[])))))) } :: ({ m_py =
    ('a'::('s'::('i'::('n'::[])))); m_cpp =
    ('s'::('t'::('d'::(':'::(':'::('a'::('s'::('i'::('n'::[])))))))));
    m_inc = (('c'::('m'::('a'::('t'::('h'::[]))))) :: []); m_ret =
    ('d'::('o'::('u'::('b'::('l'::('e'::[])))))) } :: ({ m_py =
    ('a'::('t'::('a'::('n'::[])))); m_cpp =
    ('s'::('t'::('d'::(':'::(':'::('a'::('t'::('a'::('n'::[])))))))));
    m_inc = (('c'::('m'::('a'::('t'::('h'::[]))))) :: []); m_ret =
    ('d'::('o'::('u'::('b'::('l'::('e'::[])))))) } :: ({ m_py =
    ('a'::('t'::('a'::('n'::('2'::[]))))); m_cpp =
    ('s'::('t'::('d'::(':'::(':'::('a'::('t'::('a'::('n'::('2'::[]))))))))));
    m_inc = (('c'::('m'::('a'::('t'::('h'::[]))))) :: []); m_ret =
    ('d'::('o'::('u'::('b'::('l'::('e'::[])))))) } :: ({ m_py =
    ('s'::('i'::('n'::('h'::[])))); m_cpp =
    ('s'::('t'::('d'::(':'::(':'::('s'::('i'::('n'::('h'::[])))))))));
    m_inc = (('c'::('m'::('a'::('t'::('h'::[]))))) :: []); m_ret =
    ('d'::('o'::('u'::('b'::('l'::('e'::[])))))) } :: ({ m_py =
    ('c'::('o'::('s'::('h'::[])))); m_cpp =
    ('s'::('t'::('d'::(':'::(':'::('c'::('o'::('s'::('h'::[])))))))));
    m_inc = (('c'::('m'::('a'::('t'::('h'::[]))))) :: []); m_ret =
    ('d'::('o'::('u'::('b'::('l'::('e'::[])))))) } :: ({ m_py =
    ('t'::('a'::('n'::('h'::[])))); m_cpp =
    ('s'::('t'::('d'::(':'::(':'::('t'::('a'::('n'::('h'::[])))))))));
    m_inc = (('c'::('m'::('a'::('t'::('h'::[]))))) :: []); m_ret =
    ('d'::('o'::('u'::('b'::('l'::('e'::[])))))) } :: ({ m_py =
    ('a'::('s'::('i'::('n'::('h'::[]))))); m_cpp =
    ('s'::('t'::('d'::(':'::(':'::('a'::('s'::('i'::('n'::('h'::[]))))))))));
    m_inc = (('c'::('m'::('a'::('t'::('h'::[]))))) :: []); m_ret =
    ('d'::('o'::('u'::('b'::('l'::('e'::[])))))) } :: ({ m_py =
    ('a'::('c'::('o'::('s'::('h'::[]))))); m_cpp =
    ('s'::('t'::('d'::(':'::(':'::('a'::('c'::('o'::('s'::('h'::[]))))))))));
    m_inc = (('c'::('m'::('a'::('t'::('h'::[]))))) :: []); m_ret =
    ('d'::('o'::('u'::('b'::('l'::('e'::[])))))) } :: ({ m_py =
    ('a'::('t'::('a'::('n'::('h'::[]))))); m_cpp =
    ('s'::('t'::('d'::(':'::(':'::('a'::('t'::('a'::('n'::('h'::[]))))))))));
    m_inc = (('c'::('m'::('a'::('t'::('h'::[]))))) :: []); m_ret =
    ('d'::('o'::('u'::('b'::('l'::('e'::[])))))) } :: ({ m_py =
    ('e'::('x'::('p'::[]))); m_cpp =
    ('s'::('t'::('d'::(':'::(':'::('e'::('x'::('p'::[])))))))); m_inc =
    (('c'::('m'::('a'::('t'::('h'::[]))))) :: []); m_ret =
    ('d'::('o'::('u'::('b'::('l'::('e'::[])))))) } :: ({ m_py =
    ('l'::('d'::('e'::('x'::('p'::[]))))); m_cpp =
    ('s'::('t'::('d'::(':'::(':'::('l'::('d'::('e'::('x'::('p'::[]))))))))));
    m_inc = (('c'::('m'::('a'::('t'::('h'::[]))))) :: []); m_ret =
    ('d'::('o'::('u'::('b'::('l'::('e'::[])))))) } :: ({ m_py =
    ('l'::('o'::('g'::[]))); m_cpp =
    ('s'::('t'::('d'::(':'::(':'::('l'::('o'::('g'::[])))))))); m_inc =
    (('c'::('m'::('a'::('t'::('h'::[]))))) :: []); m_ret =
    ('d'::('o'::('u'::('b'::('l'::('e'::[])))))) } :: ({ m_py =
    ('l'::('n'::[])); m_cpp =
    ('s'::('t'::('d'::(':'::(':'::('l'::('o'::('g'::[])))))))); m_inc =
    (('c'::('m'::('a'::('t'::('h'::[]))))) :: []); m_ret =
    ('d'::('o'::('u'::('b'::('l'::('e'::[])))))) } :: ({ m_py =
    ('l'::('o'::('g'::('1'::('0'::[]))))); m_cpp =
    ('s'::('t'::('d'::(':'::(':'::('l'::('o'::('g'::('1'::('0'::[]))))))))));
    m_inc = (('c'::('m'::('a'::('t'::('h'::[]))))) :: []); m_ret =
    ('d'::('o'::('u'::('b'::('l'::('e'::[])))))) } :: ({ m_py =
    ('e'::('x'::('p'::('2'::[])))); m_cpp =
    ('s'::('t'::('d'::(':'::(':'::('e'::('x'::('p'::('2'::[])))))))));
    m_inc = (('c'::('m'::('a'::('t'::('h'::[]))))) :: []); m_ret =
    ('d'::('o'::('u'::('b'::('l'::('e'::[])))))) } :: ({ m_py =
    ('e'::('x'::('p'::('m'::('1'::[]))))); m_cpp =
    ('s'::('t'::('d'::(':'::(':'::('e'::('x'::('p'::('m'::('1'::[]))))))))));
    m_inc = (('c'::('m'::('a'::('t'::('h'::[]))))) :: []); m_ret =
    ('d'::('o'::('u'::('b'::('l'::('e'::[])))))) } :: ({ m_py =
    ('i'::('l'::('o'::('g'::('b'::[]))))); m_cpp =
    ('s'::('t'::('d'::(':'::(':'::('i'::('l'::('o'::('g'::('b'::[]))))))))));
    m_inc = (('c'::('m'::('a'::('t'::('h'::[]))))) :: []); m_ret =
    ('d'::('o'::('u'::('b'::('l'::('e'::[])))))) } :: ({ m_py =
    ('l'::('o'::('g'::('1'::('p'::[]))))); m_cpp =
    ('s'::('t'::('d'::(':'::(':'::('l'::('o'::('g'::('1'::('p'::[]))))))))));
    m_inc = (('c'::('m'::('a'::('t'::('h'::[]))))) :: []); m_ret =
    ('d'::('o'::('u'::('b'::('l'::('e'::[])))))) } :: ({ m_py =
    ('l'::('o'::('g'::('2'::[])))); m_cpp =
    ('s'::('t'::('d'::(':'::(':'::('l'::('o'::('g'::('2'::[])))))))));
    m_inc = (('c'::('m'::('a'::('t'::('h'::[]))))) :: []); m_ret =
    ('d'::('o'::('u'::('b'::('l'::('e'::[])))))) } :: ({ m_py =
    ('s'::('c'::('a'::('l'::('b'::('n'::[])))))); m_cpp =
    ('s'::('t'::('d'::(':'::(':'::('s'::('c'::('a'::('l'::('b'::('n'::[])))))))))));
    m_inc = (('c'::('m'::('a'::('t'::('h'::[]))))) :: []); m_ret =
    ('d'::('o'::('u'::('b'::('l'::('e'::[])))))) } :: ({ m_py =
    ('s'::('c'::('a'::('l'::('b'::('l'::('n'::[]))))))); m_cpp =
    ('s'::('t'::('d'::(':'::(':'::('s'::('c'::('a'::('l'::('b'::('l'::('n'::[]))))))))))));
    m_inc = (('c'::('m'::('a'::('t'::('h'::[]))))) :: []); m_ret =
    ('d'::('o'::('u'::('b'::('l'::('e'::[])))))) } :: ({ m_py =
    ('p'::('o'::('w'::[]))); m_cpp =
    ('s'::('t'::('d'::(':'::(':'::('p'::('o'::('w'::[])))))))); m_inc =
    (('c'::('m'::('a'::('t'::('h'::[]))))) :: []); m_ret =
    ('d'::('o'::('u'::('b'::('l'::('e'::[])))))) } :: ({ m_py =
    ('s'::('q'::('r'::('t'::[])))); m_cpp =
    ('s'::('t'::('d'::(':'::(':'::('s'::('q'::('r'::('t'::[])))))))));
    m_inc = (('c'::('m'::('a'::('t'::('h'::[]))))) :: []); m_ret =
    ('d'::('o'::('u'::('b'::('l'::('e'::[])))))) } :: ({ m_py =
    ('c'::('b'::('r'::('t'::[])))); m_cpp =
    ('s'::('t'::('d'::(':'::(':'::('c'::('b'::('r'::('t'::[])))))))));
    m_inc = (('c'::('m'::('a'::('t'::('h'::[]))))) :: []); m_ret =
    ('d'::('o'::('u'::('b'::('l'::('e'::[])))))) } :: ({ m_py =
    ('h'::('y'::('p'::('o'::('t'::[]))))); m_cpp =
    ('s'::('t'::('d'::(':'::(':'::('h'::('y'::('p'::('o'::('t'::[]))))))))));
    m_inc = (('c'::('m'::('a'::('t'::('h'::[]))))) :: []); m_ret =
    ('d'::('o'::('u'::('b'::('l'::('e'::[])))))) } :: ({ m_py =
    ('e'::('r'::('f'::[]))); m_cpp =
    ('s'::('t'::('d'::(':'::(':'::('e'::('r'::('f'::[])))))))); m_inc =
    (('c'::('m'::('a'::('t'::('h'::[]))))) :: []); m_ret =
    ('d'::('o'::('u'::('b'::('l'::('e'::[])))))) } :: ({ m_py =
    ('e'::('r'::('f'::('c'::[])))); m_cpp =
    ('s'::('t'::('d'::(':'::(':'::('e'::('r'::('f'::('c'::[])))))))));
    m_inc = (('c'::('m'::('a'::('t'::('h'::[]))))) :: []); m_ret =
    ('d'::('o'::('u'::('b'::('l'::('e'::[])))))) } :: ({ m_py =
    ('t'::('g'::('a'::('m'::('m'::('a'::[])))))); m_cpp =
    ('s'::('t'::('d'::(':'::(':'::('t'::('g'::('a'::('m'::('m'::('a'::[])))))))))));
    m_inc = (('c'::('m'::('a'::('t'::('h'::[]))))) :: []); m_ret =
    ('d'::('o'::('u'::('b'::('l'::('e'::[])))))) } :: ({ m_py =
    ('l'::('g'::('a'::('m'::('m'::('a'::[])))))); m_cpp =
    ('s'::('t'::('d'::(':'::(':'::('l'::('g'::('a'::('m'::('m'::('a'::[])))))))))));
    m_inc = (('c'::('m'::('a'::('t'::('h'::[]))))) :: []); m_ret =
    ('d'::('o'::('u'::('b'::('l'::('e'::[])))))) } :: ({ m_py =
    ('c'::('e'::('i'::('l'::[])))); m_cpp =
    ('s'::('t'::('d'::(':'::(':'::('c'::('e'::('i'::('l'::[])))))))));
    m_inc = (('c'::('m'::('a'::('t'::('h'::[]))))) :: []); m_ret =
    ('d'::('o'::('u'::('b'::('l'::('e'::[])))))) } :: ({ m_py =
    ('f'::('l'::('o'::('o'::('r'::[]))))); m_cpp =
    ('s'::('t'::('d'::(':'::(':'::('f'::('l'::('o'::('o'::('r'::[]))))))))));
    m_inc = (('c'::('m'::('a'::('t'::('h'::[]))))) :: []); m_ret =
    ('d'::('o'::('u'::('b'::('l'::('e'::[])))))) } :: ({ m_py =
    ('f'::('m'::('o'::('d'::[])))); m_cpp =
    ('s'::('t'::('d'::(':'::(':'::('f'::('m'::('o'::('d'::[])))))))));
    m_inc = (('c'::('m'::('a'::('t'::('h'::[]))))) :: []); m_ret =
    ('d'::('o'::('u'::('b'::('l'::('e'::[])))))) } :: ({ m_py =
    ('t'::('r'::('u'::('n'::('c'::[]))))); m_cpp =
    ('s'::('t'::('d'::(':'::(':'::('t'::('r'::('u'::('n'::('c'::[]))))))))));
    m_inc = (('c'::('m'::('a'::('t'::('h'::[]))))) :: []); m_ret =
    ('d'::('o'::('u'::('b'::('l'::('e'::[])))))) } :: ({ m_py =
    ('r'::('o'::('u'::('n'::('d'::[]))))); m_cpp =
    ('s'::('t'::('d'::(':'::(':'::('r'::('o'::('u'::('n'::('d'::[]))))))))));
    m_inc = (('c'::('m'::('a'::('t'::('h'::[]))))) :: []); m_ret =
    ('d'::('o'::('u'::('b'::('l'::('e'::[])))))) } :: ({ m_py =
    ('r'::('i'::('n'::('t'::[])))); m_cpp =
    ('s'::('t'::('d'::(':'::(':'::('r'::('i'::('n'::('t'::[])))))))));
    m_inc = (('c'::('m'::('a'::('t'::('h'::[]))))) :: []); m_ret =
    ('d'::('o'::('u'::('b'::('l'::('e'::[])))))) } :: ({ m_py =
    ('n'::('e'::('a'::('r'::('b'::('y'::('i'::('n'::('t'::[])))))))));
    m_cpp =
    ('s'::('t'::('d'::(':'::(':'::('n'::('e'::('a'::('r'::('b'::('y'::('i'::('n'::('t'::[]))))))))))))));
    m_inc = (('c'::('m'::('a'::('t'::('h'::[]))))) :: []); m_ret =
    ('d'::('o'::('u'::('b'::('l'::('e'::[])))))) } :: ({ m_py =
    ('r'::('e'::('m'::('a'::('i'::('n'::('d'::('e'::('r'::[])))))))));
    m_cpp =
    ('s'::('t'::('d'::(':'::(':'::('r'::('e'::('m'::('a'::('i'::('n'::('d'::('e'::('r'::[]))))))))))))));
    m_inc = (('c'::('m'::('a'::('t'::('h'::[]))))) :: []); m_ret =
    ('d'::('o'::('u'::('b'::('l'::('e'::[])))))) } :: ({ m_py =
    ('r'::('e'::('m'::('q'::('u'::('o'::[])))))); m_cpp =
    ('s'::('t'::('d'::(':'::(':'::('r'::('e'::('m'::('q'::('u'::('o'::[])))))))))));
    m_inc = (('c'::('m'::('a'::('t'::('h'::[]))))) :: []); m_ret =
    ('d'::('o'::('u'::('b'::('l'::('e'::[])))))) } :: ({ m_py =
    ('c'::('o'::('p'::('y'::('s'::('i'::('g'::('n'::[])))))))); m_cpp =
    ('s'::('t'::('d'::(':'::(':'::('c'::('o'::('p'::('y'::('s'::('i'::('g'::('n'::[])))))))))))));
    m_inc = (('c'::('m'::('a'::('t'::('h'::[]))))) :: []); m_ret =
    ('d'::('o'::('u'::('b'::('l'::('e'::[])))))) } :: ({ m_py =
    ('n'::('a'::('n'::[]))); m_cpp =
    ('s'::('t'::('d'::(':'::(':'::('n'::('a'::('n'::[])))))))); m_inc =
    (('c'::('m'::('a'::('t'::('h'::[]))))) :: []); m_ret =
    ('d'::('o'::('u'::('b'::('l'::('e'::[])))))) } :: ({ m_py =
    ('n'::('e'::('x'::('t'::('a'::('f'::('t'::('e'::('r'::[])))))))));
    m_cpp =
    ('s'::('t'::('d'::(':'::(':'::('n'::('e'::('x'::('t'::('a'::('f'::('t'::('e'::('r'::[]))))))))))))));
    m_inc = (('c'::('m'::('a'::('t'::('h'::[]))))) :: []); m_ret =
    ('d'::('o'::('u'::('b'::('l'::('e'::[])))))) } :: ({ m_py =
    ('n'::('e'::('x'::('t'::('t'::('o'::('w'::('a'::('r'::('d'::[]))))))))));
    m_cpp =
    ('s'::('t'::('d'::(':'::(':'::('n'::('e'::('x'::('t'::('t'::('o'::('w'::('a'::('r'::('d'::[])))))))))))))));
    m_inc = (('c'::('m'::('a'::('t'::('h'::[]))))) :: []); m_ret =
    ('d'::('o'::('u'::('b'::('l'::('e'::[])))))) } :: ({ m_py =
    ('f'::('d'::('i'::('m'::[])))); m_cpp =
    ('s'::('t'::('d'::(':'::(':'::('f'::('d'::('i'::('m'::[])))))))));
    m_inc = (('c'::('m'::('a'::('t'::('h'::[]))))) :: []); m_ret =
    ('d'::('o'::('u'::('b'::('l'::('e'::[])))))) } :: ({ m_py =
    ('f'::('m'::('a'::('x'::[])))); m_cpp =
    ('s'::('t'::('d'::(':'::(':'::('f'::('m'::('a'::('x'::[])))))))));
    m_inc = (('c'::('m'::('a'::('t'::('h'::[]))))) :: []); m_ret =
    ('d'::('o'::('u'::('b'::('l'::('e'::[])))))) } :: ({ m_py =
    ('f'::('m'::('i'::('n'::[])))); m_cpp =
    ('s'::('t'::('d'::(':'::(':'::('f'::('m'::('i'::('n'::[])))))))));
    m_inc = (('c'::('m'::('a'::('t'::('h'::[]))))) :: []); m_ret =
    ('d'::('o'::('u'::('b'::('l'::('e'::[])))))) } :: ({ m_py =
    ('f'::('a'::('b'::('s'::[])))); m_cpp =
    ('s'::('t'::('d'::(':'::(':'::('f'::('a'::('b'::('s'::[])))))))));
    m_inc = (('c'::('m'::('a'::('t'::('h'::[]))))) :: []); m_ret =
    ('d'::('o'::('u'::('b'::('l'::('e'::[])))))) } :: ({ m_py =
    ('a'::('b'::('s'::[]))); m_cpp =
    ('s'::('t'::('d'::(':'::(':'::('f'::('a'::('b'::('s'::[])))))))));
    m_inc = (('c'::('m'::('a'::('t'::('h'::[]))))) :: []); m_ret =
    ('d'::('o'::('u'::('b'::('l'::('e'::[])))))) } :: ({ m_py =
    ('f'::('m'::('a'::[]))); m_cpp =
    ('s'::('t'::('d'::(':'::(':'::('f'::('m'::('a'::[])))))))); m_inc =
    (('c'::('m'::('a'::('t'::('h'::[]))))) :: []); m_ret =
    ('d'::('o'::('u'::('b'::('l'::('e'::[])))))) } :: ({ m_py =
    ('b'::('u'::('i'::('l'::('t'::('i'::('n'::('s'::('.'::('a'::('b'::('s'::[]))))))))))));
    m_cpp = ('s'::('t'::('d'::(':'::(':'::('a'::('b'::('s'::[]))))))));
    m_inc = (('c'::('m'::('a'::('t'::('h'::[]))))) :: []); m_ret =
    ('d'::('o'::('u'::('b'::('l'::('e'::[])))))) } :: ({ m_py =
    ('b'::('u'::('i'::('l'::('t'::('i'::('n'::('s'::('.'::('p'::('o'::('w'::[]))))))))))));
    m_cpp = ('s'::('t'::('d'::(':'::(':'::('p'::('o'::('w'::[]))))))));
    m_inc = (('c'::('m'::('a'::('t'::('h'::[]))))) :: []); m_ret =
    ('d'::('o'::('u'::('b'::('l'::('e'::[])))))) } :: ({ m_py =
    ('b'::('u'::('i'::('l'::('t'::('i'::('n'::('s'::('.'::('r'::('o'::('u'::('n'::('d'::[]))))))))))))));
    m_cpp =
    ('s'::('t'::('d'::(':'::(':'::('r'::('o'::('u'::('n'::('d'::[]))))))))));
    m_inc = (('c'::('m'::('a'::('t'::('h'::[]))))) :: []); m_ret =
    ('d'::('o'::('u'::('b'::('l'::('e'::[])))))) } :: []))))))))))))))))))))))))))))))))))))))))))))))))))))))

(** val module_names : char list list **)

let module_names =
  ('a'::('s'::('t'::[]))) :: (('n'::('a'::('m'::('e'::('d'::('t'::('u'::('p'::('l'::('e'::[])))))))))) :: (('F'::('u'::('n'::('c'::('t'::('i'::('o'::('n'::('A'::('S'::('T'::[]))))))))))) :: (('f'::('i'::('n'::('d'::('_'::('k'::('n'::('o'::('w'::('n'::('_'::('f'::('u'::('n'::('c'::('t'::('i'::('o'::('n'::('s'::[])))))))))))))))))))) :: (('a'::('d'::('d'::('_'::('f'::('u'::('n'::('c'::('t'::('i'::('o'::('n'::('_'::('m'::('a'::('p'::('p'::('i'::('n'::('g'::[])))))))))))))))))))) :: (('f'::('u'::('n'::('c'::('t'::('i'::('o'::('n'::('s'::('_'::('t'::('o'::('_'::('r'::('e'::('p'::('l'::('a'::('c'::('e'::[])))))))))))))))))))) :: (('c'::('p'::('p'::('_'::('f'::('u'::('n'::('c'::('t'::('i'::('o'::('n'::[])))))))))))) :: []))))))

(** val builtin_names : (char list * char list) list **)

let builtin_names =
  (('A'::('r'::('i'::('t'::('h'::('m'::('e'::('t'::('i'::('c'::('E'::('r'::('r'::('o'::('r'::[]))))))))))))))),
    ('b'::('u'::('i'::('l'::('t'::('i'::('n'::('s'::[]))))))))) :: ((('A'::('s'::('s'::('e'::('r'::('t'::('i'::('o'::('n'::('E'::('r'::('r'::('o'::('r'::[])))))))))))))),
    ('b'::('u'::('i'::('l'::('t'::('i'::('n'::('s'::[]))))))))) :: ((('A'::('t'::('t'::('r'::('i'::('b'::('u'::('t'::('e'::('E'::('r'::('r'::('o'::('r'::[])))))))))))))),
    ('b'::('u'::('i'::('l'::('t'::('i'::('n'::('s'::[]))))))))) :: ((('B'::('a'::('s'::('e'::('E'::('x'::('c'::('e'::('p'::('t'::('i'::('o'::('n'::[]))))))))))))),
    ('b'::('u'::('i'::('l'::('t'::('i'::('n'::('s'::[]))))))))) :: ((('B'::('a'::('s'::('e'::('E'::('x'::('c'::('e'::('p'::('t'::('i'::('o'::('n'::('G'::('r'::('o'::('u'::('p'::[])))))))))))))))))),
    ('b'::('u'::('i'::('l'::('t'::('i'::('n'::('s'::[]))))))))) :: ((('B'::('l'::('o'::('c'::('k'::('i'::('n'::('g'::('I'::('O'::('E'::('r'::('r'::('o'::('r'::[]))))))))))))))),
    ('b'::('u'::('i'::('l'::('t'::('i'::('n'::('s'::[]))))))))) :: ((('B'::('r'::('o'::('k'::('e'::('n'::('P'::('i'::('p'::('e'::('E'::('r'::('r'::('o'::('r'::[]))))))))))))))),
    ('b'::('u'::('i'::('l'::('t'::('i'::('n'::('s'::[]))))))))) :: ((('B'::('u'::('f'::('f'::('e'::('r'::('E'::('r'::('r'::('o'::('r'::[]))))))))))),
    ('b'::('u'::('i'::('l'::('t'::('i'::('n'::('s'::[]))))))))) :: ((('B'::('y'::('t'::('e'::('s'::('W'::('a'::('r'::('n'::('i'::('n'::('g'::[])))))))))))),
    ('b'::('u'::('i'::('l'::('t'::('i'::('n'::('s'::[]))))))))) :: ((('C'::('h'::('i'::('l'::('d'::('P'::('r'::('o'::('c'::('e'::('s'::('s'::('E'::('r'::('r'::('o'::('r'::[]))))))))))))))))),
    ('b'::('u'::('i'::('l'::('t'::('i'::('n'::('s'::[]))))))))) :: ((('C'::('o'::('n'::('n'::('e'::('c'::('t'::('i'::('o'::('n'::('A'::('b'::('o'::('r'::('t'::('e'::('d'::('E'::('r'::('r'::('o'::('r'::[])))))))))))))))))))))),
    ('b'::('u'::('i'::('l'::('t'::('i'::('n'::('s'::[]))))))))) :: ((('C'::('o'::('n'::('n'::('e'::('c'::('t'::('i'::('o'::('n'::('E'::('r'::('r'::('o'::('r'::[]))))))))))))))),
    ('b'::('u'::('i'::('l'::('t'::('i'::('n'::('s'::[]))))))))) :: ((('C'::('o'::('n'::('n'::('e'::('c'::('t'::('i'::('o'::('n'::('R'::('e'::('f'::('u'::('s'::('e'::('d'::('E'::('r'::('r'::('o'::('r'::[])))))))))))))))))))))),
    ('b'::('u'::('i'::('l'::('t'::('i'::('n'::('s'::[]))))))))) :: ((('C'::('o'::('n'::('n'::('e'::('c'::('t'::('i'::('o'::('n'::('R'::('e'::('s'::('e'::('t'::('E'::('r'::('r'::('o'::('r'::[])))))))))))))))))))),
    ('b'::('u'::('i'::('l'::('t'::('i'::('n'::('s'::[]))))))))) :: ((('D'::('e'::('p'::('r'::('e'::('c'::('a'::('t'::('i'::('o'::('n'::('W'::('a'::('r'::('n'::('i'::('n'::('g'::[])))))))))))))))))),
    ('b'::('u'::('i'::('l'::('t'::('i'::('n'::('s'::[]))))))))) :: ((('E'::('O'::('F'::('E'::('r'::('r'::('o'::('r'::[])))))))),
    ('b'::('u'::('i'::('l'::('t'::('i'::('n'::('s'::[]))))))))) :: ((('E'::('l'::('l'::('i'::('p'::('s'::('i'::('s'::[])))))))),
    ('-'::[])) :: ((('E'::('n'::('c'::('o'::('d'::('i'::('n'::('g'::('W'::('a'::('r'::('n'::('i'::('n'::('g'::[]))))))))))))))),
    ('b'::('u'::('i'::('l'::('t'::('i'::('n'::('s'::[]))))))))) :: ((('E'::('n'::('v'::('i'::('r'::('o'::('n'::('m'::('e'::('n'::('t'::('E'::('r'::('r'::('o'::('r'::[])))))))))))))))),
    ('b'::('u'::('i'::('l'::('t'::('i'::('n'::('s'::[]))))))))) :: ((('E'::('x'::('c'::('e'::('p'::('t'::('i'::('o'::('n'::[]))))))))),
    ('b'::('u'::('i'::('l'::('t'::('i'::('n'::('s'::[]))))))))) :: ((('E'::('x'::('c'::('e'::('p'::('t'::('i'::('o'::('n'::('G'::('r'::('o'::('u'::('p'::[])))))))))))))),
    ('b'::('u'::('i'::('l'::('t'::('i'::('n'::('s'::[]))))))))) :: ((('F'::('a'::('l'::('s'::('e'::[]))))),
    ('-'::[])) :: ((('F'::('i'::('l'::('e'::('E'::('x'::('i'::('s'::('t'::('s'::('E'::('r'::('r'::('o'::('r'::[]))))))))))))))),
    ('b'::('u'::('i'::('l'::('t'::('i'::('n'::('s'::[]))))))))) :: ((('F'::('i'::('l'::('e'::('N'::('o'::('t'::('F'::('o'::('u'::('n'::('d'::('E'::('r'::('r'::('o'::('r'::[]))))))))))))))))),
    ('b'::('u'::('i'::('l'::('t'::('i'::('n'::('s'::[]))))))))) :: ((('F'::('l'::('o'::('a'::('t'::('i'::('n'::('g'::('P'::('o'::('i'::('n'::('t'::('E'::('r'::('r'::('o'::('r'::[])))))))))))))))))),
    ('b'::('u'::('i'::('l'::('t'::('i'::('n'::('s'::[]))))))))) :: ((('F'::('u'::('t'::('u'::('r'::('e'::('W'::('a'::('r'::('n'::('i'::('n'::('g'::[]))))))))))))),
    ('b'::('u'::('i'::('l'::('t'::('i'::('n'::('s'::[]))))))))) :: ((('G'::('e'::('n'::('e'::('r'::('a'::('t'::('o'::('r'::('E'::('x'::('i'::('t'::[]))))))))))))),
    ('b'::('u'::('i'::('l'::('t'::('i'::('n'::('s'::[]))))))))) :: ((('I'::('O'::('E'::('r'::('r'::('o'::('r'::[]))))))),
    ('b'::('u'::('i'::('l'::('t'::('i'::('n'::('s'::[]))))))))) :: ((('I'::('m'::('p'::('o'::('r'::('t'::('E'::('r'::('r'::('o'::('r'::[]))))))))))),
    ('b'::('u'::('i'::('l'::('t'::('i'::('n'::('s'::[]))))))))) :: ((('I'::('m'::('p'::('o'::('r'::('t'::('W'::('a'::('r'::('n'::('i'::('n'::('g'::[]))))))))))))),
    ('b'::('u'::('i'::('l'::('t'::('i'::('n'::('s'::[]))))))))) :: ((('I'::('n'::('d'::('e'::('n'::('t'::('a'::('t'::('i'::('o'::('n'::('E'::('r'::('r'::('o'::('r'::[])))))))))))))))),
    ('b'::('u'::('i'::('l'::('t'::('i'::('n'::('s'::[]))))))))) :: ((('I'::('n'::('d'::('e'::('x'::('E'::('r'::('r'::('o'::('r'::[])))))))))),
    ('b'::('u'::('i'::('l'::('t'::('i'::('n'::('s'::[]))))))))) :: ((('I'::('n'::('t'::('e'::('r'::('r'::('u'::('p'::('t'::('e'::('d'::('E'::('r'::('r'::('o'::('r'::[])))))))))))))))),
    ('b'::('u'::('i'::('l'::('t'::('i'::('n'::('s'::[]))))))))) :: ((('I'::('s'::('A'::('D'::('i'::('r'::('e'::('c'::('t'::('o'::('r'::('y'::('E'::('r'::('r'::('o'::('r'::[]))))))))))))))))),
    ('b'::('u'::('i'::('l'::('t'::('i'::('n'::('s'::[]))))))))) :: ((('K'::('e'::('y'::('E'::('r'::('r'::('o'::('r'::[])))))))),
    ('b'::('u'::('i'::('l'::('t'::('i'::('n'::('s'::[]))))))))) :: ((('K'::('e'::('y'::('b'::('o'::('a'::('r'::('d'::('I'::('n'::('t'::('e'::('r'::('r'::('u'::('p'::('t'::[]))))))))))))))))),
    ('b'::('u'::('i'::('l'::('t'::('i'::('n'::('s'::[]))))))))) :: ((('L'::('o'::('o'::('k'::('u'::('p'::('E'::('r'::('r'::('o'::('r'::[]))))))))))),
    ('b'::('u'::('i'::('l'::('t'::('i'::('n'::('s'::[]))))))))) :: ((('M'::('e'::('m'::('o'::('r'::('y'::('E'::('r'::('r'::('o'::('r'::[]))))))))))),
    ('b'::('u'::('i'::('l'::('t'::('i'::('n'::('s'::[]))))))))) :: ((('M'::('o'::('d'::('u'::('l'::('e'::('N'::('o'::('t'::('F'::('o'::('u'::('n'::('d'::('E'::('r'::('r'::('o'::('r'::[]))))))))))))))))))),
    ('b'::('u'::('i'::('l'::('t'::('i'::('n'::('s'::[]))))))))) :: ((('N'::('a'::('m'::('e'::('E'::('r'::('r'::('o'::('r'::[]))))))))),
    ('b'::('u'::('i'::('l'::('t'::('i'::('n'::('s'::[]))))))))) :: ((('N'::('o'::('n'::('e'::[])))),
    ('-'::[])) :: ((('N'::('o'::('t'::('A'::('D'::('i'::('r'::('e'::('c'::('t'::('o'::('r'::('y'::('E'::('r'::('r'::('o'::('r'::[])))))))))))))))))),
    ('b'::('u'::('i'::('l'::('t'::('i'::('n'::('s'::[]))))))))) :: ((('N'::('o'::('t'::('I'::('m'::('p'::('l'::('e'::('m'::('e'::('n'::('t'::('e'::('d'::[])))))))))))))),
    ('-'::[])) :: ((('N'::('o'::('t'::('I'::('m'::('p'::('l'::('e'::('m'::('e'::('n'::('t'::('e'::('d'::('E'::('r'::('r'::('o'::('r'::[]))))))))))))))))))),
    ('b'::('u'::('i'::('l'::('t'::('i'::('n'::('s'::[]))))))))) :: ((('O'::('S'::('E'::('r'::('r'::('o'::('r'::[]))))))),
    ('b'::('u'::('i'::('l'::('t'::('i'::('n'::('s'::[]))))))))) :: ((('O'::('v'::('e'::('r'::('f'::('l'::('o'::('w'::('E'::('r'::('r'::('o'::('r'::[]))))))))))))),
    ('b'::('u'::('i'::('l'::('t'::('i'::('n'::('s'::[]))))))))) :: ((('P'::('e'::('n'::('d'::('i'::('n'::('g'::('D'::('e'::('p'::('r'::('e'::('c'::('a'::('t'::('i'::('o'::('n'::('W'::('a'::('r'::('n'::('i'::('n'::('g'::[]))))))))))))))))))))))))),
    ('b'::('u'::('i'::('l'::('t'::('i'::('n'::('s'::[]))))))))) :: ((('P'::('e'::('r'::('m'::('i'::('s'::('s'::('i'::('o'::('n'::('E'::('r'::('r'::('o'::('r'::[]))))))))))))))),
    ('b'::('u'::('i'::('l'::('t'::('i'::('n'::('s'::[]))))))))) :: ((('P'::('r'::('o'::('c'::('e'::('s'::('s'::('L'::('o'::('o'::('k'::('u'::('p'::('E'::('r'::('r'::('o'::('r'::[])))))))))))))))))),
    ('b'::('u'::('i'::('l'::('t'::('i'::('n'::('s'::[]))))))))) :: ((('R'::('e'::('c'::('u'::('r'::('s'::('i'::('o'::('n'::('E'::('r'::('r'::('o'::('r'::[])))))))))))))),
    ('b'::('u'::('i'::('l'::('t'::('i'::('n'::('s'::[]))))))))) :: ((('R'::('e'::('f'::('e'::('r'::('e'::('n'::('c'::('e'::('E'::('r'::('r'::('o'::('r'::[])))))))))))))),
    ('b'::('u'::('i'::('l'::('t'::('i'::('n'::('s'::[]))))))))) :: ((('R'::('e'::('s'::('o'::('u'::('r'::('c'::('e'::('W'::('a'::('r'::('n'::('i'::('n'::('g'::[]))))))))))))))),
    ('b'::('u'::('i'::('l'::('t'::('i'::('n'::('s'::[]))))))))) :: ((('R'::('u'::('n'::('t'::('i'::('m'::('e'::('E'::('r'::('r'::('o'::('r'::[])))))))))))),
    ('b'::('u'::('i'::('l'::('t'::('i'::('n'::('s'::[]))))))))) :: ((('R'::('u'::('n'::('t'::('i'::('m'::('e'::('W'::('a'::('r'::('n'::('i'::('n'::('g'::[])))))))))))))),
    ('b'::('u'::('i'::('l'::('t'::('i'::('n'::('s'::[]))))))))) :: ((('S'::('t'::('o'::('p'::('A'::('s'::('y'::('n'::('c'::('I'::('t'::('e'::('r'::('a'::('t'::('i'::('o'::('n'::[])))))))))))))))))),
    ('b'::('u'::('i'::('l'::('t'::('i'::('n'::('s'::[]))))))))) :: ((('S'::('t'::('o'::('p'::('I'::('t'::('e'::('r'::('a'::('t'::('i'::('o'::('n'::[]))))))))))))),
    ('b'::('u'::('i'::('l'::('t'::('i'::('n'::('s'::[]))))))))) :: ((('S'::('y'::('n'::('t'::('a'::('x'::('E'::('r'::('r'::('o'::('r'::[]))))))))))),
    ('b'::('u'::('i'::('l'::('t'::('i'::('n'::('s'::[]))))))))) :: ((('S'::('y'::('n'::('t'::('a'::('x'::('W'::('a'::('r'::('n'::('i'::('n'::('g'::[]))))))))))))),
    ('b'::('u'::('i'::('l'::('t'::('i'::('n'::('s'::[]))))))))) :: ((('S'::('y'::('s'::('t'::('e'::('m'::('E'::('r'::('r'::('o'::('r'::[]))))))))))),
    ('b'::('u'::('i'::('l'::('t'::('i'::('n'::('s'::[]))))))))) :: ((('S'::('y'::('s'::('t'::('e'::('m'::('E'::('x'::('i'::('t'::[])))))))))),
    ('b'::('u'::('i'::('l'::('t'::('i'::('n'::('s'::[]))))))))) :: ((('T'::('a'::('b'::('E'::('r'::('r'::('o'::('r'::[])))))))),
    ('b'::('u'::('i'::('l'::('t'::('i'::('n'::('s'::[]))))))))) :: ((('T'::('i'::('m'::('e'::('o'::('u'::('t'::('E'::('r'::('r'::('o'::('r'::[])))))))))))),
    ('b'::('u'::('i'::('l'::('t'::('i'::('n'::('s'::[]))))))))) :: ((('T'::('r'::('u'::('e'::[])))),
    ('-'::[])) :: ((('T'::('y'::('p'::('e'::('E'::('r'::('r'::('o'::('r'::[]))))))))),
    ('b'::('u'::('i'::('l'::('t'::('i'::('n'::('s'::[]))))))))) :: ((('U'::('n'::('b'::('o'::('u'::('n'::('d'::('L'::('o'::('c'::('a'::('l'::('E'::('r'::('r'::('o'::('r'::[]))))))))))))))))),
    ('b'::('u'::('i'::('l'::('t'::('i'::('n'::('s'::[]))))))))) :: ((('U'::('n'::('i'::('c'::('o'::('d'::('e'::('D'::('e'::('c'::('o'::('d'::('e'::('E'::('r'::('r'::('o'::('r'::[])))))))))))))))))),
    ('b'::('u'::('i'::('l'::('t'::('i'::('n'::('s'::[]))))))))) :: ((('U'::('n'::('i'::('c'::('o'::('d'::('e'::('E'::('n'::('c'::('o'::('d'::('e'::('E'::('r'::('r'::('o'::('r'::[])))))))))))))))))),
    ('b'::('u'::('i'::('l'::('t'::('i'::('n'::('s'::[]))))))))) :: ((('U'::('n'::('i'::('c'::('o'::('d'::('e'::('E'::('r'::('r'::('o'::('r'::[])))))))))))),
    ('b'::('u'::('i'::('l'::('t'::('i'::('n'::('s'::[]))))))))) :: ((('U'::('n'::('i'::('c'::('o'::('d'::('e'::('T'::('r'::('a'::('n'::('s'::('l'::('a'::('t'::('e'::('E'::('r'::('r'::('o'::('r'::[]))))))))))))))))))))),
    ('b'::('u'::('i'::('l'::('t'::('i'::('n'::('s'::[]))))))))) :: ((('U'::('n'::('i'::('c'::('o'::('d'::('e'::('W'::('a'::('r'::('n'::('i'::('n'::('g'::[])))))))))))))),
    ('b'::('u'::('i'::('l'::('t'::('i'::('n'::('s'::[]))))))))) :: ((('U'::('s'::('e'::('r'::('W'::('a'::('r'::('n'::('i'::('n'::('g'::[]))))))))))),
    ('b'::('u'::('i'::('l'::('t'::('i'::('n'::('s'::[]))))))))) :: ((('V'::('a'::('l'::('u'::('e'::('E'::('r'::('r'::('o'::('r'::[])))))))))),
    ('b'::('u'::('i'::('l'::('t'::('i'::('n'::('s'::[]))))))))) :: ((('W'::('a'::('r'::('n'::('i'::('n'::('g'::[]))))))),
    ('b'::('u'::('i'::('l'::('t'::('i'::('n'::('s'::[]))))))))) :: ((('Z'::('e'::('r'::('o'::('D'::('i'::('v'::('i'::('s'::('i'::('o'::('n'::('E'::('r'::('r'::('o'::('r'::[]))))))))))))))))),
    ('b'::('u'::('i'::('l'::('t'::('i'::('n'::('s'::[]))))))))) :: ((('_'::('_'::('b'::('u'::('i'::('l'::('d'::('_'::('c'::('l'::('a'::('s'::('s'::('_'::('_'::[]))))))))))))))),
    ('b'::('u'::('i'::('l'::('t'::('i'::('n'::('s'::[]))))))))) :: ((('_'::('_'::('d'::('e'::('b'::('u'::('g'::('_'::('_'::[]))))))))),
    ('-'::[])) :: ((('_'::('_'::('d'::('o'::('c'::('_'::('_'::[]))))))),
    ('-'::[])) :: ((('_'::('_'::('i'::('m'::('p'::('o'::('r'::('t'::('_'::('_'::[])))))))))),
    ('b'::('u'::('i'::('l'::('t'::('i'::('n'::('s'::[]))))))))) :: ((('_'::('_'::('l'::('o'::('a'::('d'::('e'::('r'::('_'::('_'::[])))))))))),
    ('_'::('f'::('r'::('o'::('z'::('e'::('n'::('_'::('i'::('m'::('p'::('o'::('r'::('t'::('l'::('i'::('b'::[])))))))))))))))))) :: ((('_'::('_'::('n'::('a'::('m'::('e'::('_'::('_'::[])))))))),
    ('-'::[])) :: ((('_'::('_'::('p'::('a'::('c'::('k'::('a'::('g'::('e'::('_'::('_'::[]))))))))))),
    ('-'::[])) :: ((('_'::('_'::('s'::('p'::('e'::('c'::('_'::('_'::[])))))))),
    ('_'::('f'::('r'::('o'::('z'::('e'::('n'::('_'::('i'::('m'::('p'::('o'::('r'::('t'::('l'::('i'::('b'::[])))))))))))))))))) :: ((('a'::('b'::('s'::[]))),
    ('b'::('u'::('i'::('l'::('t'::('i'::('n'::('s'::[]))))))))) :: ((('a'::('i'::('t'::('e'::('r'::[]))))),
    ('b'::('u'::('i'::('l'::('t'::('i'::('n'::('s'::[]))))))))) :: ((('a'::('l'::('l'::[]))),
    ('b'::('u'::('i'::('l'::('t'::('i'::('n'::('s'::[]))))))))) :: ((('a'::('n'::('e'::('x'::('t'::[]))))),
    ('b'::('u'::('i'::('l'::('t'::('i'::('n'::('s'::[]))))))))) :: ((('a'::('n'::('y'::[]))),
    ('b'::('u'::('i'::('l'::('t'::('i'::('n'::('s'::[]))))))))) :: ((('a'::('s'::('c'::('i'::('i'::[]))))),
    ('b'::('u'::('i'::('l'::('t'::('i'::('n'::('s'::[]))))))))) :: ((('b'::('i'::('n'::[]))),
    ('b'::('u'::('i'::('l'::('t'::('i'::('n'::('s'::[]))))))))) :: ((('b'::('o'::('o'::('l'::[])))),
    ('b'::('u'::('i'::('l'::('t'::('i'::('n'::('s'::[]))))))))) :: ((('b'::('r'::('e'::('a'::('k'::('p'::('o'::('i'::('n'::('t'::[])))))))))),
    ('b'::('u'::('i'::('l'::('t'::('i'::('n'::('s'::[]))))))))) :: ((('b'::('y'::('t'::('e'::('a'::('r'::('r'::('a'::('y'::[]))))))))),
    ('b'::('u'::('i'::('l'::('t'::('i'::('n'::('s'::[]))))))))) :: ((('b'::('y'::('t'::('e'::('s'::[]))))),
    ('b'::('u'::('i'::('l'::('t'::('i'::('n'::('s'::[]))))))))) :: ((('c'::('a'::('l'::('l'::('a'::('b'::('l'::('e'::[])))))))),
    ('b'::('u'::('i'::('l'::('t'::('i'::('n'::('s'::[]))))))))) :: ((('c'::('h'::('r'::[]))),
    ('b'::('u'::('i'::('l'::('t'::('i'::('n'::('s'::[]))))))))) :: ((('c'::('l'::('a'::('s'::('s'::('m'::('e'::('t'::('h'::('o'::('d'::[]))))))))))),
    ('b'::('u'::('i'::('l'::('t'::('i'::('n'::('s'::[]))))))))) :: ((('c'::('o'::('m'::('p'::('i'::('l'::('e'::[]))))))),
    ('b'::('u'::('i'::('l'::('t'::('i'::('n'::('s'::[]))))))))) :: ((('c'::('o'::('m'::('p'::('l'::('e'::('x'::[]))))))),
    ('b'::('u'::('i'::('l'::('t'::('i'::('n'::('s'::[]))))))))) :: ((('c'::('o'::('p'::('y'::('r'::('i'::('g'::('h'::('t'::[]))))))))),
    ('_'::('s'::('i'::('t'::('e'::('b'::('u'::('i'::('l'::('t'::('i'::('n'::('s'::[])))))))))))))) :: ((('c'::('r'::('e'::('d'::('i'::('t'::('s'::[]))))))),
    ('_'::('s'::('i'::('t'::('e'::('b'::('u'::('i'::('l'::('t'::('i'::('n'::('s'::[])))))))))))))) :: ((('d'::('e'::('l'::('a'::('t'::('t'::('r'::[]))))))),
    ('b'::('u'::('i'::('l'::('t'::('i'::('n'::('s'::[]))))))))) :: ((('d'::('i'::('c'::('t'::[])))),
    ('b'::('u'::('i'::('l'::('t'::('i'::('n'::('s'::[]))))))))) :: ((('d'::('i'::('r'::[]))),
    ('b'::('u'::('i'::('l'::('t'::('i'::('n'::('s'::[]))))))))) :: ((('d'::('i'::('v'::('m'::('o'::('d'::[])))))),
    ('b'::('u'::('i'::('l'::('t'::('i'::('n'::('s'::[]))))))))) :: ((('e'::('n'::('u'::('m'::('e'::('r'::('a'::('t'::('e'::[]))))))))),
    ('b'::('u'::('i'::('l'::('t'::('i'::('n'::('s'::[]))))))))) :: ((('e'::('v'::('a'::('l'::[])))),
    ('b'::('u'::('i'::('l'::('t'::('i'::('n'::('s'::[]))))))))) :: ((('e'::('x'::('e'::('c'::[])))),
    ('b'::('u'::('i'::('l'::('t'::('i'::('n'::('s'::[]))))))))) :: ((('e'::('x'::('i'::('t'::[])))),
    ('_'::('s'::('i'::('t'::('e'::('b'::('u'::('i'::('l'::('t'::('i'::('n'::('s'::[])))))))))))))) :: ((('f'::('i'::('l'::('t'::('e'::('r'::[])))))),
    ('b'::('u'::('i'::('l'::('t'::('i'::('n'::('s'::[]))))))))) :: ((('f'::('l'::('o'::('a'::('t'::[]))))),
    ('b'::('u'::('i'::('l'::('t'::('i'::('n'::('s'::[]))))))))) :: ((('f'::('o'::('r'::('m'::('a'::('t'::[])))))),
    ('b'::('u'::('i'::('l'::('t'::('i'::('n'::('s'::[]))))))))) :: ((('f'::('r'::('o'::('z'::('e'::('n'::('s'::('e'::('t'::[]))))))))),
    ('b'::('u'::('i'::('l'::('t'::('i'::('n'::('s'::[]))))))))) :: ((('g'::('e'::('t'::('a'::('t'::('t'::('r'::[]))))))),
    ('b'::('u'::('i'::('l'::('t'::('i'::('n'::('s'::[]))))))))) :: ((('g'::('l'::('o'::('b'::('a'::('l'::('s'::[]))))))),
    ('b'::('u'::('i'::('l'::('t'::('i'::('n'::('s'::[]))))))))) :: ((('h'::('a'::('s'::('a'::('t'::('t'::('r'::[]))))))),
    ('b'::('u'::('i'::('l'::('t'::('i'::('n'::('s'::[]))))))))) :: ((('h'::('a'::('s'::('h'::[])))),
    ('b'::('u'::('i'::('l'::('t'::('i'::('n'::('s'::[]))))))))) :: ((('h'::('e'::('l'::('p'::[])))),
    ('_'::('s'::('i'::('t'::('e'::('b'::('u'::('i'::('l'::('t'::('i'::('n'::('s'::[])))))))))))))) :: ((('h'::('e'::('x'::[]))),
    ('b'::('u'::('i'::('l'::('t'::('i'::('n'::('s'::[]))))))))) :: ((('i'::('d'::[])),
    ('b'::('u'::('i'::('l'::('t'::('i'::('n'::('s'::[]))))))))) :: ((('i'::('n'::('p'::('u'::('t'::[]))))),
    ('b'::('u'::('i'::('l'::('t'::('i'::('n'::('s'::[]))))))))) :: ((('i'::('n'::('t'::[]))),
    ('b'::('u'::('i'::('l'::('t'::('i'::('n'::('s'::[]))))))))) :: ((('i'::('s'::('i'::('n'::('s'::('t'::('a'::('n'::('c'::('e'::[])))))))))),
    ('b'::('u'::('i'::('l'::('t'::('i'::('n'::('s'::[]))))))))) :: ((('i'::('s'::('s'::('u'::('b'::('c'::('l'::('a'::('s'::('s'::[])))))))))),
    ('b'::('u'::('i'::('l'::('t'::('i'::('n'::('s'::[]))))))))) :: ((('i'::('t'::('e'::('r'::[])))),
    ('b'::('u'::('i'::('l'::('t'::('i'::('n'::('s'::[]))))))))) :: ((('l'::('e'::('n'::[]))),
    ('b'::('u'::('i'::('l'::('t'::('i'::('n'::('s'::[]))))))))) :: ((('l'::('i'::('c'::('e'::('n'::('s'::('e'::[]))))))),
    ('_'::('s'::('i'::('t'::('e'::('b'::('u'::('i'::('l'::('t'::('i'::('n'::('s'::[])))))))))))))) :: ((('l'::('i'::('s'::('t'::[])))),
    ('b'::('u'::('i'::('l'::('t'::('i'::('n'::('s'::[]))))))))) :: ((('l'::('o'::('c'::('a'::('l'::('s'::[])))))),
    ('b'::('u'::('i'::('l'::('t'::('i'::('n'::('s'::[]))))))))) :: ((('m'::('a'::('p'::[]))),
    ('b'::('u'::('i'::('l'::('t'::('i'::('n'::('s'::[]))))))))) :: ((('m'::('a'::('x'::[]))),
    ('b'::('u'::('i'::('l'::('t'::('i'::('n'::('s'::[]))))))))) :: ((('m'::('e'::('m'::('o'::('r'::('y'::('v'::('i'::('e'::('w'::[])))))))))),
    ('b'::('u'::('i'::('l'::('t'::('i'::('n'::('s'::[]))))))))) :: ((('m'::('i'::('n'::[]))),
    ('b'::('u'::('i'::('l'::('t'::('i'::('n'::('s'::[]))))))))) :: ((('n'::('e'::('x'::('t'::[])))),
    ('b'::('u'::('i'::('l'::('t'::('i'::('n'::('s'::[]))))))))) :: ((('o'::('b'::('j'::('e'::('c'::('t'::[])))))),
    ('b'::('u'::('i'::('l'::('t'::('i'::('n'::('s'::[]))))))))) :: ((('o'::('c'::('t'::[]))),
    ('b'::('u'::('i'::('l'::('t'::('i'::('n'::('s'::[]))))))))) :: ((('o'::('p'::('e'::('n'::[])))),
    ('_'::('i'::('o'::[])))) :: ((('o'::('r'::('d'::[]))),
    ('b'::('u'::('i'::('l'::('t'::('i'::('n'::('s'::[]))))))))) :: ((('p'::('o'::('w'::[]))),
    ('b'::('u'::('i'::('l'::('t'::('i'::('n'::('s'::[]))))))))) :: ((('p'::('r'::('i'::('n'::('t'::[]))))),
    ('b'::('u'::('i'::('l'::('t'::('i'::('n'::('s'::[]))))))))) :: ((('p'::('r'::('o'::('p'::('e'::('r'::('t'::('y'::[])))))))),
    ('b'::('u'::('i'::('l'::('t'::('i'::('n'::('s'::[]))))))))) :: ((('q'::('u'::('i'::('t'::[])))),
    ('_'::('s'::('i'::('t'::('e'::('b'::('u'::('i'::('l'::('t'::('i'::('n'::('s'::[])))))))))))))) :: ((('r'::('a'::('n'::('g'::('e'::[]))))),
    ('b'::('u'::('i'::('l'::('t'::('i'::('n'::('s'::[]))))))))) :: ((('r'::('e'::('p'::('r'::[])))),
    ('b'::('u'::('i'::('l'::('t'::('i'::('n'::('s'::[]))))))))) :: ((('r'::('e'::('v'::('e'::('r'::('s'::('e'::('d'::[])))))))),
    ('b'::('u'::('i'::('l'::('t'::('i'::('n'::('s'::[]))))))))) :: ((('r'::('o'::('u'::('n'::('d'::[]))))),
    ('b'::('u'::('i'::('l'::('t'::('i'::('n'::('s'::[]))))))))) :: ((('s'::('e'::('t'::[]))),
    ('b'::('u'::('i'::('l'::('t'::('i'::('n'::('s'::[]))))))))) :: ((('s'::('e'::('t'::('a'::('t'::('t'::('r'::[]))))))),
    ('b'::('u'::('i'::('l'::('t'::('i'::('n'::('s'::[]))))))))) :: ((('s'::('l'::('i'::('c'::('e'::[]))))),
    ('b'::('u'::('i'::('l'::('t'::('i'::('n'::('s'::[]))))))))) :: ((('s'::('o'::('r'::('t'::('e'::('d'::[])))))),
    ('b'::('u'::('i'::('l'::('t'::('i'::('n'::('s'::[]))))))))) :: ((('s'::('t'::('a'::('t'::('i'::('c'::('m'::('e'::('t'::('h'::('o'::('d'::[])))))))))))),
    ('b'::('u'::('i'::('l'::('t'::('i'::('n'::('s'::[]))))))))) :: ((('s'::('t'::('r'::[]))),
    ('b'::('u'::('i'::('l'::('t'::('i'::('n'::('s'::[]))))))))) :: ((('s'::('u'::('m'::[]))),
    ('b'::('u'::('i'::('l'::('t'::('i'::('n'::('s'::[]))))))))) :: ((('s'::('u'::('p'::('e'::('r'::[]))))),
    ('b'::('u'::('i'::('l'::('t'::('i'::('n'::('s'::[]))))))))) :: ((('t'::('u'::('p'::('l'::('e'::[]))))),
    ('b'::('u'::('i'::('l'::('t'::('i'::('n'::('s'::[]))))))))) :: ((('t'::('y'::('p'::('e'::[])))),
    ('b'::('u'::('i'::('l'::('t'::('i'::('n'::('s'::[]))))))))) :: ((('v'::('a'::('r'::('s'::[])))),
    ('b'::('u'::('i'::('l'::('t'::('i'::('n'::('s'::[]))))))))) :: ((('z'::('i'::('p'::[]))),
    ('b'::('u'::('i'::('l'::('t'::('i'::('n'::('s'::[]))))))))) :: []))))))))))))))))))))))))))))))))))))))))))))))))))))))))))))))))))))))))))))))))))))))))))))))))))))))))))))))))))))))))))))))))))))))))))))))))))))))))))))

(** val documented : char list list **)

let documented =
  ('s'::('i'::('n'::[]))) :: (('c'::('o'::('s'::[]))) :: (('t'::('a'::('n'::[]))) :: (('a'::('c'::('o'::('s'::[])))) :: (('a'::('s'::('i'::('n'::[])))) :: (('a'::('t'::('a'::('n'::[])))) :: (('a'::('t'::('a'::('n'::('2'::[]))))) :: (('s'::('i'::('n'::('h'::[])))) :: (('c'::('o'::('s'::('h'::[])))) :: (('t'::('a'::('n'::('h'::[])))) :: (('a'::('s'::('i'::('n'::('h'::[]))))) :: (('a'::('c'::('o'::('s'::('h'::[]))))) :: (('a'::('t'::('a'::('n'::('h'::[]))))) :: (('e'::('x'::('p'::[]))) :: (('l'::('d'::('e'::('x'::('p'::[]))))) :: (('l'::('o'::('g'::[]))) :: (('l'::('n'::[])) :: (('l'::('o'::('g'::('1'::('0'::[]))))) :: (('e'::('x'::('p'::('2'::[])))) :: (('e'::('x'::('p'::('m'::('1'::[]))))) :: (('i'::('l'::('o'::('g'::('b'::[]))))) :: (('l'::('o'::('g'::('1'::('p'::[]))))) :: (('l'::('o'::('g'::('2'::[])))) :: (('s'::('c'::('a'::('l'::('b'::('n'::[])))))) :: (('s'::('c'::('a'::('l'::('b'::('l'::('n'::[]))))))) :: (('p'::('o'::('w'::[]))) :: (('s'::('q'::('r'::('t'::[])))) :: (('c'::('b'::('r'::('t'::[])))) :: (('h'::('y'::('p'::('o'::('t'::[]))))) :: (('e'::('r'::('f'::[]))) :: (('e'::('r'::('f'::('c'::[])))) :: (('t'::('g'::('a'::('m'::('m'::('a'::[])))))) :: (('l'::('g'::('a'::('m'::('m'::('a'::[])))))) :: (('c'::('e'::('i'::('l'::[])))) :: (('f'::('l'::('o'::('o'::('r'::[]))))) :: (('f'::('m'::('o'::('d'::[])))) :: (('t'::('r'::('u'::('n'::('c'::[]))))) :: (('r'::('o'::('u'::('n'::('d'::[]))))) :: (('r'::('i'::('n'::('t'::[])))) :: (('n'::('e'::('a'::('r'::('b'::('y'::('i'::('n'::('t'::[]))))))))) :: (('r'::('e'::('m'::('a'::('i'::('n'::('d'::('e'::('r'::[]))))))))) :: (('r'::('e'::('m'::('q'::('u'::('o'::[])))))) :: (('c'::('o'::('p'::('y'::('s'::('i'::('g'::('n'::[])))))))) :: (('n'::('a'::('n'::[]))) :: (('n'::('e'::('x'::('t'::('a'::('f'::('t'::('e'::('r'::[]))))))))) :: (('n'::('e'::('x'::('t'::('t'::('o'::('w'::('a'::('r'::('d'::[])))))))))) :: (('f'::('d'::('i'::('m'::[])))) :: (('f'::('m'::('a'::('x'::[])))) :: (('f'::('m'::('i'::('n'::[])))) :: (('f'::('a'::('b'::('s'::[])))) :: (('a'::('b'::('s'::[]))) :: (('f'::('m'::('a'::[]))) :: [])))))))))))))))))))))))))))))))))))))))))))))))))))

(** val math_env : menv **)

let math_env =
  { e_rows = math_rows; e_module = module_names; e_builtins = builtin_names }

type pyval =
| PStr of char list
| PList of char list list

(** val pyval_eqb : pyval -> pyval -> bool **)

let pyval_eqb a b =
  match a with
  | PStr x -> (match b with
               | PStr y -> eqb0 x y
               | PList _ -> false)
  | PList x -> (match b with
                | PStr _ -> false
                | PList y -> list_str_eqb x y)

(** val lines_of : pyval -> char list list **)

let lines_of = function
| PStr s -> map (fun c -> c::[]) (list_ascii_of_string s)
| PList l -> l

type raw = (char list * pyval) list

(** val lookup : char list -> (char list * 'a1) list -> 'a1 option **)

let rec lookup k = function
| [] -> None
| p :: r -> let (k', v) = p in if eqb0 k k' then Some v else lookup k r

type block = { b_name : pyval; b_vals : (char list * pyval) list }

(** val vals_eqb :
    (char list * pyval) list -> (char list * pyval) list -> bool **)

let rec vals_eqb a b =
  match a with
  | [] -> (match b with
           | [] -> true
           | _ :: _ -> false)
  | p :: a' ->
    let (k, v) = p in
    (match b with
     | [] -> false
     | p0 :: b' ->
       let (k', v') = p0 in
       (&&) ((&&) (eqb0 k k') (pyval_eqb v v')) (vals_eqb a' b'))

(** val block_eqb : block -> block -> bool **)

let block_eqb a b =
  (&&) (pyval_eqb a.b_name b.b_name) (vals_eqb a.b_vals b.b_vals)

(** val mk_block : char list list -> raw -> block result **)

let mk_block fields info0 =
  if forallb (fun kv ->
       mem_str (fst kv) (('n'::('a'::('m'::('e'::[])))) :: fields)) info0
  then (match lookup ('n'::('a'::('m'::('e'::[])))) info0 with
        | Some nm ->
          OK { b_name = nm; b_vals =
            (map (fun f -> (f,
              (match lookup f info0 with
               | Some v -> v
               | None -> PList []))) fields) }
        | None -> Error ErrValue)
  else Error ErrValue

(** val ok_to_add : block -> block list -> bool result **)

let rec ok_to_add spec = function
| [] -> OK true
| b :: r ->
  if pyval_eqb b.b_name spec.b_name
  then if block_eqb b spec then OK false else Error ErrValue
  else ok_to_add spec r

(** val process :
    char list list -> raw list -> block list -> block list result **)

let rec process fields md acc =
  match md with
  | [] -> OK acc
  | info0 :: r ->
    (match info0 with
     | [] -> process fields r acc
     | _ :: _ ->
       (match mk_block fields info0 with
        | OK spec ->
          (match ok_to_add spec acc with
           | OK a ->
             if a
             then process fields r (app acc (spec :: []))
             else process fields r acc
           | Error e -> Error e)
        | Error e -> Error e))

(** val dedup : char list list -> raw list -> block list result **)

let dedup fields md =
  process fields md []

(** val get : char list -> block -> char list list **)

let get f b =
  match lookup f b.b_vals with
  | Some v -> lines_of v
  | None -> []

(** val ib_fetch : char list -> block list -> char list list **)

let ib_fetch f blocks =
  flat_map (get f) blocks

type tnode =
| TText of char list
| TVar of char list
| TFor of char list * char list * tnode list

type genv = char list -> char list list

type lenv = (char list * char list) list

(** val render_node : genv -> lenv -> tnode -> char list **)

let rec render_node g l = function
| TText s -> s
| TVar x -> (match lookup x l with
             | Some v -> v
             | None -> [])
| TFor (x, y, body) ->
  concat_str
    (map (fun v ->
      let rec go = function
      | [] -> []
      | n' :: r -> append (render_node g ((x, v) :: l) n') (go r)
      in go body) (g y))

(** val render_nodes : genv -> lenv -> tnode list -> char list **)

let rec render_nodes g l = function
| [] -> []
| n0 :: r -> append (render_node g l n0) (render_nodes g l r)

(** val render : tnode list -> genv -> char list **)

let render t g =
  render_nodes g [] t

type source =
| SrcQv of char list
| SrcProp of char list

type backend = { be_name : char list; be_extra_keys : char list list;
                 be_templates : (char list * tnode list) list }

type config = { c_fields : char list list;
                c_props : (char list * char list) list;
                c_wiring : (char list * source list) list;
                c_backends : backend list }

type qenv = char list -> char list list

(** val source_val :
    config -> qenv -> block list -> source -> char list list **)

let source_val c q blocks = function
| SrcQv e -> q e
| SrcProp p ->
  (match lookup p c.c_props with
   | Some f -> ib_fetch f blocks
   | None -> [])

(** val info : config -> backend -> qenv -> block list -> genv **)

let info c be q blocks key =
  if mem_str key be.be_extra_keys
  then q key
  else (match lookup key c.c_wiring with
        | Some srcs -> flat_map (source_val c q blocks) srcs
        | None -> [])

(** val find_backend : config -> char list -> backend option **)

let find_backend c name =
  find (fun be -> eqb0 be.be_name name) c.c_backends

(** val package :
    config -> backend -> qenv -> raw list -> (char list * char list) list
    result **)

let package c be q md =
  match dedup c.c_fields md with
  | OK blocks ->
    OK
      (map (fun ft -> ((fst ft), (render (snd ft) (info c be q blocks))))
        be.be_templates)
  | Error e -> Error e

type slot = { sl_pre : tnode list; sl_x : char list; sl_body : tnode list;
              sl_post : tnode list }

(** val find_slot : char list -> tnode list -> slot option **)

let rec find_slot y = function
| [] -> None
| n0 :: r ->
  (match n0 with
   | TFor (x, y', body) ->
     if eqb0 y y'
     then Some { sl_pre = []; sl_x = x; sl_body = body; sl_post = r }
     else option_map (fun s -> { sl_pre = ((TFor (x, y', body)) :: s.sl_pre);
            sl_x = s.sl_x; sl_body = s.sl_body; sl_post = s.sl_post })
            (find_slot y r)
   | _ ->
     option_map (fun s -> { sl_pre = (n0 :: s.sl_pre); sl_x = s.sl_x;
       sl_body = s.sl_body; sl_post = s.sl_post }) (find_slot y r))

(** val uses_node : char list -> tnode -> bool **)

let rec uses_node y = function
| TFor (_, y', body) ->
  (||) (eqb0 y y')
    (let rec go = function
     | [] -> false
     | n' :: r -> (||) (uses_node y n') (go r)
     in go body)
| _ -> false

(** val uses : char list -> tnode list -> bool **)

let rec uses y = function
| [] -> false
| n0 :: r -> (||) (uses_node y n0) (uses y r)

(** val flat_body : char list -> tnode list -> bool **)

let flat_body x body =
  forallb (fun n0 ->
    match n0 with
    | TText _ -> true
    | TVar z -> eqb0 z x
    | TFor (_, _, _) -> false) body

(** val static_text : tnode list -> char list **)

let rec static_text = function
| [] -> []
| t :: r ->
  (match t with
   | TText s -> append s (static_text r)
   | _ -> static_text r)

(** val keys_of_field : config -> char list -> char list list **)

let keys_of_field c f =
  flat_map (fun kw ->
    if existsb (fun s ->
         match s with
         | SrcQv _ -> false
         | SrcProp p ->
           (match lookup p c.c_props with
            | Some f' -> eqb0 f f'
            | None -> false)) (snd kw)
    then (fst kw) :: []
    else []) c.c_wiring

(** val split_last_prop :
    config -> char list -> source list -> char list list option **)

let rec split_last_prop c f = function
| [] -> None
| s :: r ->
  (match s with
   | SrcQv e -> option_map (fun x -> e :: x) (split_last_prop c f r)
   | SrcProp p ->
     (match r with
      | [] ->
        (match lookup p c.c_props with
         | Some f' -> if eqb0 f f' then Some [] else None
         | None -> None)
      | _ :: _ -> None))

(** val key_shape :
    config -> char list -> char list -> char list list option **)

let key_shape c f key =
  match lookup key c.c_wiring with
  | Some srcs -> split_last_prop c f srcs
  | None -> None

(** val slot_of :
    config -> backend -> char list ->
    (((char list * char list) * slot) * char list list) option **)

let slot_of c be f =
  match keys_of_field c f with
  | [] -> None
  | key :: l ->
    (match l with
     | [] ->
       if mem_str key be.be_extra_keys
       then None
       else (match key_shape c f key with
             | Some qs ->
               (match filter (fun ft -> uses key (snd ft)) be.be_templates with
                | [] -> None
                | p :: l0 ->
                  let (file, _) = p in
                  (match l0 with
                   | [] ->
                     (match lookup file be.be_templates with
                      | Some t ->
                        (match find_slot key t with
                         | Some s ->
                           if (&&)
                                ((&&)
                                  ((&&) (negb (uses key s.sl_pre))
                                    (negb (uses key s.sl_body)))
                                  (negb (uses key s.sl_post)))
                                (flat_body s.sl_x s.sl_body)
                           then Some (((file, key), s), qs)
                           else None
                         | None -> None)
                      | None -> None)
                   | _ :: _ -> None))
             | None -> None)
     | _ :: _ -> None)

(** val wrap_parts : slot -> (char list * char list) option **)

let wrap_parts s =
  match s.sl_body with
  | [] -> None
  | t :: l ->
    (match t with
     | TText a ->
       (match l with
        | [] -> None
        | t0 :: l0 ->
          (match t0 with
           | TVar _ ->
             (match l0 with
              | [] -> Some (a, [])
              | t1 :: l1 ->
                (match t1 with
                 | TText b ->
                   (match l1 with
                    | [] -> Some (a, b)
                    | _ :: _ -> None)
                 | _ -> None))
           | _ -> None))
     | TVar _ ->
       (match l with
        | [] -> Some ([], [])
        | t0 :: l0 ->
          (match t0 with
           | TText b -> (match l0 with
                         | [] -> Some ([], b)
                         | _ :: _ -> None)
           | _ -> None))
     | TFor (_, _, _) -> None)

(** val d_pyval : sexp -> pyval option **)

let d_pyval = function
| SAtom _ -> None
| SList l0 ->
  (match l0 with
   | [] -> None
   | s0 :: l1 ->
     (match s0 with
      | SAtom s1 ->
        (match s1 with
         | [] -> None
         | a::s2 ->
           (* If this appears, you're using Ascii internals. Please don't *)
 (fun f c ->
  let n = Char.code c in
  let h i = (n land (1 lsl i)) <> 0 in
  f (h 0) (h 1) (h 2) (h 3) (h 4) (h 5) (h 6) (h 7))
             (fun b b0 b1 b2 b3 b4 b5 b6 ->
             if b
             then if b0
                  then if b1
                       then None
                       else if b2
                            then None
                            else if b3
                                 then if b4
                                      then if b5
                                           then if b6
                                                then None
                                                else (match s2 with
                                                      | [] ->
                                                        (match l1 with
                                                         | [] -> None
                                                         | s3 :: l ->
                                                           (match s3 with
                                                            | SAtom v ->
                                                              (match l with
                                                               | [] ->
                                                                 Some (PStr v)
                                                               | _ :: _ ->
                                                                 None)
                                                            | SList _ -> None))
                                                      | _::_ -> None)
                                           else None
                                      else None
                                 else None
                  else None
             else if b0
                  then None
                  else if b1
                       then if b2
                            then if b3
                                 then None
                                 else if b4
                                      then if b5
                                           then if b6
                                                then None
                                                else (match s2 with
                                                      | [] ->
                                                        (match l1 with
                                                         | [] -> None
                                                         | l :: l2 ->
                                                           (match l2 with
                                                            | [] ->
                                                              option_map
                                                                (fun x ->
                                                                PList x)
                                                                (d_strs l)
                                                            | _ :: _ -> None))
                                                      | _::_ -> None)
                                           else None
                                      else None
                            else None
                       else None)
             a)
      | SList _ -> None))

(** val d_kv : sexp -> (char list * pyval) option **)

let d_kv = function
| SAtom _ -> None
| SList l ->
  (match l with
   | [] -> None
   | s0 :: l0 ->
     (match s0 with
      | SAtom k ->
        (match l0 with
         | [] -> None
         | v :: l1 ->
           (match l1 with
            | [] -> option_map (fun v' -> (k, v')) (d_pyval v)
            | _ :: _ -> None))
      | SList _ -> None))

(** val d_raw : sexp -> raw option **)

let d_raw = function
| SAtom _ -> None
| SList l -> d_list d_kv l

(** val d_md : sexp -> raw list option **)

let d_md = function
| SAtom _ -> None
| SList l -> d_list d_raw l

(** val d_qenv : sexp -> qenv option **)

let d_qenv = function
| SAtom _ -> None
| SList l ->
  option_map (fun kvs k -> match lookup k kvs with
                           | Some v -> v
                           | None -> [])
    (d_list (fun e ->
      match e with
      | SAtom _ -> None
      | SList l0 ->
        (match l0 with
         | [] -> None
         | s0 :: l1 ->
           (match s0 with
            | SAtom k ->
              (match l1 with
               | [] -> None
               | v :: l2 ->
                 (match l2 with
                  | [] -> option_map (fun v' -> (k, v')) (d_strs v)
                  | _ :: _ -> None))
            | SList _ -> None))) l)

(** val s_pyval : pyval -> sexp **)

let s_pyval = function
| PStr s -> SList ((SAtom ('s'::[])) :: ((SAtom s) :: []))
| PList l -> SList ((SAtom ('l'::[])) :: ((s_strs l) :: []))

(** val s_block : block -> sexp **)

let s_block b =
  SList ((s_pyval b.b_name) :: ((SList
    (map (fun kv -> SList ((SAtom (fst kv)) :: ((s_pyval (snd kv)) :: [])))
      b.b_vals)) :: []))

(** val run_package : config -> sexp -> sexp **)

let run_package c = function
| SAtom _ -> bad_input
| SList l ->
  (match l with
   | [] -> bad_input
   | s0 :: l0 ->
     (match s0 with
      | SAtom bn ->
        (match l0 with
         | [] -> bad_input
         | qs :: l1 ->
           (match l1 with
            | [] -> bad_input
            | mds :: l2 ->
              (match l2 with
               | [] ->
                 (match find_backend c bn with
                  | Some be ->
                    (match d_qenv qs with
                     | Some q ->
                       (match d_md mds with
                        | Some md ->
                          s_result (fun fs -> SList
                            (map (fun ft -> SList ((SAtom
                              (fst ft)) :: ((SAtom (snd ft)) :: []))) fs))
                            (package c be q md)
                        | None -> bad_input)
                     | None -> bad_input)
                  | None -> bad_input)
               | _ :: _ -> bad_input)))
      | SList _ -> bad_input))

(** val run_dedup : config -> sexp -> sexp **)

let run_dedup c s =
  match d_md s with
  | Some md ->
    s_result (fun bs -> SList (map s_block bs)) (dedup c.c_fields md)
  | None -> bad_input

(** val run_slots : config -> sexp -> sexp **)

let run_slots c _ =
  SList
    (map (fun be -> SList ((SAtom be.be_name) :: ((SList
      (map (fun f ->
        match slot_of c be f with
        | Some p ->
          let (p0, qs) = p in
          let (p1, s) = p0 in
          let (file, key) = p1 in
          SList ((SAtom f) :: ((SAtom file) :: ((SAtom
          key) :: ((s_strs qs) :: ((SAtom
          (match wrap_parts s with
           | Some p2 -> let (a, _) = p2 in a
           | None -> '?'::[])) :: ((SAtom
          (match wrap_parts s with
           | Some p2 -> let (_, b) = p2 in b
           | None -> '?'::[])) :: ((SAtom (static_text s.sl_pre)) :: ((SAtom
          (static_text s.sl_post)) :: []))))))))
        | None -> SList ((SAtom f) :: [])) c.c_fields)) :: []))) c.c_backends)

(** val inject_fields : char list list **)

let inject_fields =
  ('b'::('o'::('d'::('y'::('_'::('i'::('n'::('c'::('l'::('u'::('d'::('e'::('s'::[]))))))))))))) :: (('h'::('e'::('a'::('d'::('e'::('r'::('_'::('i'::('n'::('c'::('l'::('u'::('d'::('e'::('s'::[]))))))))))))))) :: (('p'::('r'::('i'::('v'::('a'::('t'::('e'::('_'::('m'::('e'::('m'::('b'::('e'::('r'::('s'::[]))))))))))))))) :: (('i'::('n'::('s'::('t'::('a'::('n'::('c'::('e'::('_'::('i'::('n'::('i'::('t'::('i'::('a'::('l'::('i'::('z'::('a'::('t'::('i'::('o'::('n'::[]))))))))))))))))))))))) :: (('c'::('t'::('o'::('r'::('_'::('l'::('i'::('n'::('e'::('s'::[])))))))))) :: (('i'::('n'::('i'::('t'::('i'::('a'::('l'::('i'::('z'::('e'::('_'::('l'::('i'::('n'::('e'::('s'::[])))))))))))))))) :: (('l'::('i'::('n'::('k'::('_'::('l'::('i'::('b'::('r'::('a'::('r'::('i'::('e'::('s'::[])))))))))))))) :: []))))))

(** val ib_props : (char list * char list) list **)

let ib_props =
  (('b'::('o'::('d'::('y'::('_'::('i'::('n'::('c'::('l'::('u'::('d'::('e'::('_'::('f'::('i'::('l'::('e'::('s'::[])))))))))))))))))),
    ('b'::('o'::('d'::('y'::('_'::('i'::('n'::('c'::('l'::('u'::('d'::('e'::('s'::[])))))))))))))) :: ((('h'::('e'::('a'::('d'::('e'::('r'::('_'::('i'::('n'::('c'::('l'::('u'::('d'::('e'::('_'::('f'::('i'::('l'::('e'::('s'::[])))))))))))))))))))),
    ('h'::('e'::('a'::('d'::('e'::('r'::('_'::('i'::('n'::('c'::('l'::('u'::('d'::('e'::('s'::[])))))))))))))))) :: ((('p'::('r'::('i'::('v'::('a'::('t'::('e'::('_'::('m'::('e'::('m'::('b'::('e'::('r'::('s'::[]))))))))))))))),
    ('p'::('r'::('i'::('v'::('a'::('t'::('e'::('_'::('m'::('e'::('m'::('b'::('e'::('r'::('s'::[])))))))))))))))) :: ((('i'::('n'::('s'::('t'::('a'::('n'::('c'::('e'::('_'::('i'::('n'::('i'::('t'::('i'::('a'::('l'::('i'::('z'::('a'::('t'::('i'::('o'::('n'::[]))))))))))))))))))))))),
    ('i'::('n'::('s'::('t'::('a'::('n'::('c'::('e'::('_'::('i'::('n'::('i'::('t'::('i'::('a'::('l'::('i'::('z'::('a'::('t'::('i'::('o'::('n'::[])))))))))))))))))))))))) :: ((('c'::('t'::('o'::('r'::('_'::('l'::('i'::('n'::('e'::('s'::[])))))))))),
    ('c'::('t'::('o'::('r'::('_'::('l'::('i'::('n'::('e'::('s'::[]))))))))))) :: ((('l'::('i'::('n'::('k'::('_'::('l'::('i'::('b'::('r'::('a'::('r'::('i'::('e'::('s'::[])))))))))))))),
    ('l'::('i'::('n'::('k'::('_'::('l'::('i'::('b'::('r'::('a'::('r'::('i'::('e'::('s'::[]))))))))))))))) :: ((('i'::('n'::('i'::('t'::('i'::('a'::('l'::('i'::('z'::('e'::('_'::('l'::('i'::('n'::('e'::('s'::[])))))))))))))))),
    ('i'::('n'::('i'::('t'::('i'::('a'::('l'::('i'::('z'::('e'::('_'::('l'::('i'::('n'::('e'::('s'::[]))))))))))))))))) :: []))))))

(** val info_wiring : (char list * source list) list **)

let info_wiring =
  (('q'::('u'::('e'::('r'::('y'::('_'::('c'::('o'::('d'::('e'::[])))))))))),
    ((SrcQv
    ('q'::('u'::('e'::('r'::('y'::('_'::('c'::('o'::('d'::('e'::('.'::('l'::('i'::('n'::('e'::('s'::('_'::('o'::('f'::('_'::('q'::('u'::('e'::('r'::('y'::('_'::('c'::('o'::('d'::('e'::('('::(')'::[]))))))))))))))))))))))))))))))))) :: [])) :: ((('c'::('l'::('a'::('s'::('s'::('_'::('d'::('e'::('c'::('l'::[])))))))))),
    ((SrcQv
    ('q'::('v'::('.'::('c'::('l'::('a'::('s'::('s'::('_'::('d'::('e'::('c'::('l'::('a'::('r'::('a'::('t'::('i'::('o'::('n'::('_'::('c'::('o'::('d'::('e'::('('::(')'::[])))))))))))))))))))))))))))) :: [])) :: ((('b'::('o'::('o'::('k'::('_'::('c'::('o'::('d'::('e'::[]))))))))),
    ((SrcQv
    ('b'::('o'::('o'::('k'::('_'::('c'::('o'::('d'::('e'::('.'::('l'::('i'::('n'::('e'::('s'::('_'::('o'::('f'::('_'::('q'::('u'::('e'::('r'::('y'::('_'::('c'::('o'::('d'::('e'::('('::(')'::[])))))))))))))))))))))))))))))))) :: [])) :: ((('b'::('o'::('d'::('y'::('_'::('i'::('n'::('c'::('l'::('u'::('d'::('e'::('_'::('f'::('i'::('l'::('e'::('s'::[])))))))))))))))))),
    ((SrcQv
    ('q'::('v'::('.'::('i'::('n'::('c'::('l'::('u'::('d'::('e'::('_'::('f'::('i'::('l'::('e'::('s'::('('::(')'::[]))))))))))))))))))) :: ((SrcProp
    ('b'::('o'::('d'::('y'::('_'::('i'::('n'::('c'::('l'::('u'::('d'::('e'::('_'::('f'::('i'::('l'::('e'::('s'::[]))))))))))))))))))) :: []))) :: ((('h'::('e'::('a'::('d'::('e'::('r'::('_'::('i'::('n'::('c'::('l'::('u'::('d'::('e'::('_'::('f'::('i'::('l'::('e'::('s'::[])))))))))))))))))))),
    ((SrcProp
    ('h'::('e'::('a'::('d'::('e'::('r'::('_'::('i'::('n'::('c'::('l'::('u'::('d'::('e'::('_'::('f'::('i'::('l'::('e'::('s'::[]))))))))))))))))))))) :: [])) :: ((('p'::('r'::('i'::('v'::('a'::('t'::('e'::('_'::('m'::('e'::('m'::('b'::('e'::('r'::('s'::[]))))))))))))))),
    ((SrcProp
    ('p'::('r'::('i'::('v'::('a'::('t'::('e'::('_'::('m'::('e'::('m'::('b'::('e'::('r'::('s'::[])))))))))))))))) :: [])) :: ((('i'::('n'::('s'::('t'::('a'::('n'::('c'::('e'::('_'::('i'::('n'::('i'::('t'::('i'::('a'::('l'::('i'::('z'::('a'::('t'::('i'::('o'::('n'::[]))))))))))))))))))))))),
    ((SrcProp
    ('i'::('n'::('s'::('t'::('a'::('n'::('c'::('e'::('_'::('i'::('n'::('i'::('t'::('i'::('a'::('l'::('i'::('z'::('a'::('t'::('i'::('o'::('n'::[])))))))))))))))))))))))) :: [])) :: ((('i'::('n'::('i'::('t'::('i'::('a'::('l'::('i'::('z'::('e'::('_'::('l'::('i'::('n'::('e'::('s'::[])))))))))))))))),
    ((SrcProp
    ('i'::('n'::('i'::('t'::('i'::('a'::('l'::('i'::('z'::('e'::('_'::('l'::('i'::('n'::('e'::('s'::[]))))))))))))))))) :: [])) :: ((('c'::('t'::('o'::('r'::('_'::('l'::('i'::('n'::('e'::('s'::[])))))))))),
    ((SrcProp
    ('c'::('t'::('o'::('r'::('_'::('l'::('i'::('n'::('e'::('s'::[]))))))))))) :: [])) :: ((('l'::('i'::('n'::('k'::('_'::('l'::('i'::('b'::('r'::('a'::('r'::('i'::('e'::('s'::[])))))))))))))),
    ((SrcQv
    ('q'::('v'::('.'::('l'::('i'::('n'::('k'::('_'::('l'::('i'::('b'::('r'::('a'::('r'::('i'::('e'::('s'::('('::(')'::[])))))))))))))))))))) :: ((SrcProp
    ('l'::('i'::('n'::('k'::('_'::('l'::('i'::('b'::('r'::('a'::('r'::('i'::('e'::('s'::[]))))))))))))))) :: []))) :: [])))))))))

(** val t_atlas_0 : tnode list **)

let t_atlas_0 =
  (TText
    ('#'::('\n'::('#'::(' '::('R'::('e'::('a'::('d'::(' '::('t'::('h'::('e'::(' '::('s'::('u'::('b'::('m'::('i'::('s'::('s'::('i'::('o'::('n'::(' '::('d'::('i'::('r'::('e'::('c'::('t'::('o'::('r'::('y'::(' '::('a'::('s'::(' '::('a'::(' '::('c'::('o'::('m'::('m'::('a'::('n'::('d'::(' '::('l'::('i'::('n'::('e'::(' '::('a'::('r'::('g'::('u'::('m'::('e'::('n'::('t'::('.'::(' '::('Y'::('o'::('u'::(' '::('c'::('a'::('n'::('\n'::('#'::(' '::('e'::('x'::('t'::('e'::('n'::('d'::(' '::('t'::('h'::('e'::(' '::('l'::('i'::('s'::('t'::(' '::('o'::('f'::(' '::('a'::('r'::('g'::('u'::('m'::('e'::('n'::('t'::('s'::(' '::('w'::('i'::('t'::('h'::(' '::('y'::('o'::('u'::('r'::(' '::('p'::('r'::('i'::('v'::('a'::('t'::('e'::(' '::('o'::('n'::('e'::('s'::(' '::('l'::('a'::('t'::('e'::('r'::(' '::('o'::('n'::('.'::('\n'::('#'::(' '::('S'::('e'::('t'::(' '::('u'::('p'::(' '::('('::('P'::('y'::(')'::('R'::('O'::('O'::('T'::('.'::('\n'::('i'::('m'::('p'::('o'::('r'::('t'::(' '::('R'::('O'::('O'::('T'::(' '::(' '::('#'::(' '::('t'::('y'::('p'::('e'::(':'::(' '::('i'::('g'::('n'::('o'::('r'::('e'::('\n'::('i'::('m'::('p'::('o'::('r'::('t'::(' '::('o'::('p'::('t'::('p'::('a'::('r'::('s'::('e'::('\n'::('f'::('r'::('o'::('m'::(' '::('A'::('n'::('a'::('A'::('l'::('g'::('o'::('r'::('i'::('t'::('h'::('m'::('.'::('D'::('u'::('a'::('l'::('U'::('s'::('e'::('C'::('o'::('n'::('f'::('i'::('g'::(' '::('i'::('m'::('p'::('o'::('r'::('t'::(' '::('c'::('r'::('e'::('a'::('t'::('e'::('A'::('l'::('g'::('o'::('r'::('i'::('t'::('h'::('m'::(' '::(' '::('#'::(' '::('t'::('y'::('p'::('e'::(':'::(' '::('i'::('g'::('n'::('o'::('r'::('e'::('\n'::('\n'::('p'::('a'::('r'::('s'::('e'::('r'::(' '::('='::(' '::('o'::('p'::('t'::('p'::('a'::('r'::('s'::('e'::('.'::('O'::('p'::('t'::('i'::('o'::('n'::('P'::('a'::('r'::('s'::('e'::('r'::('('::(')'::('\n'::('\n'::('R'::('O'::('O'::('T'::('.'::('x'::('A'::('O'::('D'::('.'::('I'::('n'::('i'::('t'::('('::(')'::('.'::('i'::('g'::('n'::('o'::('r'::('e'::('('::(')'::('\n'::('p'::('a'::('r'::('s'::('e'::('r'::('.'::('a'::('d'::('d'::('_'::('o'::('p'::('t'::('i'::('o'::('n'::('('::('\''::('-'::('s'::('\''::(','::(' '::('\''::('-'::('-'::('s'::('u'::('b'::('m'::('i'::('s'::('s'::('i'::('o'::('n'::('-'::('d'::('i'::('r'::('\''::(','::(' '::('d'::('e'::('s'::('t'::('='::('\''::('s'::('u'::('b'::('m'::('i'::('s'::('s'::('i'::('o'::('n'::('_'::('d'::('i'::('r'::('\''::(','::('\n'::(' '::(' '::(' '::(' '::(' '::(' '::(' '::(' '::(' '::(' '::(' '::(' '::(' '::(' '::(' '::(' '::(' '::(' '::('a'::('c'::('t'::('i'::('o'::('n'::('='::('\''::('s'::('t'::('o'::('r'::('e'::('\''::(','::(' '::('t'::('y'::('p'::('e'::('='::('\''::('s'::('t'::('r'::('i'::('n'::('g'::('\''::(','::(' '::('d'::('e'::('f'::('a'::('u'::('l'::('t'::('='::('\''::('s'::('u'::('b'::('m'::('i'::('t'::('D'::('i'::('r'::('\''::(','::('\n'::(' '::(' '::(' '::(' '::(' '::(' '::(' '::(' '::(' '::(' '::(' '::(' '::(' '::(' '::(' '::(' '::(' '::(' '::('h'::('e'::('l'::('p'::('='::('\''::('S'::('u'::('b'::('m'::('i'::('s'::('s'::('i'::('o'::('n'::(' '::('d'::('i'::('r'::('e'::('c'::('t'::('o'::('r'::('y'::(' '::('f'::('o'::('r'::(' '::('E'::('v'::('e'::('n'::('t'::('L'::('o'::('o'::('p'::('\''::(')'::('\n'::('('::('o'::('p'::('t'::('i'::('o'::('n'::('s'::(','::(' '::('a'::('r'::('g'::('s'::(')'::(' '::('='::(' '::('p'::('a'::('r'::('s'::('e'::('r'::('.'::('p'::('a'::('r'::('s'::('e'::('_'::('a'::('r'::('g'::('s'::('('::(')'::('\n'::('\n'::('\n'::('#'::(' '::('T'::('h'::('e'::(' '::('s'::('a'::('m'::('p'::('l'::('e'::(' '::('h'::('a'::('n'::('d'::('l'::('e'::('r'::(' '::('i'::('s'::(' '::('g'::('o'::('i'::('n'::('g'::(' '::('t'::('o'::(' '::('l'::('o'::('a'::('d'::(' '::('t'::('h'::('e'::(' '::('f'::('i'::('l'::('e'::('s'::(' '::('f'::('o'::('r'::('m'::(' '::('f'::('i'::('l'::('e'::('l'::('i'::('s'::('t'::('.'::('t'::('x'::('t'::(','::('\n'::('#'::(' '::('i'::('n'::(' '::('t'::('h'::('i'::('s'::(' '::('c'::('o'::('n'::('t'::('e'::('x'::('t'::(','::(' '::('i'::('t'::(' '::('i'::('s'::(' '::('a'::('n'::(' '::('e'::('m'::('b'::('a'::('r'::('r'::('a'::('s'::('s'::('i'::('n'::('g'::('l'::('y'::(' '::('e'::('a'::('s'::('y'::(' '::('u'::('s'::('e'::(' '::('o'::('f'::(' '::('t'::('h'::('a'::('t'::(' '::('o'::('b'::('j'::('e'::('c'::('t'::('.'::('\n'::('s'::('h'::(' '::('='::(' '::('R'::('O'::('O'::('T'::('.'::('S'::('H'::('.'::('S'::('a'::('m'::('p'::('l'::('e'::('H'::('a'::('n'::('d'::('l'::('e'::('r'::('('::(')'::('\n'::('s'::('h'::('.'::('s'::('e'::('t'::('M'::('e'::('t'::('a'::('S'::('t'::('r'::('i'::('n'::('g'::('('::('\''::('n'::('c'::('_'::('t'::('r'::('e'::('e'::('\''::(','::(' '::('\''::('C'::('o'::('l'::('l'::('e'::('c'::('t'::('i'::('o'::('n'::('T'::('r'::('e'::('e'::('\''::(')'::('\n'::('R'::('O'::('O'::('T'::('.'::('S'::('H'::('.'::('r'::('e'::('a'::('d'::('F'::('i'::('l'::('e'::('L'::('i'::('s'::('t'::('('::('s'::('h'::(','::(' '::('"'::('A'::('N'::('A'::('L'::('Y'::('S'::('I'::('S'::('"'::(','::(' '::('"'::('f'::('i'::('l'::('e'::('l'::('i'::('s'::('t'::('.'::('t'::('x'::('t'::('"'::(')'::('\n'::('s'::('h'::('.'::('p'::('r'::('i'::('n'::('t'::('C'::('o'::('n'::('t'::('e'::('n'::('t'::('('::(')'::('\n'::('\n'::('#'::(' '::('C'::('r'::('e'::('a'::('t'::('e'::(' '::('a'::('n'::(' '::('E'::('v'::('e'::('n'::('t'::('L'::('o'::('o'::('p'::(' '::('j'::('o'::('b'::('.'::('\n'::('j'::('o'::('b'::(' '::('='::(' '::('R'::('O'::('O'::('T'::('.'::('E'::('L'::('.'::('J'::('o'::('b'::('('::(')'::('\n'::('j'::('o'::('b'::('.'::('s'::('a'::('m'::('p'::('l'::('e'::('H'::('a'::('n'::('d'::('l'::('e'::('r'::('('::('s'::('h'::(')'::('\n'::('\n'::[])))))))))))))))))))))))))))))))))))))))))))))))))))))))))))))))))))))))))))))))))))))))))))))))))))))))))))))))))))))))))))))))))))))))))))))))))))))))))))))))))))))))))))))))))))))))))))))))))))))))))))))))))))))))))))))))))))))))))))))))))))))))))))))))))))))))))))))))))))))))))))))))))))))))))))))))))))))))))))))))))))))))))))))))))))))))))))))))))))))))))))))))))))))))))))))))))))))))))))))))))))))))))))))))))))))))))))))))))))))))))))))))))))))))))))))))))))))))))))))))))))))))))))))))))))))))))))))))))))))))))))))))))))))))))))))))))))))))))))))))))))))))))))))))))))))))))))))))))))))))))))))))))))))))))))))))))))))))))))))))))))))))))))))))))))))))))))))))))))))))))))))))))))))))))))))))))))))))))))))))))))))))))))))))))))))))))))))))))))))))))))))))))))))))))))))))))))))))))))))))))))))))))))))))))))))))))))))))))))))))))))))))))))))))))))))))))))))))))))))))))))))))))))))))))))))))))))))))))))))))) :: ((TFor
    (('i'::[]),
    ('j'::('o'::('b'::('_'::('o'::('p'::('t'::('i'::('o'::('n'::('_'::('a'::('d'::('d'::('i'::('t'::('i'::('o'::('n'::('s'::[])))))))))))))))))))),
    ((TText ('\n'::[])) :: ((TVar ('i'::[])) :: ((TText
    ('\n'::[])) :: []))))) :: ((TText
    ('\n'::('\n'::('#'::(' '::('C'::('r'::('e'::('a'::('t'::('e'::(' '::('t'::('h'::('e'::(' '::('a'::('l'::('g'::('o'::('r'::('i'::('t'::('h'::('m'::('\''::('s'::(' '::('c'::('o'::('n'::('f'::('i'::('g'::('u'::('r'::('a'::('t'::('i'::('o'::('n'::('.'::('\n'::('a'::('l'::('g'::(' '::('='::(' '::('c'::('r'::('e'::('a'::('t'::('e'::('A'::('l'::('g'::('o'::('r'::('i'::('t'::('h'::('m'::('('::('\''::('q'::('u'::('e'::('r'::('y'::('\''::(','::(' '::('\''::('A'::('n'::('a'::('l'::('y'::('s'::('i'::('s'::('A'::('l'::('g'::('\''::(')'::('\n'::('#'::(' '::('l'::('a'::('t'::('e'::('r'::(' '::('o'::('n'::(' '::('w'::('e'::('\''::('l'::('l'::(' '::('a'::('d'::('d'::(' '::('s'::('o'::('m'::('e'::(' '::('c'::('o'::('n'::('f'::('i'::('g'::('u'::('r'::('a'::('t'::('i'::('o'::('n'::(' '::('o'::('p'::('t'::('i'::('o'::('n'::('s'::(' '::('f'::('o'::('r'::(' '::('o'::('u'::('r'::(' '::('a'::('l'::('g'::('o'::('r'::('i'::('t'::('h'::('m'::(' '::('t'::('h'::('a'::('t'::(' '::('g'::('o'::(' '::('h'::('e'::('r'::('e'::('\n'::('\n'::('#'::(' '::('A'::('d'::('d'::(' '::('o'::('u'::('r'::(' '::('a'::('l'::('g'::('o'::('r'::('i'::('t'::('h'::('m'::(' '::('t'::('o'::(' '::('t'::('h'::('e'::(' '::('j'::('o'::('b'::('\n'::('j'::('o'::('b'::('.'::('a'::('l'::('g'::('s'::('A'::('d'::('d'::('('::('a'::('l'::('g'::(')'::('\n'::('j'::('o'::('b'::('.'::('o'::('u'::('t'::('p'::('u'::('t'::('A'::('d'::('d'::('('::('R'::('O'::('O'::('T'::('.'::('E'::('L'::('.'::('O'::('u'::('t'::('p'::('u'::('t'::('S'::('t'::('r'::('e'::('a'::('m'::('('::('\''::('A'::('N'::('A'::('L'::('Y'::('S'::('I'::('S'::('\''::(')'::(')'::('\n'::('\n'::('#'::(' '::('R'::('u'::('n'::(' '::('t'::('h'::('e'::(' '::('j'::('o'::('b'::(' '::('u'::('s'::('i'::('n'::('g'::(' '::('t'::('h'::('e'::(' '::('d'::('i'::('r'::('e'::('c'::('t'::(' '::('d'::('r'::('i'::('v'::('e'::('r'::('.'::('\n'::('d'::('r'::('i'::('v'::('e'::('r'::(' '::('='::(' '::('R'::('O'::('O'::('T'::('.'::('E'::('L'::('.'::('D'::('i'::('r'::('e'::('c'::('t'::('D'::('r'::('i'::('v'::('e'::('r'::('('::(')'::('\n'::('d'::('r'::('i'::('v'::('e'::('r'::('.'::('s'::('u'::('b'::('m'::('i'::('t'::('('::('j'::('o'::('b'::(','::(' '::('o'::('p'::('t'::('i'::('o'::('n'::('s'::('.'::('s'::('u'::('b'::('m'::('i'::('s'::('s'::('i'::('o'::('n'::('_'::('d'::('i'::('r'::(')'::[]))))))))))))))))))))))))))))))))))))))))))))))))))))))))))))))))))))))))))))))))))))))))))))))))))))))))))))))))))))))))))))))))))))))))))))))))))))))))))))))))))))))))))))))))))))))))))))))))))))))))))))))))))))))))))))))))))))))))))))))))))))))))))))))))))))))))))))))))))))))))))))))))))))))))))))))))))))))))))))))))))))))))))))))))))))))))))))))))))))))))))))))))))))))))))) :: []))

(** val t_atlas_1 : tnode list **)

let t_atlas_1 =
  (TText
    ('#'::(' '::('T'::('h'::('e'::(' '::('n'::('a'::('m'::('e'::(' '::('o'::('f'::(' '::('t'::('h'::('e'::(' '::('p'::('a'::('c'::('k'::('a'::('g'::('e'::(':'::('\n'::('p'::('r'::('o'::('j'::('e'::('c'::('t'::('('::('a'::('n'::('a'::('l'::('y'::('s'::('i'::('s'::(' '::('V'::('E'::('R'::('S'::('I'::('O'::('N'::(' '::('1'::('.'::('0'::(')'::('\n'::('a'::('t'::('l'::('a'::('s'::('_'::('s'::('u'::('b'::('d'::('i'::('r'::(' '::('('::('a'::('n'::('a'::('l'::('y'::('s'::('i'::('s'::(')'::('\n'::('\n'::('#'::(' '::('A'::('d'::('d'::(' '::('t'::('h'::('e'::(' '::('s'::('h'::('a'::('r'::('e'::('d'::(' '::('l'::('i'::('b'::('r'::('a'::('r'::('y'::(':'::('\n'::('a'::('t'::('l'::('a'::('s'::('_'::('a'::('d'::('d'::('_'::('l'::('i'::('b'::('r'::('a'::('r'::('y'::(' '::('('::('a'::('n'::('a'::('l'::('y'::('s'::('i'::('s'::('L'::('i'::('b'::('\n'::(' '::(' '::('a'::('n'::('a'::('l'::('y'::('s'::('i'::('s'::('/'::('*'::('.'::('h'::(' '::('R'::('o'::('o'::('t'::('/'::('*'::('.'::('c'::('x'::('x'::('\n'::(' '::(' '::('P'::('U'::('B'::('L'::('I'::('C'::('_'::('H'::('E'::('A'::('D'::('E'::('R'::('S'::(' '::('a'::('n'::('a'::('l'::('y'::('s'::('i'::('s'::('\n'::(' '::(' '::('L'::('I'::('N'::('K'::('_'::('L'::('I'::('B'::('R'::('A'::('R'::('I'::('E'::('S'::(' '::('A'::('n'::('a'::('A'::('l'::('g'::('o'::('r'::('i'::('t'::('h'::('m'::('L'::('i'::('b'::(' '::[]))))))))))))))))))))))))))))))))))))))))))))))))))))))))))))))))))))))))))))))))))))))))))))))))))))))))))))))))))))))))))))))))))))))))))))))))))))))))))))))))))))))))))))))))))))))))))))))))))))))))))))))))))))))))))))))))) :: ((TFor
    (('l'::('i'::('b'::[]))),
    ('l'::('i'::('n'::('k'::('_'::('l'::('i'::('b'::('r'::('a'::('r'::('i'::('e'::('s'::[])))))))))))))),
    ((TVar ('l'::('i'::('b'::[])))) :: ((TText
    (' '::[])) :: [])))) :: ((TText
    (')'::('\n'::('\n'::('i'::('f'::(' '::('('::('X'::('A'::('O'::('D'::('_'::('S'::('T'::('A'::('N'::('D'::('A'::('L'::('O'::('N'::('E'::(')'::('\n'::(' '::('#'::(' '::('A'::('d'::('d'::(' '::('t'::('h'::('e'::(' '::('d'::('i'::('c'::('t'::('i'::('o'::('n'::('a'::('r'::('y'::(' '::('('::('f'::('o'::('r'::(' '::('A'::('n'::('a'::('l'::('y'::('s'::('i'::('s'::('B'::('a'::('s'::('e'::(' '::('o'::('n'::('l'::('y'::(')'::(':'::('\n'::(' '::('a'::('t'::('l'::('a'::('s'::('_'::('a'::('d'::('d'::('_'::('d'::('i'::('c'::('t'::('i'::('o'::('n'::('a'::('r'::('y'::(' '::('('::('q'::('u'::('e'::('r'::('y'::('D'::('i'::('c'::('t'::('\n'::(' '::(' '::('a'::('n'::('a'::('l'::('y'::('s'::('i'::('s'::('/'::('q'::('u'::('e'::('r'::('y'::('.'::('h'::('\n'::(' '::(' '::('a'::('n'::('a'::('l'::('y'::('s'::('i'::('s'::('/'::('s'::('e'::('l'::('e'::('c'::('t'::('i'::('o'::('n'::('.'::('x'::('m'::('l'::('\n'::(' '::(' '::('L'::('I'::('N'::('K'::('_'::('L'::('I'::('B'::('R'::('A'::('R'::('I'::('E'::('S'::(' '::('a'::('n'::('a'::('l'::('y'::('s'::('i'::('s'::('L'::('i'::('b'::(')'::('\n'::('e'::('n'::('d'::('i'::('f'::(' '::('('::(')'::('\n'::('\n'::('i'::('f'::(' '::('('::('N'::('O'::('T'::(' '::('X'::('A'::('O'::('D'::('_'::('S'::('T'::('A'::('N'::('D'::('A'::('L'::('O'::('N'::('E'::(')'::('\n'::(' '::(' '::('#'::(' '::('A'::('d'::('d'::(' '::('a'::(' '::('c'::('o'::('m'::('p'::('o'::('n'::('e'::('n'::('t'::(' '::('l'::('i'::('b'::('r'::('a'::('r'::('y'::(' '::('f'::('o'::('r'::(' '::('A'::('t'::('h'::('A'::('n'::('a'::('l'::('y'::('s'::('i'::('s'::(' '::('o'::('n'::('l'::('y'::(':'::('\n'::(' '::(' '::('a'::('t'::('l'::('a'::('s'::('_'::('a'::('d'::('d'::('_'::('c'::('o'::('m'::('p'::('o'::('n'::('e'::('n'::('t'::(' '::('('::('a'::('n'::('a'::('l'::('y'::('s'::('i'::('s'::('\n'::(' '::(' '::(' '::(' '::('s'::('r'::('c'::('/'::('c'::('o'::('m'::('p'::('o'::('n'::('e'::('n'::('t'::('s'::('/'::('*'::('.'::('c'::('x'::('x'::('\n'::(' '::(' '::(' '::(' '::('L'::('I'::('N'::('K'::('_'::('L'::('I'::('B'::('R'::('A'::('R'::('I'::('E'::('S'::(' '::('a'::('n'::('a'::('l'::('y'::('s'::('i'::('s'::('L'::('i'::('b'::(')'::('\n'::('e'::('n'::('d'::('i'::('f'::(' '::('('::(')'::('\n'::('\n'::('#'::(' '::('I'::('n'::('s'::('t'::('a'::('l'::('l'::(' '::('f'::('i'::('l'::('e'::('s'::(' '::('f'::('r'::('o'::('m'::(' '::('t'::('h'::('e'::(' '::('p'::('a'::('c'::('k'::('a'::('g'::('e'::(':'::('\n'::('a'::('t'::('l'::('a'::('s'::('_'::('i'::('n'::('s'::('t'::('a'::('l'::('l'::('_'::('s'::('c'::('r'::('i'::('p'::('t'::('s'::('('::(' '::('s'::('h'::('a'::('r'::('e'::('/'::('*'::('_'::('e'::('l'::('j'::('o'::('b'::('.'::('p'::('y'::(' '::(')'::[])))))))))))))))))))))))))))))))))))))))))))))))))))))))))))))))))))))))))))))))))))))))))))))))))))))))))))))))))))))))))))))))))))))))))))))))))))))))))))))))))))))))))))))))))))))))))))))))))))))))))))))))))))))))))))))))))))))))))))))))))))))))))))))))))))))))))))))))))))))))))))))))))))))))))))))))))))))))))))))))))))))))))))))))))))))))))))))))))))))))))))))))))))))))))))))))))))))))))))))))))))))))))))))))))))))))))))))))))))))) :: []))

(** val t_atlas_2 : tnode list **)

let t_atlas_2 =
  (TText
    ('#'::('i'::('n'::('c'::('l'::('u'::('d'::('e'::(' '::('<'::('a'::('n'::('a'::('l'::('y'::('s'::('i'::('s'::('/'::('q'::('u'::('e'::('r'::('y'::('.'::('h'::('>'::('\n'::('#'::('i'::('n'::('c'::('l'::('u'::('d'::('e'::(' '::('"'::('x'::('A'::('O'::('D'::('R'::('o'::('o'::('t'::('A'::('c'::('c'::('e'::('s'::('s'::('/'::('t'::('o'::('o'::('l'::('s'::('/'::('T'::('F'::('i'::('l'::('e'::('A'::('c'::('c'::('e'::('s'::('s'::('T'::('r'::('a'::('c'::('e'::('r'::('.'::('h'::('"'::('\n'::('\n'::[])))))))))))))))))))))))))))))))))))))))))))))))))))))))))))))))))))))))))))))))))) :: ((TFor
    (('i'::[]),
    ('b'::('o'::('d'::('y'::('_'::('i'::('n'::('c'::('l'::('u'::('d'::('e'::('_'::('f'::('i'::('l'::('e'::('s'::[])))))))))))))))))),
    ((TText
    ('\n'::('#'::('i'::('n'::('c'::('l'::('u'::('d'::('e'::(' '::('"'::[])))))))))))) :: ((TVar
    ('i'::[])) :: ((TText ('"'::('\n'::[]))) :: []))))) :: ((TText
    ('\n'::('\n'::('#'::('i'::('n'::('c'::('l'::('u'::('d'::('e'::(' '::('<'::('T'::('T'::('r'::('e'::('e'::('.'::('h'::('>'::('\n'::('\n'::('q'::('u'::('e'::('r'::('y'::(' '::(':'::(':'::(' '::('q'::('u'::('e'::('r'::('y'::(' '::('('::('c'::('o'::('n'::('s'::('t'::(' '::('s'::('t'::('d'::(':'::(':'::('s'::('t'::('r'::('i'::('n'::('g'::('&'::(' '::('n'::('a'::('m'::('e'::(','::('\n'::(' '::(' '::(' '::(' '::(' '::(' '::(' '::(' '::(' '::(' '::(' '::(' '::(' '::(' '::(' '::(' '::(' '::(' '::(' '::(' '::(' '::(' '::(' '::(' '::(' '::(' '::(' '::(' '::(' '::(' '::(' '::(' '::(' '::(' '::('I'::('S'::('v'::('c'::('L'::('o'::('c'::('a'::('t'::('o'::('r'::(' '::('*'::('p'::('S'::('v'::('c'::('L'::('o'::('c'::('a'::('t'::('o'::('r'::(')'::('\n'::(' '::(' '::(' '::(' '::(':'::(' '::('E'::('L'::(':'::(':'::('A'::('n'::('a'::('A'::('l'::('g'::('o'::('r'::('i'::('t'::('h'::('m'::(' '::('('::('n'::('a'::('m'::('e'::(','::(' '::('p'::('S'::('v'::('c'::('L'::('o'::('c'::('a'::('t'::('o'::('r'::(')'::('\n'::(' '::(' '::[]))))))))))))))))))))))))))))))))))))))))))))))))))))))))))))))))))))))))))))))))))))))))))))))))))))))))))))))))))))))))))))))))))))))))))))))))))))))))))))))))))))))))) :: ((TFor
    (('l'::[]),
    ('i'::('n'::('s'::('t'::('a'::('n'::('c'::('e'::('_'::('i'::('n'::('i'::('t'::('i'::('a'::('l'::('i'::('z'::('a'::('t'::('i'::('o'::('n'::[]))))))))))))))))))))))),
    ((TText ('\n'::(' '::(' '::(','::[]))))) :: ((TVar
    ('l'::[])) :: [])))) :: ((TText
    ('\n'::('{'::('\n'::(' '::(' '::('/'::('/'::(' '::('H'::('e'::('r'::('e'::(' '::('y'::('o'::('u'::(' '::('p'::('u'::('t'::(' '::('a'::('n'::('y'::(' '::('c'::('o'::('d'::('e'::(' '::('f'::('o'::('r'::(' '::('t'::('h'::('e'::(' '::('b'::('a'::('s'::('e'::(' '::('i'::('n'::('i'::('t'::('i'::('a'::('l'::('i'::('z'::('a'::('t'::('i'::('o'::('n'::(' '::('o'::('f'::(' '::('v'::('a'::('r'::('i'::('a'::('b'::('l'::('e'::('s'::(','::('\n'::(' '::(' '::('/'::('/'::(' '::('e'::('.'::('g'::('.'::(' '::('i'::('n'::('i'::('t'::('i'::('a'::('l'::('i'::('z'::('e'::(' '::('a'::('l'::('l'::(' '::('p'::('o'::('i'::('n'::('t'::('e'::('r'::('s'::(' '::('t'::('o'::(' '::('0'::('.'::(' '::(' '::('T'::('h'::('i'::('s'::(' '::('i'::('s'::(' '::('a'::('l'::('s'::('o'::(' '::('w'::('h'::('e'::('r'::('e'::(' '::('y'::('o'::('u'::('\n'::(' '::(' '::('/'::('/'::(' '::('d'::('e'::('c'::('l'::('a'::('r'::('e'::(' '::('a'::('l'::('l'::(' '::('p'::('r'::('o'::('p'::('e'::('r'::('t'::('i'::('e'::('s'::(' '::('f'::('o'::('r'::(' '::('y'::('o'::('u'::('r'::(' '::('a'::('l'::('g'::('o'::('r'::('i'::('t'::('h'::('m'::('.'::(' '::(' '::('N'::('o'::('t'::('e'::(' '::('t'::('h'::('a'::('t'::(' '::('t'::('h'::('i'::('n'::('g'::('s'::(' '::('l'::('i'::('k'::('e'::('\n'::(' '::(' '::('/'::('/'::(' '::('r'::('e'::('s'::('e'::('t'::('t'::('i'::('n'::('g'::(' '::('s'::('t'::('a'::('t'::('i'::('s'::('t'::('i'::('c'::('s'::(' '::('v'::('a'::('r'::('i'::('a'::('b'::('l'::('e'::('s'::(' '::('o'::('r'::(' '::('b'::('o'::('o'::('k'::('i'::('n'::('g'::(' '::('h'::('i'::('s'::('t'::('o'::('g'::('r'::('a'::('m'::('s'::(' '::('s'::('h'::('o'::('u'::('l'::('d'::('\n'::(' '::(' '::('/'::('/'::(' '::('r'::('a'::('t'::('h'::('e'::('r'::(' '::('g'::('o'::(' '::('i'::('n'::('t'::('o'::(' '::('t'::('h'::('e'::(' '::('i'::('n'::('i'::('t'::('i'::('a'::('l'::('i'::('z'::('e'::('('::(')'::(' '::('f'::('u'::('n'::('c'::('t'::('i'::('o'::('n'::('.'::('\n'::('\n'::(' '::(' '::('/'::('/'::(' '::('T'::('u'::('r'::('n'::(' '::('o'::('f'::('f'::(' '::('f'::('i'::('l'::('e'::(' '::('a'::('c'::('c'::('e'::('s'::('s'::(' '::('s'::('t'::('a'::('t'::('i'::('s'::('t'::('i'::('c'::('s'::(' '::('r'::('e'::('p'::('o'::('r'::('t'::('i'::('n'::('g'::('.'::(' '::('T'::('h'::('i'::('s'::(' '::('i'::('s'::(','::(' '::('a'::('c'::('c'::('o'::('r'::('d'::('i'::('n'::('g'::(' '::('t'::('o'::(' '::('A'::('t'::('t'::('i'::('l'::('a'::(','::(' '::('u'::('s'::('e'::('f'::('u'::('l'::('\n'::(' '::(' '::('/'::('/'::(' '::('f'::('o'::('r'::(' '::('G'::('R'::('I'::('D'::(' '::('j'::('o'::('b'::('s'::(','::(' '::('b'::('u'::('t'::(' '::('n'::('o'::('t'::(' '::('s'::('o'::(' '::('m'::('u'::('c'::('h'::(' '::('f'::('o'::('r'::(' '::('o'::('t'::('h'::('e'::('r'::(' '::('j'::('o'::('b'::('s'::('.'::(' '::('F'::('o'::('r'::(' '::('t'::('h'::('o'::('s'::('e'::(' '::('o'::('f'::(' '::('u'::('s'::(' '::('n'::('o'::('t'::(' '::('l'::('o'::('c'::('a'::('t'::('e'::('d'::(' '::('a'::('t'::(' '::('C'::('E'::('R'::('N'::('\n'::(' '::(' '::('/'::('/'::(' '::('a'::('n'::('d'::(' '::('f'::('o'::('r'::(' '::('a'::(' '::('l'::('a'::('r'::('g'::('e'::(' '::('a'::('m'::('o'::('u'::('n'::('t'::(' '::('o'::('f'::(' '::('d'::('a'::('t'::('a'::(','::(' '::('t'::('h'::('i'::('s'::(' '::('c'::('a'::('n'::(' '::('s'::('o'::('m'::('e'::('t'::('i'::('m'::('e'::('s'::(' '::('t'::('a'::('k'::('e'::(' '::('a'::(' '::('m'::('i'::('n'::('u'::('t'::('e'::('.'::('\n'::(' '::(' '::('/'::('/'::(' '::('S'::('o'::(' '::('w'::('e'::(' '::('g'::('e'::('t'::(' '::('r'::('i'::('d'::(' '::('o'::('f'::(' '::('i'::('t'::('.'::('\n'::(' '::(' '::('x'::('A'::('O'::('D'::(':'::(':'::('T'::('F'::('i'::('l'::('e'::('A'::('c'::('c'::('e'::('s'::('s'::('T'::('r'::('a'::('c'::('e'::('r'::(':'::(':'::('e'::('n'::('a'::('b'::('l'::('e'::('D'::('a'::('t'::('a'::('S'::('u'::('b'::('m'::('i'::('s'::('s'::('i'::('o'::('n'::('('::('f'::('a'::('l'::('s'::('e'::(')'::(';'::('\n'::('\n'::(' '::(' '::[])))))))))))))))))))))))))))))))))))))))))))))))))))))))))))))))))))))))))))))))))))))))))))))))))))))))))))))))))))))))))))))))))))))))))))))))))))))))))))))))))))))))))))))))))))))))))))))))))))))))))))))))))))))))))))))))))))))))))))))))))))))))))))))))))))))))))))))))))))))))))))))))))))))))))))))))))))))))))))))))))))))))))))))))))))))))))))))))))))))))))))))))))))))))))))))))))))))))))))))))))))))))))))))))))))))))))))))))))))))))))))))))))))))))))))))))))))))))))))))))))))))))))))))))))))))))))))))))))))))))))))))))))))))))))))))))))))))))))))))))))))))))))))))))))))))))))))))))))))))))))))))))))))))))))))))))))))))))))))))))))))))))))) :: ((TFor
    (('l'::[]),
    ('c'::('t'::('o'::('r'::('_'::('l'::('i'::('n'::('e'::('s'::[])))))))))),
    ((TText ('\n'::(' '::(' '::[])))) :: ((TVar ('l'::[])) :: ((TText
    ('\n'::(' '::(' '::[])))) :: []))))) :: ((TText
    ('\n'::('\n'::('}'::('\n'::('\n'::('S'::('t'::('a'::('t'::('u'::('s'::('C'::('o'::('d'::('e'::(' '::('q'::('u'::('e'::('r'::('y'::(' '::(':'::(':'::(' '::('i'::('n'::('i'::('t'::('i'::('a'::('l'::('i'::('z'::('e'::(' '::('('::(')'::('\n'::('{'::('\n'::(' '::(' '::('/'::('/'::(' '::('H'::('e'::('r'::('e'::(' '::('y'::('o'::('u'::(' '::('d'::('o'::(' '::('e'::('v'::('e'::('r'::('y'::('t'::('h'::('i'::('n'::('g'::(' '::('t'::('h'::('a'::('t'::(' '::('n'::('e'::('e'::('d'::('s'::(' '::('t'::('o'::(' '::('b'::('e'::(' '::('d'::('o'::('n'::('e'::(' '::('a'::('t'::(' '::('t'::('h'::('e'::(' '::('v'::('e'::('r'::('y'::('\n'::(' '::(' '::('/'::('/'::(' '::('b'::('e'::('g'::('i'::('n'::('n'::('i'::('n'::('g'::(' '::('o'::('n'::(' '::('e'::('a'::('c'::('h'::(' '::('w'::('o'::('r'::('k'::('e'::('r'::(' '::('n'::('o'::('d'::('e'::(','::(' '::('e'::('.'::('g'::('.'::(' '::('c'::('r'::('e'::('a'::('t'::('e'::(' '::('h'::('i'::('s'::('t'::('o'::('g'::('r'::('a'::('m'::('s'::(' '::('a'::('n'::('d'::(' '::('o'::('u'::('t'::('p'::('u'::('t'::('\n'::(' '::(' '::('/'::('/'::(' '::('t'::('r'::('e'::('e'::('s'::('.'::(' '::(' '::('T'::('h'::('i'::('s'::(' '::('m'::('e'::('t'::('h'::('o'::('d'::(' '::('g'::('e'::('t'::('s'::(' '::('c'::('a'::('l'::('l'::('e'::('d'::(' '::('b'::('e'::('f'::('o'::('r'::('e'::(' '::('a'::('n'::('y'::(' '::('i'::('n'::('p'::('u'::('t'::(' '::('f'::('i'::('l'::('e'::('s'::(' '::('a'::('r'::('e'::('\n'::(' '::(' '::('/'::('/'::(' '::('c'::('o'::('n'::('n'::('e'::('c'::('t'::('e'::('d'::('.'::('\n'::('\n'::(' '::(' '::[]))))))))))))))))))))))))))))))))))))))))))))))))))))))))))))))))))))))))))))))))))))))))))))))))))))))))))))))))))))))))))))))))))))))))))))))))))))))))))))))))))))))))))))))))))))))))))))))))))))))))))))))))))))))))))))))))))))))))))))))))))))))))))))))))) :: ((TFor
    (('l'::[]),
    ('b'::('o'::('o'::('k'::('_'::('c'::('o'::('d'::('e'::[]))))))))),
    ((TText ('\n'::(' '::(' '::[])))) :: ((TVar ('l'::[])) :: ((TText
    ('\n'::(' '::(' '::[])))) :: []))))) :: ((TText
    ('\n'::('\n'::(' '::(' '::[]))))) :: ((TFor (('l'::[]),
    ('i'::('n'::('i'::('t'::('i'::('a'::('l'::('i'::('z'::('e'::('_'::('l'::('i'::('n'::('e'::('s'::[])))))))))))))))),
    ((TText ('\n'::(' '::(' '::[])))) :: ((TVar ('l'::[])) :: ((TText
    ('\n'::(' '::(' '::[])))) :: []))))) :: ((TText
    ('\n'::('\n'::(' '::(' '::('r'::('e'::('t'::('u'::('r'::('n'::(' '::('S'::('t'::('a'::('t'::('u'::('s'::('C'::('o'::('d'::('e'::(':'::(':'::('S'::('U'::('C'::('C'::('E'::('S'::('S'::(';'::('\n'::('}'::('\n'::('\n'::('S'::('t'::('a'::('t'::('u'::('s'::('C'::('o'::('d'::('e'::(' '::('q'::('u'::('e'::('r'::('y'::(' '::(':'::(':'::(' '::('e'::('x'::('e'::('c'::('u'::('t'::('e'::(' '::('('::(')'::('\n'::('{'::('\n'::(' '::(' '::('/'::('/'::(' '::('H'::('e'::('r'::('e'::(' '::('y'::('o'::('u'::(' '::('d'::('o'::(' '::('e'::('v'::('e'::('r'::('y'::('t'::('h'::('i'::('n'::('g'::(' '::('t'::('h'::('a'::('t'::(' '::('n'::('e'::('e'::('d'::('s'::(' '::('t'::('o'::(' '::('b'::('e'::(' '::('d'::('o'::('n'::('e'::(' '::('o'::('n'::(' '::('e'::('v'::('e'::('r'::('y'::(' '::('s'::('i'::('n'::('g'::('l'::('e'::('\n'::(' '::(' '::('/'::('/'::(' '::('e'::('v'::('e'::('n'::('t'::('s'::(','::(' '::('e'::('.'::('g'::('.'::(' '::('r'::('e'::('a'::('d'::(' '::('i'::('n'::('p'::('u'::('t'::(' '::('v'::('a'::('r'::('i'::('a'::('b'::('l'::('e'::('s'::(','::(' '::('a'::('p'::('p'::('l'::('y'::(' '::('c'::('u'::('t'::('s'::(','::(' '::('a'::('n'::('d'::(' '::('f'::('i'::('l'::('l'::('\n'::(' '::(' '::('/'::('/'::(' '::('h'::('i'::('s'::('t'::('o'::('g'::('r'::('a'::('m'::('s'::(' '::('a'::('n'::('d'::(' '::('t'::('r'::('e'::('e'::('s'::('.'::(' '::(' '::('T'::('h'::('i'::('s'::(' '::('i'::('s'::(' '::('w'::('h'::('e'::('r'::('e'::(' '::('m'::('o'::('s'::('t'::(' '::('o'::('f'::(' '::('y'::('o'::('u'::('r'::(' '::('a'::('c'::('t'::('u'::('a'::('l'::(' '::('a'::('n'::('a'::('l'::('y'::('s'::('i'::('s'::('\n'::(' '::(' '::('/'::('/'::(' '::('c'::('o'::('d'::('e'::(' '::('w'::('i'::('l'::('l'::(' '::('g'::('o'::('.'::('\n'::('\n'::(' '::(' '::[]))))))))))))))))))))))))))))))))))))))))))))))))))))))))))))))))))))))))))))))))))))))))))))))))))))))))))))))))))))))))))))))))))))))))))))))))))))))))))))))))))))))))))))))))))))))))))))))))))))))))))))))))))))))))))))))))))))))))))))))))))))))))))))))))))))))))))))))))))))))))))))))))) :: ((TFor
    (('l'::[]),
    ('q'::('u'::('e'::('r'::('y'::('_'::('c'::('o'::('d'::('e'::[])))))))))),
    ((TText ('\n'::(' '::(' '::[])))) :: ((TVar ('l'::[])) :: ((TText
    ('\n'::(' '::(' '::[])))) :: []))))) :: ((TText
    ('\n'::('\n'::(' '::(' '::('r'::('e'::('t'::('u'::('r'::('n'::(' '::('S'::('t'::('a'::('t'::('u'::('s'::('C'::('o'::('d'::('e'::(':'::(':'::('S'::('U'::('C'::('C'::('E'::('S'::('S'::(';'::('\n'::('}'::('\n'::('\n'::('\n'::('\n'::('S'::('t'::('a'::('t'::('u'::('s'::('C'::('o'::('d'::('e'::(' '::('q'::('u'::('e'::('r'::('y'::(' '::(':'::(':'::(' '::('f'::('i'::('n'::('a'::('l'::('i'::('z'::('e'::(' '::('('::(')'::('\n'::('{'::('\n'::(' '::(' '::('/'::('/'::(' '::('T'::('h'::('i'::('s'::(' '::('m'::('e'::('t'::('h'::('o'::('d'::(' '::('i'::('s'::(' '::('t'::('h'::('e'::(' '::('m'::('i'::('r'::('r'::('o'::('r'::(' '::('i'::('m'::('a'::('g'::('e'::(' '::('o'::('f'::(' '::('i'::('n'::('i'::('t'::('i'::('a'::('l'::('i'::('z'::('e'::('('::(')'::(','::(' '::('m'::('e'::('a'::('n'::('i'::('n'::('g'::(' '::('i'::('t'::(' '::('g'::('e'::('t'::('s'::('\n'::(' '::(' '::('/'::('/'::(' '::('c'::('a'::('l'::('l'::('e'::('d'::(' '::('a'::('f'::('t'::('e'::('r'::(' '::('t'::('h'::('e'::(' '::('l'::('a'::('s'::('t'::(' '::('e'::('v'::('e'::('n'::('t'::(' '::('h'::('a'::('s'::(' '::('b'::('e'::('e'::('n'::(' '::('p'::('r'::('o'::('c'::('e'::('s'::('s'::('e'::('d'::(' '::('o'::('n'::(' '::('t'::('h'::('e'::(' '::('w'::('o'::('r'::('k'::('e'::('r'::(' '::('n'::('o'::('d'::('e'::('\n'::(' '::(' '::('/'::('/'::(' '::('a'::('n'::('d'::(' '::('a'::('l'::('l'::('o'::('w'::('s'::(' '::('y'::('o'::('u'::(' '::('t'::('o'::(' '::('f'::('i'::('n'::('i'::('s'::('h'::(' '::('u'::('p'::(' '::('a'::('n'::('y'::(' '::('o'::('b'::('j'::('e'::('c'::('t'::('s'::(' '::('y'::('o'::('u'::(' '::('c'::('r'::('e'::('a'::('t'::('e'::('d'::(' '::('i'::('n'::('\n'::(' '::(' '::('/'::('/'::(' '::('i'::('n'::('i'::('t'::('i'::('a'::('l'::('i'::('z'::('e'::('('::(')'::(' '::('b'::('e'::('f'::('o'::('r'::('e'::(' '::('t'::('h'::('e'::('y'::(' '::('a'::('r'::('e'::(' '::('w'::('r'::('i'::('t'::('t'::('e'::('n'::(' '::('t'::('o'::(' '::('d'::('i'::('s'::('k'::('.'::(' '::(' '::('T'::('h'::('i'::('s'::(' '::('i'::('s'::(' '::('a'::('c'::('t'::('u'::('a'::('l'::('l'::('y'::('\n'::(' '::(' '::('/'::('/'::(' '::('f'::('a'::('i'::('r'::('l'::('y'::(' '::('r'::('a'::('r'::('e'::(','::(' '::('s'::('i'::('n'::('c'::('e'::(' '::('t'::('h'::('i'::('s'::(' '::('h'::('a'::('p'::('p'::('e'::('n'::('s'::(' '::('s'::('e'::('p'::('a'::('r'::('a'::('t'::('e'::('l'::('y'::(' '::('f'::('o'::('r'::(' '::('e'::('a'::('c'::('h'::(' '::('w'::('o'::('r'::('k'::('e'::('r'::(' '::('n'::('o'::('d'::('e'::('.'::('\n'::(' '::(' '::('/'::('/'::(' '::('M'::('o'::('s'::('t'::(' '::('o'::('f'::(' '::('t'::('h'::('e'::(' '::('t'::('i'::('m'::('e'::(' '::('y'::('o'::('u'::(' '::('w'::('a'::('n'::('t'::(' '::('t'::('o'::(' '::('d'::('o'::(' '::('y'::('o'::('u'::('r'::(' '::('p'::('o'::('s'::('t'::('-'::('p'::('r'::('o'::('c'::('e'::('s'::('s'::('i'::('n'::('g'::(' '::('o'::('n'::(' '::('t'::('h'::('e'::('\n'::(' '::(' '::('/'::('/'::(' '::('s'::('u'::('b'::('m'::('i'::('s'::('s'::('i'::('o'::('n'::(' '::('n'::('o'::('d'::('e'::(' '::('a'::('f'::('t'::('e'::('r'::(' '::('a'::('l'::('l'::(' '::('y'::('o'::('u'::('r'::(' '::('h'::('i'::('s'::('t'::('o'::('g'::('r'::('a'::('m'::(' '::('o'::('u'::('t'::('p'::('u'::('t'::('s'::(' '::('h'::('a'::('v'::('e'::(' '::('b'::('e'::('e'::('n'::('\n'::(' '::(' '::('/'::('/'::(' '::('m'::('e'::('r'::('g'::('e'::('d'::('.'::('\n'::(' '::(' '::('r'::('e'::('t'::('u'::('r'::('n'::(' '::('S'::('t'::('a'::('t'::('u'::('s'::('C'::('o'::('d'::('e'::(':'::(':'::('S'::('U'::('C'::('C'::('E'::('S'::('S'::(';'::('\n'::('}'::[]))))))))))))))))))))))))))))))))))))))))))))))))))))))))))))))))))))))))))))))))))))))))))))))))))))))))))))))))))))))))))))))))))))))))))))))))))))))))))))))))))))))))))))))))))))))))))))))))))))))))))))))))))))))))))))))))))))))))))))))))))))))))))))))))))))))))))))))))))))))))))))))))))))))))))))))))))))))))))))))))))))))))))))))))))))))))))))))))))))))))))))))))))))))))))))))))))))))))))))))))))))))))))))))))))))))))))))))))))))))))))))))))))))))))))))))))))))))))))))))))))))))))))))))))))))))))))))))))))))))))))))))))))))))))))))))))))))))))))))))))))))))))))))))))))))))))) :: []))))))))))))

(** val t_atlas_3 : tnode list **)

let t_atlas_3 =
  (TText
    ('#'::('i'::('f'::('n'::('d'::('e'::('f'::(' '::('a'::('n'::('a'::('l'::('y'::('s'::('i'::('s'::('_'::('q'::('u'::('e'::('r'::('y'::('_'::('H'::('\n'::('#'::('d'::('e'::('f'::('i'::('n'::('e'::(' '::('a'::('n'::('a'::('l'::('y'::('s'::('i'::('s'::('_'::('q'::('u'::('e'::('r'::('y'::('_'::('H'::('\n'::('\n'::('#'::('i'::('n'::('c'::('l'::('u'::('d'::('e'::(' '::('<'::('A'::('n'::('a'::('A'::('l'::('g'::('o'::('r'::('i'::('t'::('h'::('m'::('/'::('A'::('n'::('a'::('A'::('l'::('g'::('o'::('r'::('i'::('t'::('h'::('m'::('.'::('h'::('>'::('\n'::('\n'::[])))))))))))))))))))))))))))))))))))))))))))))))))))))))))))))))))))))))))))))))))))))))))))) :: ((TFor
    (('i'::[]),
    ('h'::('e'::('a'::('d'::('e'::('r'::('_'::('i'::('n'::('c'::('l'::('u'::('d'::('e'::('_'::('f'::('i'::('l'::('e'::('s'::[])))))))))))))))))))),
    ((TText
    ('\n'::('#'::('i'::('n'::('c'::('l'::('u'::('d'::('e'::(' '::('"'::[])))))))))))) :: ((TVar
    ('i'::[])) :: ((TText ('"'::('\n'::[]))) :: []))))) :: ((TText
    ('\n'::('\n'::('\n'::('c'::('l'::('a'::('s'::('s'::(' '::('q'::('u'::('e'::('r'::('y'::(' '::(':'::(' '::('p'::('u'::('b'::('l'::('i'::('c'::(' '::('E'::('L'::(':'::(':'::('A'::('n'::('a'::('A'::('l'::('g'::('o'::('r'::('i'::('t'::('h'::('m'::('\n'::('{'::('\n'::('p'::('u'::('b'::('l'::('i'::('c'::(':'::('\n'::(' '::(' '::('/'::('/'::(' '::('t'::('h'::('i'::('s'::(' '::('i'::('s'::(' '::('a'::(' '::('s'::('t'::('a'::('n'::('d'::('a'::('r'::('d'::(' '::('a'::('l'::('g'::('o'::('r'::('i'::('t'::('h'::('m'::(' '::('c'::('o'::('n'::('s'::('t'::('r'::('u'::('c'::('t'::('o'::('r'::('\n'::(' '::(' '::('q'::('u'::('e'::('r'::('y'::(' '::('('::('c'::('o'::('n'::('s'::('t'::(' '::('s'::('t'::('d'::(':'::(':'::('s'::('t'::('r'::('i'::('n'::('g'::('&'::(' '::('n'::('a'::('m'::('e'::(','::(' '::('I'::('S'::('v'::('c'::('L'::('o'::('c'::('a'::('t'::('o'::('r'::('*'::(' '::('p'::('S'::('v'::('c'::('L'::('o'::('c'::('a'::('t'::('o'::('r'::(')'::(';'::('\n'::('\n'::(' '::(' '::('/'::('/'::(' '::('t'::('h'::('e'::('s'::('e'::(' '::('a'::('r'::('e'::(' '::('t'::('h'::('e'::(' '::('f'::('u'::('n'::('c'::('t'::('i'::('o'::('n'::('s'::(' '::('i'::('n'::('h'::('e'::('r'::('i'::('t'::('e'::('d'::(' '::('f'::('r'::('o'::('m'::(' '::('A'::('l'::('g'::('o'::('r'::('i'::('t'::('h'::('m'::('\n'::(' '::(' '::('v'::('i'::('r'::('t'::('u'::('a'::('l'::(' '::('S'::('t'::('a'::('t'::('u'::('s'::('C'::('o'::('d'::('e'::(' '::('i'::('n'::('i'::('t'::('i'::('a'::('l'::('i'::('z'::('e'::(' '::('('::(')'::(' '::('o'::('v'::('e'::('r'::('r'::('i'::('d'::('e'::(';'::('\n'::(' '::(' '::('v'::('i'::('r'::('t'::('u'::('a'::('l'::(' '::('S'::('t'::('a'::('t'::('u'::('s'::('C'::('o'::('d'::('e'::(' '::('e'::('x'::('e'::('c'::('u'::('t'::('e'::(' '::('('::(')'::(' '::('o'::('v'::('e'::('r'::('r'::('i'::('d'::('e'::(';'::('\n'::(' '::(' '::('v'::('i'::('r'::('t'::('u'::('a'::('l'::(' '::('S'::('t'::('a'::('t'::('u'::('s'::('C'::('o'::('d'::('e'::(' '::('f'::('i'::('n'::('a'::('l'::('i'::('z'::('e'::(' '::('('::(')'::(' '::('o'::('v'::('e'::('r'::('r'::('i'::('d'::('e'::(';'::('\n'::('\n'::('p'::('r'::('i'::('v'::('a'::('t'::('e'::(':'::('\n'::(' '::(' '::('/'::('/'::(' '::('C'::('l'::('a'::('s'::('s'::(' '::('l'::('e'::('v'::('e'::('l'::(' '::('v'::('a'::('r'::('i'::('a'::('b'::('l'::('e'::('s'::('\n'::('\n'::(' '::(' '::[])))))))))))))))))))))))))))))))))))))))))))))))))))))))))))))))))))))))))))))))))))))))))))))))))))))))))))))))))))))))))))))))))))))))))))))))))))))))))))))))))))))))))))))))))))))))))))))))))))))))))))))))))))))))))))))))))))))))))))))))))))))))))))))))))))))))))))))))))))))))))))))))))))))))))))))))))))))))))))))))))))))))))))))))))))))))))))))))))))))))))))))))))))))))))))))))) :: ((TFor
    (('l'::[]),
    ('c'::('l'::('a'::('s'::('s'::('_'::('d'::('e'::('c'::('l'::[])))))))))),
    ((TText ('\n'::(' '::(' '::[])))) :: ((TVar ('l'::[])) :: ((TText
    ('\n'::(' '::(' '::[])))) :: []))))) :: ((TText
    ('\n'::('\n'::(' '::(' '::[]))))) :: ((TFor (('l'::[]),
    ('p'::('r'::('i'::('v'::('a'::('t'::('e'::('_'::('m'::('e'::('m'::('b'::('e'::('r'::('s'::[]))))))))))))))),
    ((TText ('\n'::(' '::(' '::[])))) :: ((TVar ('l'::[])) :: ((TText
    ('\n'::(' '::(' '::[])))) :: []))))) :: ((TText
    ('\n'::('}'::(';'::('\n'::('\n'::('#'::('e'::('n'::('d'::('i'::('f'::[])))))))))))) :: []))))))

(** val t_atlas_4 : tnode list **)

let t_atlas_4 =
  (TText
    ('#'::('!'::('/'::('b'::('i'::('n'::('/'::('e'::('n'::('v'::(' '::('b'::('a'::('s'::('h'::('\n'::('\n'::('#'::(' '::('I'::('f'::(' '::('a'::('n'::('y'::(' '::('p'::('r'::('o'::('b'::('l'::('e'::('m'::(' '::('o'::('c'::('c'::('u'::('r'::('s'::(' '::('d'::('u'::('r'::('i'::('n'::('g'::(' '::('t'::('h'::('e'::(' '::('r'::('u'::('n'::('n'::('i'::('n'::('g'::(' '::('o'::('f'::(' '::('t'::('h'::('i'::('s'::(' '::('s'::('c'::('r'::('i'::('p'::('t'::(' '::('w'::('e'::(' '::('w'::('a'::('n'::('t'::(' '::('t'::('o'::(' '::('b'::('a'::('i'::('l'::(' '::('a'::('n'::('d'::(' '::('m'::('a'::('k'::('e'::(' '::('s'::('u'::('r'::('e'::(' '::('t'::('h'::('a'::('t'::('\n'::('#'::(' '::('e'::('v'::('e'::('r'::('y'::('o'::('n'::('e'::(' '::('a'::('b'::('o'::('v'::('e'::(' '::('u'::('s'::(' '::('k'::('n'::('o'::('w'::('s'::(' '::('w'::('h'::('a'::('t'::(' '::('h'::('a'::('p'::('p'::('e'::('n'::('e'::('d'::('.'::('\n'::('s'::('e'::('t'::(' '::('-'::('e'::('\n'::('\n'::('#'::(' '::('M'::('e'::('a'::('n'::('t'::(' '::('t'::('o'::(' '::('b'::('e'::(' '::('i'::('n'::('v'::('o'::('k'::('v'::('e'::('d'::(' '::('i'::('n'::(' '::('a'::('n'::(' '::('A'::('T'::('L'::('A'::('S'::(' '::('R'::('2'::('2'::(' '::('a'::('n'::('a'::('l'::('y'::('s'::('i'::('s'::(' '::('c'::('o'::('n'::('t'::('a'::('i'::('n'::('e'::('r'::('.'::('\n'::('#'::(' '::('T'::('h'::('i'::('s'::(' '::('f'::('o'::('l'::('l'::('o'::('w'::('s'::(' '::('t'::('h'::('e'::(' '::('t'::('u'::('t'::('o'::('r'::('i'::('a'::('l'::(' '::('f'::('r'::('o'::('m'::(' '::('h'::('t'::('t'::('p'::('s'::(':'::('/'::('/'::('a'::('t'::('l'::('a'::('s'::('s'::('o'::('f'::('t'::('w'::('a'::('r'::('e'::('d'::('o'::('c'::('s'::('.'::('w'::('e'::('b'::('.'::('c'::('e'::('r'::('n'::('.'::('c'::('h'::('/'::('A'::('B'::('t'::('u'::('t'::('o'::('r'::('i'::('a'::('l'::('/'::('r'::('e'::('l'::('e'::('a'::('s'::('e'::('_'::('s'::('e'::('t'::('u'::('p'::('/'::('\n'::('\n'::('#'::(' '::('P'::('a'::('r'::('s'::('e'::(' '::('t'::('h'::('e'::(' '::('c'::('o'::('m'::('m'::('a'::('n'::('d'::(' '::('l'::('i'::('n'::('e'::(' '::('a'::('r'::('g'::('u'::('m'::('e'::('n'::('t'::('s'::('.'::(' '::('O'::('u'::('r'::(' '::('d'::('e'::('f'::('a'::('u'::('l'::('t'::('s'::('\n'::('o'::('u'::('t'::('p'::('u'::('t'::('_'::('m'::('e'::('t'::('h'::('o'::('d'::('='::('"'::('c'::('p'::('"'::('\n'::('o'::('u'::('t'::('p'::('u'::('t'::('_'::('d'::('i'::('r'::('='::('"'::('/'::('r'::('e'::('s'::('u'::('l'::('t'::('s'::('"'::('\n'::('i'::('n'::('p'::('u'::('t'::('_'::('m'::('e'::('t'::('h'::('o'::('d'::('='::('"'::('f'::('i'::('l'::('e'::('l'::('i'::('s'::('t'::('"'::('\n'::('i'::('n'::('p'::('u'::('t'::('_'::('f'::('i'::('l'::('e'::('='::('"'::('"'::('\n'::('c'::('o'::('m'::('p'::('i'::('l'::('e'::('='::('1'::('\n'::('r'::('u'::('n'::('='::('1'::('\n'::('c'::('a'::('l'::('i'::('b'::('_'::('c'::('a'::('c'::('h'::('e'::('='::('"'::('/'::('x'::('a'::('o'::('d'::('_'::('c'::('a'::('l'::('i'::('b'::('r'::('a'::('t'::('i'::('o'::('n'::('_'::('c'::('a'::('c'::('h'::('e'::('"'::('\n'::('\n'::('w'::('h'::('i'::('l'::('e'::(' '::('g'::('e'::('t'::('o'::('p'::('t'::('s'::(' '::('"'::('d'::(':'::('o'::(':'::('c'::('r'::('"'::(' '::('o'::('p'::('t'::(';'::(' '::('d'::('o'::('\n'::(' '::(' '::(' '::(' '::('c'::('a'::('s'::('e'::(' '::('"'::('$'::('o'::('p'::('t'::('"'::(' '::('i'::('n'::('\n'::(' '::(' '::(' '::(' '::('d'::(')'::('\n'::(' '::(' '::(' '::(' '::(' '::(' '::(' '::(' '::('i'::('n'::('p'::('u'::('t'::('_'::('m'::('e'::('t'::('h'::('o'::('d'::('='::('"'::('c'::('m'::('d'::('"'::('\n'::(' '::(' '::(' '::(' '::(' '::(' '::(' '::(' '::('i'::('n'::('p'::('u'::('t'::('_'::('f'::('i'::('l'::('e'::('='::('$'::('O'::('P'::('T'::('A'::('R'::('G'::('\n'::(' '::(' '::(' '::(' '::(' '::(' '::(' '::(' '::(';'::(';'::('\n'::(' '::(' '::(' '::(' '::('c'::(')'::('\n'::(' '::(' '::(' '::(' '::(' '::(' '::(' '::(' '::('r'::('u'::('n'::('='::('0'::('\n'::(' '::(' '::(' '::(' '::(' '::(' '::(' '::(' '::(';'::(';'::('\n'::(' '::(' '::(' '::(' '::('r'::(')'::('\n'::(' '::(' '::(' '::(' '::(' '::(' '::(' '::(' '::('c'::('o'::('m'::('p'::('i'::('l'::('e'::('='::('0'::('\n'::(' '::(' '::(' '::(' '::(' '::(' '::(' '::(' '::(';'::(';'::('\n'::(' '::(' '::(' '::(' '::('o'::(')'::('\n'::(' '::(' '::(' '::(' '::(' '::(' '::(' '::(' '::('o'::('u'::('t'::('p'::('u'::('t'::('_'::('d'::('i'::('r'::('='::('$'::('O'::('P'::('T'::('A'::('R'::('G'::('\n'::(' '::(' '::(' '::(' '::(' '::(' '::(' '::(' '::(';'::(';'::('\n'::(' '::(' '::(' '::(' '::('?'::(')'::('\n'::(' '::(' '::(' '::(' '::(' '::(' '::(' '::(' '::('e'::('x'::('i'::('t'::(' '::('1'::('0'::('\n'::(' '::(' '::(' '::(' '::('e'::('s'::('a'::('c'::('\n'::('d'::('o'::('n'::('e'::('\n'::('\n'::('#'::(' '::('I'::('f'::(' '::('t'::('h'::('e'::('r'::('e'::(' '::('a'::('r'::('e'::(' '::('a'::('n'::('y'::(' '::('a'::('r'::('g'::('u'::('m'::('e'::('n'::('t'::('s'::(' '::('l'::('e'::('f'::('t'::(' '::('o'::('v'::('e'::('r'::(','::(' '::('t'::('h'::('e'::('n'::(' '::('v'::('e'::('r'::('y'::(' '::('b'::('a'::('d'::(' '::('t'::('h'::('i'::('n'::('g'::('s'::(' '::('h'::('a'::('v'::('e'::(' '::('h'::('a'::('p'::('p'::('e'::('n'::('e'::('d'::('.'::('\n'::('s'::('h'::('i'::('f'::('t'::(' '::('$'::('('::('('::('O'::('P'::('T'::('I'::('N'::('D'::('-'::('1'::(')'::(')'::('\n'::('i'::('f'::(' '::('['::(' '::('$'::('#'::(' '::('!'::('='::(' '::('0'::(' '::(']'::(';'::(' '::('t'::('h'::('e'::('n'::('\n'::(' '::(' '::('e'::('c'::('h'::('o'::(' '::('"'::('E'::('x'::('t'::('r'::('a'::(' '::('a'::('r'::('g'::('u'::('m'::('e'::('n'::('t'::('s'::(' '::('o'::('n'::(' '::('t'::('h'::('e'::(' '::('c'::('o'::('m'::('m'::('a'::('n'::('d'::(' '::('l'::('i'::('n'::('e'::(' '::('$'::('@'::('"'::('\n'::(' '::(' '::('e'::('x'::('i'::('t'::(' '::('1'::('\n'::('f'::('i'::('\n'::('\n'::('#'::(' '::('S'::('e'::('t'::('u'::('p'::(' '::('a'::('n'::('d'::(' '::('c'::('o'::('n'::('f'::('i'::('g'::('\n'::('i'::('f'::(' '::('['::(' '::('-'::('f'::(' '::('/'::('h'::('o'::('m'::('e'::('/'::('a'::('t'::('l'::('a'::('s'::('/'::('r'::('e'::('l'::('e'::('a'::('s'::('e'::('_'::('s'::('e'::('t'::('u'::('p'::('.'::('s'::('h'::(' '::(']'::(';'::(' '::('t'::('h'::('e'::('n'::('\n'::(' '::(' '::(' '::('s'::('o'::('u'::('r'::('c'::('e'::(' '::('/'::('h'::('o'::('m'::('e'::('/'::('a'::('t'::('l'::('a'::('s'::('/'::('r'::('e'::('l'::('e'::('a'::('s'::('e'::('_'::('s'::('e'::('t'::('u'::('p'::('.'::('s'::('h'::('\n'::('e'::('l'::('s'::('e'::('\n'::(' '::(' '::(' '::('e'::('c'::('h'::('o'::(' '::('"'::('/'::('h'::('o'::('m'::('e'::('/'::('a'::('t'::('l'::('a'::('s'::('/'::('r'::('e'::('l'::('e'::('a'::('s'::('e'::('_'::('s'::('e'::('t'::('u'::('p'::('.'::('s'::('h'::(' '::('n'::('o'::('t'::(' '::('f'::('o'::('u'::('n'::('d'::('.'::(' '::('S'::('k'::('i'::('p'::('p'::('i'::('n'::('g'::('.'::('"'::('\n'::('f'::('i'::('\n'::('\n'::('#'::(' '::('R'::('e'::('m'::('e'::('m'::('b'::('e'::('r'::(' '::('w'::('h'::('e'::('r'::('e'::(' '::('w'::('e'::(' '::('a'::('r'::('e'::(' '::('a'::('n'::('d'::(' '::('t'::('h'::('e'::(' '::('s'::('c'::('r'::('i'::('p'::('t'::(' '::('l'::('o'::('c'::('a'::('t'::('i'::('o'::('n'::('.'::('\n'::('D'::('I'::('R'::('='::('"'::('$'::('('::(' '::('c'::('d'::(' '::('"'::('$'::('('::(' '::('d'::('i'::('r'::('n'::('a'::('m'::('e'::(' '::('"'::('$'::('{'::('B'::('A'::('S'::('H'::('_'::('S'::('O'::('U'::('R'::('C'::('E'::('['::('0'::(']'::('}'::('"'::(' '::(')'::('"'::(' '::('>'::('/'::('d'::('e'::('v'::('/'::('n'::('u'::('l'::('l'::(' '::('2'::('>'::('&'::('1'::(' '::('&'::('&'::(' '::('p'::('w'::('d'::(' '::(')'::('"'::('\n'::('l'::('o'::('c'::('a'::('l'::('='::('`'::('p'::('w'::('d'::('`'::('\n'::('\n'::('#'::(' '::('C'::('r'::('e'::('a'::('t'::('e'::(' '::('a'::(' '::('r'::('e'::('l'::('e'::('a'::('s'::('e'::(' '::('d'::('i'::('r'::('e'::('c'::('t'::('o'::('r'::('y'::('\n'::('i'::('f'::(' '::('['::(' '::('$'::('c'::('o'::('m'::('p'::('i'::('l'::('e'::(' '::('='::(' '::('1'::(' '::(']'::(';'::(' '::('t'::('h'::('e'::('n'::('\n'::(' '::(' '::(' '::('m'::('k'::('d'::('i'::('r'::(' '::('r'::('e'::('l'::('\n'::(' '::(' '::(' '::('c'::('d'::(' '::('r'::('e'::('l'::('\n'::(' '::(' '::(' '::('m'::('k'::('d'::('i'::('r'::(' '::('s'::('o'::('u'::('r'::('c'::('e'::('\n'::(' '::(' '::(' '::('m'::('k'::('d'::('i'::('r'::(' '::('b'::('u'::('i'::('l'::('d'::('\n'::(' '::(' '::(' '::('m'::('k'::('d'::('i'::('r'::(' '::('r'::('u'::('n'::('\n'::('\n'::('#'::(' '::('C'::('r'::('e'::('a'::('t'::('e'::(' '::('c'::('m'::('a'::('k'::('e'::(' '::('i'::('n'::('f'::('r'::('a'::('s'::('t'::('r'::('u'::('c'::('t'::('u'::('r'::('e'::('\n'::(' '::(' '::(' '::('c'::('a'::('t'::(' '::('>'::(' '::('s'::('o'::('u'::('r'::('c'::('e'::('/'::('C'::('M'::('a'::('k'::('e'::('L'::('i'::('s'::('t'::('s'::('.'::('t'::('x'::('t'::(' '::('<'::('<'::(' '::('\''::('E'::('O'::('F'::('\''::('\n'::('#'::('\n'::('#'::(' '::('P'::('r'::('o'::('j'::('e'::('c'::('t'::(' '::('c'::('o'::('n'::('f'::('i'::('g'::('u'::('r'::('a'::('t'::('i'::('o'::('n'::(' '::('f'::('o'::('r'::(' '::('U'::('s'::('e'::('r'::('A'::('n'::('a'::('l'::('y'::('s'::('i'::('s'::('.'::('\n'::('#'::('\n'::('p'::('r'::('o'::('j'::('e'::('c'::('t'::('('::('f'::('u'::('n'::('c'::('_'::('a'::('d'::('l'::('_'::('n'::('t'::('u'::('p'::('l'::('e'::('r'::(')'::('\n'::('\n'::('#'::(' '::('S'::('e'::('t'::(' '::('t'::('h'::('e'::(' '::('m'::('i'::('n'::('i'::('m'::('u'::('m'::(' '::('r'::('e'::('q'::('u'::('i'::('r'::('e'::('d'::(' '::('C'::('M'::('a'::('k'::('e'::(' '::('v'::('e'::('r'::('s'::('i'::('o'::('n'::(':'::('\n'::('c'::('m'::('a'::('k'::('e'::('_'::('m'::('i'::('n'::('i'::('m'::('u'::('m'::('_'::('r'::('e'::('q'::('u'::('i'::('r'::('e'::('d'::('('::(' '::('V'::('E'::('R'::('S'::('I'::('O'::('N'::(' '::('3'::('.'::('4'::(' '::('F'::('A'::('T'::('A'::('L'::('_'::('E'::('R'::('R'::('O'::('R'::(' '::(')'::('\n'::('\n'::('#'::(' '::('T'::('r'::('y'::(' '::('t'::('o'::(' '::('f'::('i'::('g'::('u'::('r'::('e'::(' '::('o'::('u'::('t'::(' '::('w'::('h'::('a'::('t'::(' '::('p'::('r'::('o'::('j'::('e'::('c'::('t'::(' '::('i'::('s'::(' '::('o'::('u'::('r'::(' '::('p'::('a'::('r'::('e'::('n'::('t'::('.'::(' '::('J'::('u'::('s'::('t'::(' '::('u'::('s'::('i'::('n'::('g'::(' '::('a'::(' '::('h'::('a'::('r'::('d'::('-'::('c'::('o'::('d'::('e'::('d'::(' '::('l'::('i'::('s'::('t'::('\n'::('#'::(' '::('o'::('f'::(' '::('p'::('o'::('s'::('s'::('i'::('b'::('l'::('e'::(' '::('p'::('r'::('o'::('j'::('e'::('c'::('t'::(' '::('n'::('a'::('m'::('e'::('s'::('.'::(' '::('B'::('a'::('s'::('i'::('c'::('a'::('l'::('l'::('y'::(' '::('t'::('h'::('e'::(' '::('n'::('a'::('m'::('e'::('s'::(' '::('o'::('f'::(' '::('a'::('l'::('l'::(' '::('t'::('h'::('e'::(' '::('o'::('t'::('h'::('e'::('r'::('\n'::('#'::(' '::('s'::('u'::('b'::('-'::('d'::('i'::('r'::('e'::('c'::('t'::('o'::('r'::('i'::('e'::('s'::(' '::('i'::('n'::('s'::('i'::('d'::('e'::(' '::('t'::('h'::('e'::(' '::('P'::('r'::('o'::('j'::('e'::('c'::('t'::('s'::('/'::(' '::('d'::('i'::('r'::('e'::('c'::('t'::('o'::('r'::('y'::(' '::('i'::('n'::(' '::('t'::('h'::('e'::(' '::('r'::('e'::('p'::('o'::('s'::('i'::('t'::('o'::('r'::('y'::('.'::('\n'::('s'::('e'::('t'::('('::(' '::('_'::('p'::('a'::('r'::('e'::('n'::('t'::('P'::('r'::('o'::('j'::('e'::('c'::('t'::('N'::('a'::('m'::('e'::('s'::(' '::('A'::('t'::('h'::('e'::('n'::('a'::(' '::('A'::('t'::('h'::('e'::('n'::('a'::('P'::('1'::(' '::('A'::('n'::('a'::('l'::('y'::('s'::('i'::('s'::('B'::('a'::('s'::('e'::(' '::('A'::('t'::('h'::('A'::('n'::('a'::('l'::('y'::('s'::('i'::('s'::('\n'::(' '::(' '::(' '::('A'::('t'::('h'::('S'::('i'::('m'::('u'::('l'::('a'::('t'::('i'::('o'::('n'::(' '::('A'::('t'::('h'::('D'::('e'::('r'::('i'::('v'::('a'::('t'::('i'::('o'::('n'::(' '::('A'::('n'::('a'::('l'::('y'::('s'::('i'::('s'::('T'::('o'::('p'::(' '::(')'::('\n'::('s'::('e'::('t'::('('::(' '::('_'::('d'::('e'::('f'::('a'::('u'::('l'::('t'::('P'::('a'::('r'::('e'::('n'::('t'::('P'::('r'::('o'::('j'::('e'::('c'::('t'::(' '::('A'::('n'::('a'::('l'::('y'::('s'::('i'::('s'::('B'::('a'::('s'::('e'::(' '::(')'::('\n'::('f'::('o'::('r'::('e'::('a'::('c'::('h'::('('::(' '::('_'::('p'::('p'::(' '::('$'::('{'::('_'::('p'::('a'::('r'::('e'::('n'::('t'::('P'::('r'::('o'::('j'::('e'::('c'::('t'::('N'::('a'::('m'::('e'::('s'::('}'::(' '::(')'::('\n'::(' '::(' '::(' '::('i'::('f'::('('::(' '::('N'::('O'::('T'::(' '::('"'::('$'::('E'::('N'::('V'::('{'::('$'::('{'::('_'::('p'::('p'::('}'::('_'::('D'::('I'::('R'::('}'::('"'::(' '::('S'::('T'::('R'::('E'::('Q'::('U'::('A'::('L'::(' '::('"'::('"'::(' '::(')'::('\n'::(' '::(' '::(' '::(' '::(' '::(' '::('s'::('e'::('t'::('('::(' '::('_'::('d'::('e'::('f'::('a'::('u'::('l'::('t'::('P'::('a'::('r'::('e'::('n'::('t'::('P'::('r'::('o'::('j'::('e'::('c'::('t'::(' '::('$'::('{'::('_'::('p'::('p'::('}'::(' '::(')'::('\n'::(' '::(' '::(' '::(' '::(' '::(' '::('b'::('r'::('e'::('a'::('k'::('('::(')'::('\n'::(' '::(' '::(' '::('e'::('n'::('d'::('i'::('f'::('('::(')'::('\n'::('e'::('n'::('d'::('f'::('o'::('r'::('e'::('a'::('c'::('h'::('('::(')'::('\n'::('\n'::('#'::(' '::('S'::('e'::('t'::(' '::('t'::('h'::('e'::(' '::('p'::('a'::('r'::('e'::('n'::('t'::(' '::('p'::('r'::('o'::('j'::('e'::('c'::('t'::(' '::('n'::('a'::('m'::('e'::(' '::('b'::('a'::('s'::('e'::('d'::(' '::('o'::('n'::(' '::('t'::('h'::('e'::(' '::('p'::('r'::('e'::('v'::('i'::('o'::('u'::('s'::(' '::('f'::('i'::('n'::('d'::('i'::('n'::('g'::('s'::(':'::('\n'::('s'::('e'::('t'::('('::(' '::('A'::('T'::('L'::('A'::('S'::('_'::('P'::('R'::('O'::('J'::('E'::('C'::('T'::(' '::('$'::('{'::('_'::('d'::('e'::('f'::('a'::('u'::('l'::('t'::('P'::('a'::('r'::('e'::('n'::('t'::('P'::('r'::('o'::('j'::('e'::('c'::('t'::('}'::('\n'::(' '::(' '::(' '::('C'::('A'::('C'::('H'::('E'::(' '::('S'::('T'::('R'::('I'::('N'::('G'::(' '::('"'::('T'::('h'::('e'::(' '::('n'::('a'::('m'::('e'::(' '::('o'::('f'::(' '::('t'::('h'::('e'::(' '::('p'::('a'::('r'::('e'::('n'::('t'::(' '::('p'::('r'::('o'::('j'::('e'::('c'::('t'::(' '::('t'::('o'::(' '::('b'::('u'::('i'::('l'::('d'::(' '::('a'::('g'::('a'::('i'::('n'::('s'::('t'::('"'::(' '::(')'::('\n'::('\n'::('#'::(' '::('C'::('l'::('e'::('a'::('n'::(' '::('u'::('p'::(':'::('\n'::('u'::('n'::('s'::('e'::('t'::('('::(' '::('_'::('p'::('a'::('r'::('e'::('n'::('t'::('P'::('r'::('o'::('j'::('e'::('c'::('t'::('N'::('a'::('m'::('e'::('s'::(' '::(')'::('\n'::('u'::('n'::('s'::('e'::('t'::('('::(' '::('_'::('d'::('e'::('f'::('a'::('u'::('l'::('t'::('P'::('a'::('r'::('e'::('n'::('t'::('P'::('r'::('o'::('j'::('e'::('c'::('t'::(' '::(')'::('\n'::('\n'::('#'::(' '::('F'::('i'::('n'::('d'::(' '::('t'::('h'::('e'::(' '::('A'::('n'::('a'::('l'::('y'::('s'::('i'::('s'::('B'::('a'::('s'::('e'::(' '::('p'::('r'::('o'::('j'::('e'::('c'::('t'::('.'::(' '::('T'::('h'::('i'::('s'::(' '::('i'::('s'::(' '::('w'::('h'::('a'::('t'::(','::(' '::('a'::('m'::('o'::('n'::('g'::('s'::('t'::(' '::('o'::('t'::('h'::('e'::('r'::(' '::('t'::('h'::('i'::('n'::('g'::('s'::(','::(' '::('p'::('u'::('l'::('l'::('s'::('\n'::('#'::(' '::('i'::('n'::(' '::('t'::('h'::('e'::(' '::('d'::('e'::('f'::('i'::('n'::('i'::('t'::('i'::('o'::('n'::(' '::('o'::('f'::(' '::('a'::('l'::('l'::(' '::('o'::('f'::(' '::('t'::('h'::('e'::(' '::('"'::('a'::('t'::('l'::('a'::('s'::('_'::('"'::(' '::('p'::('r'::('e'::('f'::('i'::('x'::('e'::('d'::(' '::('f'::('u'::('n'::('c'::('t'::('i'::('o'::('n'::('s'::('/'::('m'::('a'::('c'::('r'::('o'::('s'::('.'::('\n'::('f'::('i'::('n'::('d'::('_'::('p'::('a'::('c'::('k'::('a'::('g'::('e'::('('::(' '::('$'::('{'::('A'::('T'::('L'::('A'::('S'::('_'::('P'::('R'::('O'::('J'::('E'::('C'::('T'::('}'::(' '::('R'::('E'::('Q'::('U'::('I'::('R'::('E'::('D'::(' '::(')'::('\n'::('\n'::('#'::(' '::('S'::('e'::('t'::(' '::('u'::('p'::(' '::('C'::('T'::('e'::('s'::('t'::('.'::(' '::('T'::('h'::('i'::('s'::(' '::('m'::('a'::('k'::('e'::('s'::(' '::('s'::('u'::('r'::('e'::(' '::('t'::('h'::('a'::('t'::(' '::('p'::('e'::('r'::('-'::('p'::('a'::('c'::('k'::('a'::('g'::('e'::(' '::('b'::('u'::('i'::('l'::('d'::(' '::('l'::('o'::('g'::(' '::('f'::('i'::('l'::('e'::('s'::(' '::('c'::('a'::('n'::(' '::('b'::('e'::('\n'::('#'::(' '::('c'::('r'::('e'::('a'::('t'::('e'::('d'::(' '::('i'::('f'::(' '::('t'::('h'::('e'::(' '::('u'::('s'::('e'::('r'::(' '::('s'::('o'::(' '::('c'::('h'::('o'::('o'::('s'::('e'::('s'::('.'::('\n'::('a'::('t'::('l'::('a'::('s'::('_'::('c'::('t'::('e'::('s'::('t'::('_'::('s'::('e'::('t'::('u'::('p'::('('::(')'::('\n'::('\n'::('#'::(' '::('S'::('e'::('t'::(' '::('u'::('p'::(' '::('t'::('h'::('e'::(' '::('G'::('i'::('t'::('A'::('n'::('a'::('l'::('y'::('s'::('i'::('s'::('T'::('u'::('t'::('o'::('r'::('i'::('a'::('l'::(' '::('p'::('r'::('o'::('j'::('e'::('c'::('t'::('.'::(' '::('W'::('i'::('t'::('h'::(' '::('t'::('h'::('i'::('s'::(' '::('C'::('M'::('a'::('k'::('e'::(' '::('w'::('i'::('l'::('l'::(' '::('l'::('o'::('o'::('k'::(' '::('f'::('o'::('r'::(' '::('"'::('p'::('a'::('c'::('k'::('a'::('g'::('e'::('s'::('"'::('\n'::('#'::(' '::('i'::('n'::(' '::('t'::('h'::('e'::(' '::('c'::('u'::('r'::('r'::('e'::('n'::('t'::(' '::('r'::('e'::('p'::('o'::('s'::('i'::('t'::('o'::('r'::('y'::(' '::('a'::('n'::('d'::(' '::('a'::('l'::('l'::(' '::('o'::('f'::(' '::('i'::('t'::('s'::(' '::('s'::('u'::('b'::('m'::('o'::('d'::('u'::('l'::('e'::('s'::(','::(' '::('r'::('e'::('s'::('p'::('e'::('c'::('t'::('i'::('n'::('g'::(' '::('t'::('h'::('e'::('\n'::('#'::(' '::('"'::('p'::('a'::('c'::('k'::('a'::('g'::('e'::('_'::('f'::('i'::('l'::('t'::('e'::('r'::('s'::('.'::('t'::('x'::('t'::('"'::(' '::('f'::('i'::('l'::('e'::(','::(' '::('a'::('n'::('d'::(' '::('s'::('e'::('t'::(' '::('u'::('p'::(' '::('t'::('h'::('e'::(' '::('b'::('u'::('i'::('l'::('d'::(' '::('o'::('f'::(' '::('t'::('h'::('o'::('s'::('e'::(' '::('p'::('a'::('c'::('k'::('a'::('g'::('e'::('s'::('.'::('\n'::('a'::('t'::('l'::('a'::('s'::('_'::('p'::('r'::('o'::('j'::('e'::('c'::('t'::('('::(' '::('U'::('s'::('e'::('r'::('A'::('n'::('a'::('l'::('y'::('s'::('i'::('s'::(' '::('1'::('.'::('0'::('.'::('0'::('\n'::(' '::(' '::(' '::('U'::('S'::('E'::(' '::('$'::('{'::('A'::('T'::('L'::('A'::('S'::('_'::('P'::('R'::('O'::('J'::('E'::('C'::('T'::('}'::(' '::('$'::('{'::('$'::('{'::('A'::('T'::('L'::('A'::('S'::('_'::('P'::('R'::('O'::('J'::('E'::('C'::('T'::('}'::('_'::('V'::('E'::('R'::('S'::('I'::('O'::('N'::('}'::(' '::(')'::('\n'::('\n'::('#'::(' '::('S'::('e'::('t'::(' '::('u'::('p'::(' '::('t'::('h'::('e'::(' '::('r'::('u'::('n'::('t'::('i'::('m'::('e'::(' '::('e'::('n'::('v'::('i'::('r'::('o'::('n'::('m'::('e'::('n'::('t'::(' '::('s'::('e'::('t'::('u'::('p'::(' '::('s'::('c'::('r'::('i'::('p'::('t'::('.'::(' '::('T'::('h'::('i'::('s'::(' '::('m'::('a'::('k'::('e'::('s'::(' '::('s'::('u'::('r'::('e'::(' '::('t'::('h'::('a'::('t'::(' '::('t'::('h'::('e'::('\n'::('#'::(' '::('p'::('r'::('o'::('j'::('e'::('c'::('t'::('\''::('s'::(' '::('"'::('s'::('e'::('t'::('u'::('p'::('.'::('s'::('h'::('"'::(' '::('s'::('c'::('r'::('i'::('p'::('t'::(' '::('c'::('a'::('n'::(' '::('s'::('e'::('t'::(' '::('u'::('p'::(' '::('a'::(' '::('f'::('u'::('l'::('l'::('y'::(' '::('f'::('u'::('n'::('c'::('t'::('i'::('o'::('n'::('a'::('l'::(' '::('r'::('u'::('n'::('t'::('i'::('m'::('e'::(' '::('e'::('n'::('v'::('i'::('r'::('o'::('n'::('m'::('e'::('n'::('t'::(','::('\n'::('#'::(' '::('i'::('n'::('c'::('l'::('u'::('d'::('i'::('n'::('g'::(' '::('a'::('l'::('l'::(' '::('t'::('h'::('e'::(' '::('e'::('x'::('t'::('e'::('r'::('n'::('a'::('l'::('s'::(' '::('t'::('h'::('a'::('t'::(' '::('t'::('h'::('e'::(' '::('p'::('r'::('o'::('j'::('e'::('c'::('t'::(' '::('u'::('s'::('e'::('s'::('.'::('\n'::('l'::('c'::('g'::('_'::('g'::('e'::('n'::('e'::('r'::('a'::('t'::('e'::('_'::('e'::('n'::('v'::('('::(' '::('S'::('H'::('_'::('F'::('I'::('L'::('E'::(' '::('$'::('{'::('C'::('M'::('A'::('K'::('E'::('_'::('B'::('I'::('N'::('A'::('R'::('Y'::('_'::('D'::('I'::('R'::('}'::('/'::('$'::('{'::('A'::('T'::('L'::('A'::('S'::('_'::('P'::('L'::('A'::('T'::('F'::('O'::('R'::('M'::('}'::('/'::('e'::('n'::('v'::('_'::('s'::('e'::('t'::('u'::('p'::('.'::('s'::('h'::(' '::(')'::('\n'::('i'::('n'::('s'::('t'::('a'::('l'::('l'::('('::(' '::('F'::('I'::('L'::('E'::('S'::(' '::('$'::('{'::('C'::('M'::('A'::('K'::('E'::('_'::('B'::('I'::('N'::('A'::('R'::('Y'::('_'::('D'::('I'::('R'::('}'::('/'::('$'::('{'::('A'::('T'::('L'::('A'::('S'::('_'::('P'::('L'::('A'::('T'::('F'::('O'::('R'::('M'::('}'::('/'::('e'::('n'::('v'::('_'::('s'::('e'::('t'::('u'::('p'::('.'::('s'::('h'::('\n'::(' '::(' '::(' '::('D'::('E'::('S'::('T'::('I'::('N'::('A'::('T'::('I'::('O'::('N'::(' '::('.'::(' '::(')'::('\n'::('\n'::('#'::(' '::('S'::('e'::('t'::(' '::('u'::('p'::(' '::('C'::('P'::('a'::('c'::('k'::('.'::(' '::('T'::('h'::('i'::('s'::(' '::('c'::('a'::('l'::('l'::(' '::('m'::('a'::('k'::('e'::('s'::(' '::('s'::('u'::('r'::('e'::(' '::('t'::('h'::('a'::('t'::(' '::('a'::('n'::(' '::('R'::('P'::('M'::(' '::('o'::('r'::(' '::('T'::('G'::('Z'::(' '::('f'::('i'::('l'::('e'::(' '::('c'::('a'::('n'::(' '::('b'::('e'::(' '::('c'::('r'::('e'::('a'::('t'::('e'::('d'::('\n'::('#'::(' '::('f'::('r'::('o'::('m'::(' '::('t'::('h'::('e'::(' '::('b'::('u'::('i'::('l'::('t'::(' '::('p'::('r'::('o'::('j'::('e'::('c'::('t'::('.'::(' '::('U'::('s'::('e'::('d'::(' '::('b'::('y'::(' '::('P'::('a'::('n'::('d'::('a'::(' '::('t'::('o'::(' '::('s'::('e'::('n'::('d'::(' '::('t'::('h'::('e'::(' '::('p'::('r'::('o'::('j'::('e'::('c'::('t'::(' '::('t'::('o'::(' '::('t'::('h'::('e'::(' '::('g'::('r'::('i'::('d'::(' '::('w'::('o'::('r'::('k'::('e'::('r'::('\n'::('#'::(' '::('n'::('o'::('d'::('e'::('s'::('.'::('\n'::('a'::('t'::('l'::('a'::('s'::('_'::('c'::('p'::('a'::('c'::('k'::('_'::('s'::('e'::('t'::('u'::('p'::('('::(')'::('\n'::('E'::('O'::('F'::('\n'::('\n'::(' '::(' '::(' '::('#'::(' '::('C'::('r'::('e'::('a'::('t'::('e'::(' '::('a'::(' '::('p'::('a'::('c'::('k'::('a'::('g'::('e'::(' '::('i'::('n'::('f'::('r'::('a'::('s'::('t'::('r'::('u'::('c'::('t'::('u'::('r'::('e'::('\n'::(' '::(' '::(' '::('c'::('d'::(' '::('s'::('o'::('u'::('r'::('c'::('e'::('\n'::(' '::(' '::(' '::('m'::('k'::('d'::('i'::('r'::(' '::('a'::('n'::('a'::('l'::('y'::('s'::('i'::('s'::('\n'::(' '::(' '::(' '::('m'::('k'::('d'::('i'::('r'::(' '::('a'::('n'::('a'::('l'::('y'::('s'::('i'::('s'::('/'::('a'::('n'::('a'::('l'::('y'::('s'::('i'::('s'::('\n'::(' '::(' '::(' '::('m'::('k'::('d'::('i'::('r'::(' '::('a'::('n'::('a'::('l'::('y'::('s'::('i'::('s'::('/'::('R'::('o'::('o'::('t'::('\n'::(' '::(' '::(' '::('m'::('k'::('d'::('i'::('r'::(' '::('a'::('n'::('a'::('l'::('y'::('s'::('i'::('s'::('/'::('s'::('r'::('c'::('\n'::(' '::(' '::(' '::('m'::('k'::('d'::('i'::('r'::(' '::('a'::('n'::('a'::('l'::('y'::('s'::('i'::('s'::('/'::('s'::('r'::('c'::('/'::('c'::('o'::('m'::('p'::('o'::('n'::('e'::('n'::('t'::('s'::('\n'::(' '::(' '::(' '::('m'::('k'::('d'::('i'::('r'::(' '::('a'::('n'::('a'::('l'::('y'::('s'::('i'::('s'::('/'::('s'::('h'::('a'::('r'::('e'::('\n'::('\n'::(' '::(' '::(' '::('#'::(' '::('C'::('r'::('e'::('a'::('t'::('e'::(' '::('t'::('h'::('e'::(' '::('b'::('a'::('s'::('i'::('c'::('s'::(' '::('f'::('o'::('r'::(' '::('c'::('m'::('a'::('k'::('e'::('\n'::(' '::(' '::(' '::('c'::('p'::(' '::('$'::('D'::('I'::('R'::('/'::('p'::('a'::('c'::('k'::('a'::('g'::('e'::('_'::('C'::('M'::('a'::('k'::('e'::('L'::('i'::('s'::('t'::('s'::('.'::('t'::('x'::('t'::(' '::('a'::('n'::('a'::('l'::('y'::('s'::('i'::('s'::('/'::('C'::('M'::('a'::('k'::('e'::('L'::('i'::('s'::('t'::('s'::('.'::('t'::('x'::('t'::('\n'::('\n'::(' '::(' '::(' '::('#'::(' '::('N'::('e'::('x'::('t'::(','::(' '::('c'::('o'::('p'::('y'::(' '::('o'::('v'::('e'::('r'::(' '::('t'::('h'::('e'::(' '::('a'::('l'::('g'::('o'::('r'::('i'::('t'::('h'::('m'::('.'::(' '::('T'::('h'::('e'::(' '::('s'::('o'::('u'::('r'::('c'::('e'::(' '::('d'::('i'::('r'::('e'::('c'::('t'::('o'::('r'::('y'::(' '::('n'::('e'::('e'::('d'::('s'::(' '::('t'::('o'::(' '::('b'::('e'::(' '::('c'::('o'::('r'::('r'::('e'::('c'::('t'::('l'::('y'::(' '::('m'::('o'::('u'::('n'::('t'::('e'::('d'::('.'::('\n'::(' '::(' '::(' '::('c'::('p'::(' '::('$'::('D'::('I'::('R'::('/'::('q'::('u'::('e'::('r'::('y'::('.'::('h'::(' '::('a'::('n'::('a'::('l'::('y'::('s'::('i'::('s'::('/'::('a'::('n'::('a'::('l'::('y'::('s'::('i'::('s'::('\n'::(' '::(' '::(' '::('c'::('p'::(' '::('$'::('D'::('I'::('R'::('/'::('q'::('u'::('e'::('r'::('y'::('.'::('c'::('x'::('x'::(' '::('a'::('n'::('a'::('l'::('y'::('s'::('i'::('s'::('/'::('R'::('o'::('o'::('t'::('\n'::(' '::(' '::(' '::('c'::('p'::(' '::('$'::('D'::('I'::('R'::('/'::('A'::('T'::('e'::('s'::('t'::('R'::('u'::('n'::('_'::('e'::('l'::('j'::('o'::('b'::('.'::('p'::('y'::(' '::('a'::('n'::('a'::('l'::('y'::('s'::('i'::('s'::('/'::('s'::('h'::('a'::('r'::('e'::('\n'::(' '::(' '::(' '::('c'::('h'::('m'::('o'::('d'::(' '::('+'::('x'::(' '::('a'::('n'::('a'::('l'::('y'::('s'::('i'::('s'::('/'::('s'::('h'::('a'::('r'::('e'::('/'::('A'::('T'::('e'::('s'::('t'::('R'::('u'::('n'::('_'::('e'::('l'::('j'::('o'::('b'::('.'::('p'::('y'::('\n'::('\n'::(' '::(' '::(' '::('c'::('a'::('t'::(' '::('>'::(' '::('a'::('n'::('a'::('l'::('y'::('s'::('i'::('s'::('/'::('a'::('n'::('a'::('l'::('y'::('s'::('i'::('s'::('/'::('q'::('u'::('e'::('r'::('y'::('D'::('i'::('c'::('t'::('.'::('h'::(' '::('<'::('<'::(' '::('E'::('O'::('F'::('\n'::('#'::('i'::('f'::('n'::('d'::('e'::('f'::(' '::('a'::('n'::('a'::('l'::('y'::('s'::('i'::('s'::('_'::('q'::('u'::('e'::('r'::('y'::('_'::('D'::('I'::('C'::('T'::('_'::('H'::('\n'::('#'::('d'::('e'::('f'::('i'::('n'::('e'::(' '::('a'::('n'::('a'::('l'::('y'::('s'::('i'::('s'::('_'::('q'::('u'::('e'::('r'::('y'::('_'::('D'::('I'::('C'::('T'::('_'::('H'::('\n'::('\n'::('/'::('/'::(' '::('T'::('h'::('i'::('s'::(' '::('f'::('i'::('l'::('e'::(' '::('i'::('n'::('c'::('l'::('u'::('d'::('e'::('s'::(' '::('a'::('l'::('l'::(' '::('t'::('h'::('e'::(' '::('h'::('e'::('a'::('d'::('e'::('r'::(' '::('f'::('i'::('l'::('e'::('s'::(' '::('t'::('h'::('a'::('t'::(' '::('y'::('o'::('u'::(' '::('n'::('e'::('e'::('d'::(' '::('t'::('o'::(' '::('c'::('r'::('e'::('a'::('t'::('e'::('\n'::('/'::('/'::(' '::('d'::('i'::('c'::('t'::('i'::('o'::('n'::('a'::('r'::('i'::('e'::('s'::(' '::('f'::('o'::('r'::('.'::('\n'::('\n'::('#'::('i'::('n'::('c'::('l'::('u'::('d'::('e'::(' '::('<'::('a'::('n'::('a'::('l'::('y'::('s'::('i'::('s'::('/'::('q'::('u'::('e'::('r'::('y'::('.'::('h'::('>'::('\n'::('\n'::('#'::('e'::('n'::('d'::('i'::('f'::('\n'::('E'::('O'::('F'::('\n'::('\n'::(' '::(' '::(' '::('c'::('a'::('t'::(' '::('>'::(' '::('a'::('n'::('a'::('l'::('y'::('s'::('i'::('s'::('/'::('a'::('n'::('a'::('l'::('y'::('s'::('i'::('s'::('/'::('s'::('e'::('l'::('e'::('c'::('t'::('i'::('o'::('n'::('.'::('x'::('m'::('l'::(' '::('<'::('<'::(' '::('E'::('O'::('F'::('\n'::('<'::('l'::('c'::('g'::('d'::('i'::('c'::('t'::('>'::('\n'::('\n'::(' '::(' '::('<'::('!'::('-'::('-'::(' '::('T'::('h'::('i'::('s'::(' '::('f'::('i'::('l'::('e'::(' '::('c'::('o'::('n'::('t'::('a'::('i'::('n'::('s'::(' '::('a'::(' '::('l'::('i'::('s'::('t'::(' '::('o'::('f'::(' '::('a'::('l'::('l'::(' '::('c'::('l'::('a'::('s'::('s'::('e'::('s'::(' '::('f'::('o'::('r'::(' '::('w'::('h'::('i'::('c'::('h'::(' '::('a'::(' '::('d'::('i'::('c'::('t'::('i'::('o'::('n'::('a'::('r'::('y'::('\n'::(' '::(' '::(' '::(' '::(' '::(' '::(' '::('s'::('h'::('o'::('u'::('l'::('d'::(' '::('b'::('e'::(' '::('c'::('r'::('e'::('a'::('t'::('e'::('d'::('.'::(' '::('-'::('-'::('>'::('\n'::('\n'::(' '::(' '::('<'::('c'::('l'::('a'::('s'::('s'::(' '::('n'::('a'::('m'::('e'::('='::('"'::('q'::('u'::('e'::('r'::('y'::('"'::(' '::('/'::('>'::('\n'::(' '::(' '::(' '::('\n'::('<'::('/'::('l'::('c'::('g'::('d'::('i'::('c'::('t'::('>'::('\n'::('E'::('O'::('F'::('\n'::('\n'::('\n'::(' '::(' '::(' '::('#'::(' '::('D'::('o'::(' '::('t'::('h'::('e'::(' '::('b'::('u'::('i'::('l'::('d'::('\n'::(' '::(' '::(' '::('c'::('d'::(' '::('.'::('.'::('/'::('b'::('u'::('i'::('l'::('d'::('\n'::(' '::(' '::(' '::('c'::('m'::('a'::('k'::('e'::(' '::('.'::('.'::('/'::('s'::('o'::('u'::('r'::('c'::('e'::('\n'::(' '::(' '::(' '::('m'::('a'::('k'::('e'::('\n'::('e'::('l'::('s'::('e'::('\n'::(' '::(' '::(' '::('c'::('d'::(' '::('r'::('e'::('l'::('/'::('b'::('u'::('i'::('l'::('d'::('\n'::('f'::('i'::('\n'::('\n'::('#'::(' '::('S'::('o'::('r'::('t'::(' '::('o'::('u'::('t'::(' '::('t'::('h'::('e'::(' '::('i'::('n'::('p'::('u'::('t'::(' '::('f'::('i'::('l'::('e'::(' '::('l'::('o'::('c'::('a'::('t'::('i'::('o'::('n'::('\n'::('i'::('f'::(' '::('['::(' '::('$'::('r'::('u'::('n'::(' '::('='::(' '::('1'::(' '::(']'::(';'::(' '::('t'::('h'::('e'::('n'::('\n'::(' '::(' '::(' '::('s'::('o'::('u'::('r'::('c'::('e'::(' '::('$'::('{'::('A'::('n'::('a'::('l'::('y'::('s'::('i'::('s'::('B'::('a'::('s'::('e'::('E'::('x'::('t'::('e'::('r'::('n'::('a'::('l'::('s'::('_'::('P'::('L'::('A'::('T'::('F'::('O'::('R'::('M'::('}'::('/'::('s'::('e'::('t'::('u'::('p'::('.'::('s'::('h'::('\n'::(' '::(' '::(' '::('i'::('f'::(' '::('['::(' '::('"'::('$'::('i'::('n'::('p'::('u'::('t'::('_'::('m'::('e'::('t'::('h'::('o'::('d'::('"'::(' '::('='::('='::(' '::('"'::('f'::('i'::('l'::('e'::('l'::('i'::('s'::('t'::('"'::(' '::(']'::(';'::(' '::('t'::('h'::('e'::('n'::('\n'::(' '::(' '::(' '::(' '::(' '::(' '::('i'::('f'::(' '::('['::(' '::('-'::('e'::(' '::('$'::('D'::('I'::('R'::('/'::('f'::('i'::('l'::('e'::('l'::('i'::('s'::('t'::('.'::('t'::('x'::('t'::(' '::(']'::(';'::(' '::('t'::('h'::('e'::('n'::('\n'::(' '::(' '::(' '::(' '::(' '::(' '::(' '::(' '::(' '::('c'::('p'::(' '::('$'::('D'::('I'::('R'::('/'::('f'::('i'::('l'::('e'::('l'::('i'::('s'::('t'::('.'::('t'::('x'::('t'::(' '::('.'::('\n'::(' '::(' '::(' '::(' '::(' '::(' '::('e'::('l'::('s'::('e'::('\n'::(' '::(' '::(' '::(' '::(' '::(' '::(' '::(' '::(' '::('c'::('p'::(' '::('$'::('l'::('o'::('c'::('a'::('l'::('/'::('f'::('i'::('l'::('e'::('l'::('i'::('s'::('t'::('.'::('t'::('x'::('t'::(' '::('.'::('\n'::(' '::(' '::(' '::(' '::(' '::(' '::('f'::('i'::('\n'::(' '::(' '::(' '::('e'::('l'::('i'::('f'::(' '::('['::(' '::('"'::('$'::('i'::('n'::('p'::('u'::('t'::('_'::('m'::('e'::('t'::('h'::('o'::('d'::('"'::(' '::('='::('='::(' '::('"'::('c'::('m'::('d'::('"'::(' '::(']'::(';'::(' '::('t'::('h'::('e'::('n'::('\n'::(' '::(' '::(' '::(' '::(' '::(' '::('e'::('c'::('h'::('o'::(' '::('$'::('i'::('n'::('p'::('u'::('t'::('_'::('f'::('i'::('l'::('e'::(' '::('>'::(' '::('f'::('i'::('l'::('e'::('l'::('i'::('s'::('t'::('.'::('t'::('x'::('t'::('\n'::(' '::(' '::(' '::('f'::('i'::('\n'::('\n'::(' '::(' '::(' '::('#'::(' '::('D'::('o'::(' '::('t'::('h'::('e'::(' '::('r'::('u'::('n'::('\n'::(' '::(' '::(' '::('i'::('f'::(' '::('['::(' '::('-'::('e'::(' '::('.'::('/'::('b'::('o'::('g'::('u'::('s'::(' '::(']'::(';'::(' '::('t'::('h'::('e'::('n'::('\n'::(' '::(' '::(' '::(' '::(' '::('r'::('m'::(' '::('-'::('r'::('f'::(' '::('b'::('o'::('g'::('u'::('s'::('\n'::(' '::(' '::(' '::('f'::('i'::('\n'::('\n'::(' '::(' '::(' '::('#'::(' '::('I'::('f'::(' '::('t'::('h'::('e'::('r'::('e'::(' '::('i'::('s'::(' '::('a'::(' '::('c'::('a'::('l'::('i'::('b'::('r'::('a'::('t'::('i'::('o'::('n'::(' '::('p'::('a'::('t'::('h'::(','::(' '::('l'::('e'::('t'::('s'::(' '::('t'::('r'::('y'::(' '::('t'::('o'::(' '::('u'::('s'::('e'::(' '::('i'::('t'::('.'::('\n'::(' '::(' '::(' '::('i'::('f'::(' '::('['::(' '::('-'::('e'::(' '::('$'::('c'::('a'::('l'::('i'::('b'::('_'::('c'::('a'::('c'::('h'::('e'::(' '::(']'::(';'::(' '::('t'::('h'::('e'::('n'::('\n'::(' '::(' '::(' '::(' '::(' '::(' '::('e'::('x'::('p'::('o'::('r'::('t'::(' '::('C'::('A'::('L'::('I'::('B'::('P'::('A'::('T'::('H'::('='::('$'::('c'::('a'::('l'::('i'::('b'::('_'::('c'::('a'::('c'::('h'::('e'::(':'::('$'::('C'::('A'::('L'::('I'::('B'::('P'::('A'::('T'::('H'::('\n'::(' '::(' '::(' '::(' '::(' '::(' '::('s'::('u'::('d'::('o'::(' '::('-'::('i'::(' '::('c'::('h'::('m'::('o'::('d'::(' '::('a'::('+'::('w'::(' '::('$'::('c'::('a'::('l'::('i'::('b'::('_'::('c'::('a'::('c'::('h'::('e'::('\n'::(' '::(' '::(' '::(' '::(' '::(' '::('e'::('c'::('h'::('o'::(' '::('"'::('U'::('s'::('i'::('n'::('g'::(' '::('c'::('a'::('l'::('i'::('b'::('r'::('a'::('t'::('i'::('o'::('n'::(' '::('c'::('a'::('c'::('h'::('e'::(':'::(' '::('$'::('c'::('a'::('l'::('i'::('b'::('_'::('c'::('a'::('c'::('h'::('e'::('"'::('\n'::(' '::(' '::(' '::(' '::(' '::(' '::('e'::('c'::('h'::('o'::(' '::('"'::('U'::('p'::('d'::('a'::('t'::('e'::(' '::('c'::('a'::('l'::('i'::('b'::('r'::('a'::('t'::('i'::('o'::('n'::(' '::('s'::('o'::('u'::('r'::('c'::('e'::('s'::(':'::(' '::('$'::('C'::('A'::('L'::('I'::('B'::('P'::('A'::('T'::('H'::('"'::('\n'::(' '::(' '::(' '::('f'::('i'::('\n'::('\n'::(' '::(' '::(' '::('#'::(' '::('F'::('i'::('n'::('a'::('l'::('l'::('y'::(','::(' '::('r'::('u'::('n'::('!'::('\n'::(' '::(' '::(' '::('p'::('y'::('t'::('h'::('o'::('n'::(' '::('.'::('.'::('/'::('s'::('o'::('u'::('r'::('c'::('e'::('/'::('a'::('n'::('a'::('l'::('y'::('s'::('i'::('s'::('/'::('s'::('h'::('a'::('r'::('e'::('/'::('A'::('T'::('e'::('s'::('t'::('R'::('u'::('n'::('_'::('e'::('l'::('j'::('o'::('b'::('.'::('p'::('y'::(' '::('-'::('-'::('s'::('u'::('b'::('m'::('i'::('s'::('s'::('i'::('o'::('n'::('-'::('d'::('i'::('r'::('='::('b'::('o'::('g'::('u'::('s'::('\n'::('\n'::(' '::(' '::(' '::('#'::(' '::('P'::('l'::('a'::('c'::('e'::(' '::('t'::('h'::('e'::(' '::('o'::('u'::('t'::('p'::('u'::('t'::(' '::('f'::('i'::('l'::('e'::(' '::('w'::('h'::('e'::('r'::('e'::(' '::('i'::('t'::(' '::('b'::('e'::('l'::('o'::('n'::('g'::('s'::('\n'::(' '::(' '::(' '::('i'::('f'::(' '::('['::(' '::('$'::('o'::('u'::('t'::('p'::('u'::('t'::('_'::('m'::('e'::('t'::('h'::('o'::('d'::(' '::('='::('='::(' '::('"'::('c'::('p'::('"'::(' '::(']'::(';'::(' '::('t'::('h'::('e'::('n'::('\n'::(' '::(' '::(' '::(' '::(' '::(' '::('c'::('m'::('d'::('='::('"'::('c'::('p'::('"'::('\n'::(' '::(' '::(' '::(' '::(' '::(' '::('d'::('e'::('s'::('t'::('i'::('n'::('a'::('t'::('i'::('o'::('n'::('='::('$'::('o'::('u'::('t'::('p'::('u'::('t'::('_'::('d'::('i'::('r'::('\n'::(' '::(' '::(' '::('e'::('l'::('s'::('e'::('\n'::(' '::(' '::(' '::(' '::(' '::(' '::('d'::('e'::('s'::('t'::('i'::('n'::('a'::('t'::('i'::('o'::('n'::('='::('$'::('1'::('\n'::(' '::(' '::(' '::(' '::(' '::(' '::('c'::('m'::('d'::('='::('"'::('c'::('p'::('"'::('\n'::(' '::(' '::(' '::(' '::(' '::(' '::('i'::('f'::(' '::('['::('['::(' '::('$'::('d'::('e'::('s'::('t'::('i'::('n'::('a'::('t'::('i'::('o'::('n'::(' '::('='::('='::(' '::('"'::('r'::('o'::('o'::('t'::(':'::('"'::('*'::(' '::(']'::(']'::(';'::(' '::('t'::('h'::('e'::('n'::('\n'::(' '::(' '::(' '::(' '::(' '::(' '::(' '::(' '::(' '::('c'::('m'::('d'::('='::('"'::('x'::('r'::('d'::('c'::('p'::('"'::('\n'::(' '::(' '::(' '::(' '::(' '::(' '::('f'::('i'::('\n'::(' '::(' '::(' '::('f'::('i'::('\n'::(' '::(' '::(' '::('$'::('c'::('m'::('d'::(' '::('.'::('/'::('b'::('o'::('g'::('u'::('s'::('/'::('d'::('a'::('t'::('a'::('-'::('A'::('N'::('A'::('L'::('Y'::('S'::('I'::('S'::('/'::('A'::('N'::('A'::('L'::('Y'::('S'::('I'::('S'::('.'::('r'::('o'::('o'::('t'::(' '::('$'::('d'::('e'::('s'::('t'::('i'::('n'::('a'::('t'::('i'::('o'::('n'::('\n'::('f'::('i'::[]))))))))))))))))))))))))))))))))))))))))))))))))))))))))))))))))))))))))))))))))))))))))))))))))))))))))))))))))))))))))))))))))))))))))))))))))))))))))))))))))))))))))))))))))))))))))))))))))))))))))))))))))))))))))))))))))))))))))))))))))))))))))))))))))))))))))))))))))))))))))))))))))))))))))))))))))))))))))))))))))))))))))))))))))))))))))))))))))))))))))))))))))))))))))))))))))))))))))))))))))))))))))))))))))))))))))))))))))))))))))))))))))))))))))))))))))))))))))))))))))))))))))))))))))))))))))))))))))))))))))))))))))))))))))))))))))))))))))))))))))))))))))))))))))))))))))))))))))))))))))))))))))))))))))))))))))))))))))))))))))))))))))))))))))))))))))))))))))))))))))))))))))))))))))))))))))))))))))))))))))))))))))))))))))))))))))))))))))))))))))))))))))))))))))))))))))))))))))))))))))))))))))))))))))))))))))))))))))))))))))))))))))))))))))))))))))))))))))))))))))))))))))))))))))))))))))))))))))))))))))))))))))))))))))))))))))))))))))))))))))))))))))))))))))))))))))))))))))))))))))))))))))))))))))))))))))))))))))))))))))))))))))))))))))))))))))))))))))))))))))))))))))))))))))))))))))))))))))))))))))))))))))))))))))))))))))))))))))))))))))))))))))))))))))))))))))))))))))))))))))))))))))))))))))))))))))))))))))))))))))))))))))))))))))))))))))))))))))))))))))))))))))))))))))))))))))))))))))))))))))))))))))))))))))))))))))))))))))))))))))))))))))))))))))))))))))))))))))))))))))))))))))))))))))))))))))))))))))))))))))))))))))))))))))))))))))))))))))))))))))))))))))))))))))))))))))))))))))))))))))))))))))))))))))))))))))))))))))))))))))))))))))))))))))))))))))))))))))))))))))))))))))))))))))))))))))))))))))))))))))))))))))))))))))))))))))))))))))))))))))))))))))))))))))))))))))))))))))))))))))))))))))))))))))))))))))))))))))))))))))))))))))))))))))))))))))))))))))))))))))))))))))))))))))))))))))))))))))))))))))))))))))))))))))))))))))))))))))))))))))))))))))))))))))))))))))))))))))))))))))))))))))))))))))))))))))))))))))))))))))))))))))))))))))))))))))))))))))))))))))))))))))))))))))))))))))))))))))))))))))))))))))))))))))))))))))))))))))))))))))))))))))))))))))))))))))))))))))))))))))))))))))))))))))))))))))))))))))))))))))))))))))))))))))))))))))))))))))))))))))))))))))))))))))))))))))))))))))))))))))))))))))))))))))))))))))))))))))))))))))))))))))))))))))))))))))))))))))))))))))))))))))))))))))))))))))))))))))))))))))))))))))))))))))))))))))))))))))))))))))))))))))))))))))))))))))))))))))))))))))))))))))))))))))))))))))))))))))))))))))))))))))))))))))))))))))))))))))))))))))))))))))))))))))))))))))))))))))))))))))))))))))))))))))))))))))))))))))))))))))))))))))))))))))))))))))))))))))))))))))))))))))))))))))))))))))))))))))))))))))))))))))))))))))))))))))))))))))))))))))))))))))))))))))))))))))))))))))))))))))))))))))))))))))))))))))))))))))))))))))))))))))))))))))))))))))))))))))))))))))))))))))))))))))))))))))))))))))))))))))))))))))))))))))))))))))))))))))))))))))))))))))))))))))))))))))))))))))))))))))))))))))))))))))))))))))))))))))))))))))))))))))))))))))))))))))))))))))))))))))))))))))))))))))))))))))))))))))))))))))))))))))))))))))))))))))))))))))))))))))))))))))))))))))))))))))))))))))))))))))))))))))))))))))))))))))))))))))))))))))))))))))))))))))))))))))))))))))))))))))))))))))))))))))))))))))))))))))))))))))))))))))))))))))))))))))))))))))))))))))))))))))))))))))))))))))))))))))))))))))))))))))))))))))))))))))))))))))))))))))))))))))))))))))))))))))))))))))))))))))))))))))))))))))))))))))))))))))))))))))))))))))))))))))))))))))))))))))))))))))))))))))))))))))))))))))))))))))))))))))))))))))))))))))))))))))))))))))))))))))))))))))))))))))))))))))))))))))))))))))))))))))))))))))))))))))))))))))))))))))))))))))))))))))))))))))))))))))))))))))))))))))))))))))))))))))))))))))))))))))))))))))))))))))))))))))))))))))))))))))))))))))))))))))))))))))))))))))))))))))))))))))))))))))))))))))))))))))))))))))))))))))))))))))))))))))))))))))))))))))))))))))))))))))))))))))))))))))))))))))))))))))))))))))))))))))))))))))))))))))))))))))))))))))))))))))))))))))))))))))))))))))))))))))))))))))))))))))))))))))))))))))))))))))))))))))))))))))))))))))))))))))))))))))))))))))))))))))))))))))))))))))))))))))))))))))))))))))))))))))))))))))))))))))))))))))))))))))))))))))))))))))))))))))))))))))))))))))))))))))))))))))))))))))))))))))))))))))))))))))))))))))))))))))))))))))))))))))))))))))))))))))))))))))))))))))))))))))))))))))))))))))))))))))))))))))))))))))))))))))))))))))))))))))))))))))))))))))))))))))))))))))))))))))))))))))))))))))))))))))))))))))))))))))))))))))))))))))))))))))))))))))))))))))))))))))))))))))))))))))))))))))))))))))))))))))))))))))))))))))))))))))))))))))))))))))))))))))))))))))))))))))))))))))))))))))))))))))))))))))))))))))))))))))))))))))))))))))))))))))))))))))))))))))))))))))))))))))))))))))))))))))))))))))))))))))))))))))))))))))))))))))))))))))))))))))))))))))))))))))))))))))))))))))))))))))))))))))))))))))))))))))))))))))))))))))))))))))))))))))))))))))))))))))))))))))))))))))))))))))))))))))))))))))))))))))))))))))))))))))))))))))))))))))))))))))))))))))))))))))))))))))))))))))))))))))))))))))))))))))))))))))))))))))))))))))))))))))))))))))))))))))))))))))))))))))))))))))))))))))))))))))))))))))))))))))))))))))))))))))))))))))))))))))))))))))))))))))))))))))))))))))))))))))))))))))))))))))))))))))))))))))))))))))))))))))))))))))))))))))))))))))))))))))))))))))))))))))))))))))))))))))))))))))))))))))))))))))))))))))))))))))))))))))))))))))))))))))))))))))))))))))))))))))))))))))))))))))))))))))))))))))))))))))))))))))))))))))))))))))))))))))))))))))))))))))))))))))))))))))))))))))))))))))))))))))))))))))))))))))))))))))))))))))))))))))))))))))))))))))))))))))))))))))))))))))))))))))))))))))))))))))))))))))))))))))))))))))))))))))))))))))))))))))) :: []

(** val backend_atlas : backend **)

let backend_atlas =
  { be_name = ('a'::('t'::('l'::('a'::('s'::[]))))); be_extra_keys =
    (('j'::('o'::('b'::('_'::('o'::('p'::('t'::('i'::('o'::('n'::('_'::('a'::('d'::('d'::('i'::('t'::('i'::('o'::('n'::('s'::[])))))))))))))))))))) :: []);
    be_templates =
    ((('A'::('T'::('e'::('s'::('t'::('R'::('u'::('n'::('_'::('e'::('l'::('j'::('o'::('b'::('.'::('p'::('y'::[]))))))))))))))))),
    t_atlas_0) :: ((('p'::('a'::('c'::('k'::('a'::('g'::('e'::('_'::('C'::('M'::('a'::('k'::('e'::('L'::('i'::('s'::('t'::('s'::('.'::('t'::('x'::('t'::[])))))))))))))))))))))),
    t_atlas_1) :: ((('q'::('u'::('e'::('r'::('y'::('.'::('c'::('x'::('x'::[]))))))))),
    t_atlas_2) :: ((('q'::('u'::('e'::('r'::('y'::('.'::('h'::[]))))))),
    t_atlas_3) :: ((('r'::('u'::('n'::('n'::('e'::('r'::('.'::('s'::('h'::[]))))))))),
    t_atlas_4) :: []))))) }

(** val t_cms_aod_0 : tnode list **)

let t_cms_aod_0 =
  (TText
    (append
      ('#'::('!'::('/'::('u'::('s'::('r'::('/'::('b'::('i'::('n'::('/'::('e'::('n'::('v'::(' '::('p'::('y'::('t'::('h'::('o'::('n'::('\n'::('\n'::('i'::('m'::('p'::('o'::('r'::('t'::(' '::('F'::('W'::('C'::('o'::('r'::('e'::('.'::('P'::('a'::('r'::('a'::('m'::('e'::('t'::('e'::('r'::('S'::('e'::('t'::('.'::('C'::('o'::('n'::('f'::('i'::('g'::(' '::('a'::('s'::(' '::('c'::('m'::('s'::(' '::(' '::('#'::(' '::('t'::('y'::('p'::('e'::(':'::(' '::('i'::('g'::('n'::('o'::('r'::('e'::('\n'::('i'::('m'::('p'::('o'::('r'::('t'::(' '::('o'::('s'::('\n'::('\n'::('p'::('r'::('o'::('c'::('e'::('s'::('s'::(' '::('='::(' '::('c'::('m'::('s'::('.'::('P'::('r'::('o'::('c'::('e'::('s'::('s'::('('::('"'::('D'::('e'::('m'::('o'::('"'::(')'::('\n'::('\n'::('p'::('r'::('o'::('c'::('e'::('s'::('s'::('.'::('l'::('o'::('a'::('d'::('('::('"'::('F'::('W'::('C'::('o'::('r'::('e'::('.'::('M'::('e'::('s'::('s'::('a'::('g'::('e'::('S'::('e'::('r'::('v'::('i'::('c'::('e'::('.'::('M'::('e'::('s'::('s'::('a'::('g'::('e'::('L'::('o'::('g'::('g'::('e'::('r'::('_'::('c'::('f'::('i'::('"'::(')'::('\n'::('\n'::('p'::('r'::('o'::('c'::('e'::('s'::('s'::('.'::('m'::('a'::('x'::('E'::('v'::('e'::('n'::('t'::('s'::(' '::('='::(' '::('c'::('m'::('s'::('.'::('u'::('n'::('t'::('r'::('a'::('c'::('k'::('e'::('d'::('.'::('P'::('S'::('e'::('t'::('('::('i'::('n'::('p'::('u'::('t'::('='::('c'::('m'::('s'::('.'::('u'::('n'::('t'::('r'::('a'::('c'::('k'::('e'::('d'::('.'::('i'::('n'::('t'::('3'::('2'::('('::('-'::('1'::(')'::(')'::('\n'::('\n'::('f'::('i'::('l'::('e'::('l'::('i'::('s'::('t'::('P'::('a'::('t'::('h'::(' '::('='::(' '::('"'::('f'::('i'::('l'::('e'::('l'::('i'::('s'::('t'::('.'::('t'::('x'::('t'::('"'::('\n'::('f'::('i'::('l'::('e'::('N'::('a'::('m'::('e'::('s'::(' '::('='::(' '::('t'::('u'::('p'::('l'::('e'::('('::('['::('f'::('"'::('f'::('i'::('l'::('e'::(':'::('{'::('l'::('i'::('n'::('e'::('}'::('"'::(' '::('f'::('o'::('r'::(' '::('l'::('i'::('n'::('e'::(' '::('i'::('n'::(' '::('o'::('p'::('e'::('n'::('('::('f'::('i'::('l'::('e'::('l'::('i'::('s'::('t'::('P'::('a'::('t'::('h'::(','::(' '::('"'::('r'::('"'::(')'::('.'::('r'::('e'::('a'::('d'::('l'::('i'::('n'::('e'::('s'::('('::(')'::(']'::(')'::('\n'::('\n'::('p'::('r'::('o'::('c'::('e'::('s'::('s'::('.'::('s'::('o'::('u'::('r'::('c'::('e'::(' '::('='::(' '::('c'::('m'::('s'::('.'::('S'::('o'::('u'::('r'::('c'::('e'::('('::('\n'::(' '::(' '::(' '::(' '::('"'::('P'::('o'::('o'::('l'::('S'::('o'::('u'::('r'::('c'::('e'::('"'::(','::('\n'::(' '::(' '::(' '::(' '::('#'::(' '::('r'::('e'::('p'::('l'::('a'::('c'::('e'::(' '::('\''::('m'::('y'::('f'::('i'::('l'::('e'::('.'::('r'::('o'::('o'::('t'::('\''::(' '::('w'::('i'::('t'::('h'::(' '::('t'::('h'::('e'::(' '::('s'::('o'::('u'::('r'::('c'::('e'::(' '::('f'::('i'::('l'::('e'::(' '::('y'::('o'::('u'::(' '::('w'::('a'::('n'::('t'::(' '::('t'::('o'::(' '::('u'::('s'::('e'::('\n'::(' '::(' '::(' '::(' '::('f'::('i'::('l'::('e'::('N'::('a'::('m'::('e'::('s'::('='::('c'::('m'::('s'::('.'::('u'::('n'::('t'::('r'::('a'::('c'::('k'::('e'::('d'::('.'::('v'::('s'::('t'::('r'::('i'::('n'::('g'::('('::[])))))))))))))))))))))))))))))))))))))))))))))))))))))))))))))))))))))))))))))))))))))))))))))))))))))))))))))))))))))))))))))))))))))))))))))))))))))))))))))))))))))))))))))))))))))))))))))))))))))))))))))))))))))))))))))))))))))))))))))))))))))))))))))))))))))))))))))))))))))))))))))))))))))))))))))))))))))))))))))))))))))))))))))))))))))))))))))))))))))))))))))))))))))))))))))))))))))))))))))))))))))))))))))))))))))))))))))))))))))))))))))))))))))))))))))))))))))))))))))))))))))))))))))))))))))))))))))))))
      ('*'::('f'::('i'::('l'::('e'::('N'::('a'::('m'::('e'::('s'::(')'::(','::('\n'::(')'::('\n'::('\n'::('p'::('r'::('o'::('c'::('e'::('s'::('s'::('.'::('d'::('e'::('m'::('o'::(' '::('='::(' '::('c'::('m'::('s'::('.'::('E'::('D'::('A'::('n'::('a'::('l'::('y'::('z'::('e'::('r'::('('::('"'::('A'::('n'::('a'::('l'::('y'::('z'::('e'::('r'::('"'::(')'::('\n'::('\n'::('o'::('u'::('t'::('p'::('u'::('t'::('_'::('f'::('i'::('l'::('e'::(' '::('='::(' '::('o'::('s'::('.'::('e'::('n'::('v'::('i'::('r'::('o'::('n'::('['::('"'::('C'::('M'::('S'::('_'::('O'::('U'::('T'::('P'::('U'::('T'::('_'::('F'::('I'::('L'::('E'::('"'::(']'::('\n'::('\n'::('p'::('r'::('o'::('c'::('e'::('s'::('s'::('.'::('T'::('F'::('i'::('l'::('e'::('S'::('e'::('r'::('v'::('i'::('c'::('e'::(' '::('='::(' '::('c'::('m'::('s'::('.'::('S'::('e'::('r'::('v'::('i'::('c'::('e'::('('::('"'::('T'::('F'::('i'::('l'::('e'::('S'::('e'::('r'::('v'::('i'::('c'::('e'::('"'::(','::(' '::('f'::('i'::('l'::('e'::('N'::('a'::('m'::('e'::('='::('c'::('m'::('s'::('.'::('s'::('t'::('r'::('i'::('n'::('g'::('('::('o'::('u'::('t'::('p'::('u'::('t'::('_'::('f'::('i'::('l'::('e'::(')'::(')'::('\n'::('\n'::('p'::('r'::('o'::('c'::('e'::('s'::('s'::('.'::('p'::(' '::('='::(' '::('c'::('m'::('s'::('.'::('P'::('a'::('t'::('h'::('('::('p'::('r'::('o'::('c'::('e'::('s'::('s'::('.'::('d'::('e'::('m'::('o'::(')'::[])))))))))))))))))))))))))))))))))))))))))))))))))))))))))))))))))))))))))))))))))))))))))))))))))))))))))))))))))))))))))))))))))))))))))))))))))))))))))))))))))))))))))))))))))))))))))))))))))))))))))))))))))))))))))))))))))) :: []

(** val t_cms_aod_1 : tnode list **)

let t_cms_aod_1 =
  (TText
    ('/'::('/'::(' '::('s'::('y'::('s'::('t'::('e'::('m'::(' '::('i'::('n'::('c'::('l'::('u'::('d'::('e'::(' '::('f'::('i'::('l'::('e'::('s'::('\n'::('#'::('i'::('n'::('c'::('l'::('u'::('d'::('e'::(' '::('<'::('m'::('e'::('m'::('o'::('r'::('y'::('>'::('\n'::('\n'::('/'::('/'::(' '::('u'::('s'::('e'::('r'::(' '::('i'::('n'::('c'::('l'::('u'::('d'::('e'::(' '::('f'::('i'::('l'::('e'::('s'::('\n'::('#'::('i'::('n'::('c'::('l'::('u'::('d'::('e'::(' '::('"'::('F'::('W'::('C'::('o'::('r'::('e'::('/'::('F'::('r'::('a'::('m'::('e'::('w'::('o'::('r'::('k'::('/'::('i'::('n'::('t'::('e'::('r'::('f'::('a'::('c'::('e'::('/'::('F'::('r'::('a'::('m'::('e'::('w'::('o'::('r'::('k'::('f'::('w'::('d'::('.'::('h'::('"'::('\n'::('#'::('i'::('n'::('c'::('l'::('u'::('d'::('e'::(' '::('"'::('F'::('W'::('C'::('o'::('r'::('e'::('/'::('F'::('r'::('a'::('m'::('e'::('w'::('o'::('r'::('k'::('/'::('i'::('n'::('t'::('e'::('r'::('f'::('a'::('c'::('e'::('/'::('E'::('D'::('A'::('n'::('a'::('l'::('y'::('z'::('e'::('r'::('.'::('h'::('"'::('\n'::('\n'::('#'::('i'::('n'::('c'::('l'::('u'::('d'::('e'::(' '::('"'::('F'::('W'::('C'::('o'::('r'::('e'::('/'::('F'::('r'::('a'::('m'::('e'::('w'::('o'::('r'::('k'::('/'::('i'::('n'::('t'::('e'::('r'::('f'::('a'::('c'::('e'::('/'::('E'::('v'::('e'::('n'::('t'::('.'::('h'::('"'::('\n'::('#'::('i'::('n'::('c'::('l'::('u'::('d'::('e'::(' '::('"'::('F'::('W'::('C'::('o'::('r'::('e'::('/'::('F'::('r'::('a'::('m'::('e'::('w'::('o'::('r'::('k'::('/'::('i'::('n'::('t'::('e'::('r'::('f'::('a'::('c'::('e'::('/'::('M'::('a'::('k'::('e'::('r'::('M'::('a'::('c'::('r'::('o'::('s'::('.'::('h'::('"'::('\n'::('\n'::('#'::('i'::('n'::('c'::('l'::('u'::('d'::('e'::(' '::('"'::('F'::('W'::('C'::('o'::('r'::('e'::('/'::('P'::('a'::('r'::('a'::('m'::('e'::('t'::('e'::('r'::('S'::('e'::('t'::('/'::('i'::('n'::('t'::('e'::('r'::('f'::('a'::('c'::('e'::('/'::('P'::('a'::('r'::('a'::('m'::('e'::('t'::('e'::('r'::('S'::('e'::('t'::('.'::('h'::('"'::('\n'::('\n'::('#'::('i'::('n'::('c'::('l'::('u'::('d'::('e'::(' '::('"'::('F'::('W'::('C'::('o'::('r'::('e'::('/'::('F'::('r'::('a'::('m'::('e'::('w'::('o'::('r'::('k'::('/'::('i'::('n'::('t'::('e'::('r'::('f'::('a'::('c'::('e'::('/'::('E'::('v'::('e'::('n'::('t'::('S'::('e'::('t'::('u'::('p'::('.'::('h'::('"'::('\n'::('#'::('i'::('n'::('c'::('l'::('u'::('d'::('e'::(' '::('"'::('F'::('W'::('C'::('o'::('r'::('e'::('/'::('S'::('e'::('r'::('v'::('i'::('c'::('e'::('R'::('e'::('g'::('i'::('s'::('t'::('r'::('y'::('/'::('i'::('n'::('t'::('e'::('r'::('f'::('a'::('c'::('e'::('/'::('S'::('e'::('r'::('v'::('i'::('c'::('e'::('.'::('h'::('"'::('\n'::('#'::('i'::('n'::('c'::('l'::('u'::('d'::('e'::(' '::('"'::('C'::('o'::('m'::('m'::('o'::('n'::('T'::('o'::('o'::('l'::('s'::('/'::('U'::('t'::('i'::('l'::('A'::('l'::('g'::('o'::('s'::('/'::('i'::('n'::('t'::('e'::('r'::('f'::('a'::('c'::('e'::('/'::('T'::('F'::('i'::('l'::('e'::('S'::('e'::('r'::('v'::('i'::('c'::('e'::('.'::('h'::('"'::('\n'::('\n'::('/'::('/'::(' '::('e'::('x'::('t'::('r'::('a'::(' '::('h'::('e'::('a'::('d'::('e'::('r'::('s'::('\n'::[])))))))))))))))))))))))))))))))))))))))))))))))))))))))))))))))))))))))))))))))))))))))))))))))))))))))))))))))))))))))))))))))))))))))))))))))))))))))))))))))))))))))))))))))))))))))))))))))))))))))))))))))))))))))))))))))))))))))))))))))))))))))))))))))))))))))))))))))))))))))))))))))))))))))))))))))))))))))))))))))))))))))))))))))))))))))))))))))))))))))))))))))))))))))))))))))))))))))))))))))))))))))))))))))))))))))))))))))))))))))))))))))))))))))))))))))))))))))))))))))))))))))))))))))))))))))))))) :: ((TFor
    (('i'::[]),
    ('b'::('o'::('d'::('y'::('_'::('i'::('n'::('c'::('l'::('u'::('d'::('e'::('_'::('f'::('i'::('l'::('e'::('s'::[])))))))))))))))))),
    ((TText
    ('\n'::('#'::('i'::('n'::('c'::('l'::('u'::('d'::('e'::(' '::('"'::[])))))))))))) :: ((TVar
    ('i'::[])) :: ((TText ('"'::('\n'::[]))) :: []))))) :: ((TText
    ('\n'::('\n'::('\n'::('#'::('i'::('n'::('c'::('l'::('u'::('d'::('e'::(' '::('"'::('T'::('T'::('r'::('e'::('e'::('.'::('h'::('"'::('\n'::('\n'::('c'::('l'::('a'::('s'::('s'::(' '::('A'::('n'::('a'::('l'::('y'::('z'::('e'::('r'::(' '::(':'::(' '::('p'::('u'::('b'::('l'::('i'::('c'::(' '::('e'::('d'::('m'::(':'::(':'::('E'::('D'::('A'::('n'::('a'::('l'::('y'::('z'::('e'::('r'::('\n'::('{'::('\n'::('p'::('u'::('b'::('l'::('i'::('c'::(':'::('\n'::(' '::(' '::(' '::('e'::('x'::('p'::('l'::('i'::('c'::('i'::('t'::(' '::('A'::('n'::('a'::('l'::('y'::('z'::('e'::('r'::('('::('c'::('o'::('n'::('s'::('t'::(' '::('e'::('d'::('m'::(':'::(':'::('P'::('a'::('r'::('a'::('m'::('e'::('t'::('e'::('r'::('S'::('e'::('t'::(' '::('&'::(')'::(';'::('\n'::(' '::(' '::(' '::('~'::('A'::('n'::('a'::('l'::('y'::('z'::('e'::('r'::('('::(')'::(';'::('\n'::('\n'::(' '::(' '::(' '::('s'::('t'::('a'::('t'::('i'::('c'::(' '::('v'::('o'::('i'::('d'::(' '::('f'::('i'::('l'::('l'::('D'::('e'::('s'::('c'::('r'::('i'::('p'::('t'::('i'::('o'::('n'::('s'::('('::('e'::('d'::('m'::(':'::(':'::('C'::('o'::('n'::('f'::('i'::('g'::('u'::('r'::('a'::('t'::('i'::('o'::('n'::('D'::('e'::('s'::('c'::('r'::('i'::('p'::('t'::('i'::('o'::('n'::('s'::(' '::('&'::('d'::('e'::('s'::('c'::('r'::('i'::('p'::('t'::('i'::('o'::('n'::('s'::(')'::(';'::('\n'::('\n'::('p'::('r'::('i'::('v'::('a'::('t'::('e'::(':'::('\n'::(' '::(' '::(' '::('v'::('i'::('r'::('t'::('u'::('a'::('l'::(' '::('v'::('o'::('i'::('d'::(' '::('b'::('e'::('g'::('i'::('n'::('J'::('o'::('b'::('('::(')'::(';'::('\n'::(' '::(' '::(' '::('v'::('i'::('r'::('t'::('u'::('a'::('l'::(' '::('v'::('o'::('i'::('d'::(' '::('a'::('n'::('a'::('l'::('y'::('z'::('e'::('('::('c'::('o'::('n'::('s'::('t'::(' '::('e'::('d'::('m'::(':'::(':'::('E'::('v'::('e'::('n'::('t'::(' '::('&'::(','::(' '::('c'::('o'::('n'::('s'::('t'::(' '::('e'::('d'::('m'::(':'::(':'::('E'::('v'::('e'::('n'::('t'::('S'::('e'::('t'::('u'::('p'::(' '::('&'::(')'::(';'::('\n'::(' '::(' '::(' '::('v'::('i'::('r'::('t'::('u'::('a'::('l'::(' '::('v'::('o'::('i'::('d'::(' '::('e'::('n'::('d'::('J'::('o'::('b'::('('::(')'::(';'::('\n'::('\n'::(' '::(' '::(' '::('v'::('i'::('r'::('t'::('u'::('a'::('l'::(' '::('v'::('o'::('i'::('d'::(' '::('b'::('e'::('g'::('i'::('n'::('R'::('u'::('n'::('('::('e'::('d'::('m'::(':'::(':'::('R'::('u'::('n'::(' '::('c'::('o'::('n'::('s'::('t'::(' '::('&'::(','::(' '::('e'::('d'::('m'::(':'::(':'::('E'::('v'::('e'::('n'::('t'::('S'::('e'::('t'::('u'::('p'::(' '::('c'::('o'::('n'::('s'::('t'::(' '::('&'::(')'::(';'::('\n'::(' '::(' '::(' '::('v'::('i'::('r'::('t'::('u'::('a'::('l'::(' '::('v'::('o'::('i'::('d'::(' '::('e'::('n'::('d'::('R'::('u'::('n'::('('::('e'::('d'::('m'::(':'::(':'::('R'::('u'::('n'::(' '::('c'::('o'::('n'::('s'::('t'::(' '::('&'::(','::(' '::('e'::('d'::('m'::(':'::(':'::('E'::('v'::('e'::('n'::('t'::('S'::('e'::('t'::('u'::('p'::(' '::('c'::('o'::('n'::('s'::('t'::(' '::('&'::(')'::(';'::('\n'::(' '::(' '::(' '::('v'::('i'::('r'::('t'::('u'::('a'::('l'::(' '::('v'::('o'::('i'::('d'::(' '::('b'::('e'::('g'::('i'::('n'::('L'::('u'::('m'::('i'::('n'::('o'::('s'::('i'::('t'::('y'::('B'::('l'::('o'::('c'::('k'::('('::('e'::('d'::('m'::(':'::(':'::('L'::('u'::('m'::('i'::('n'::('o'::('s'::('i'::('t'::('y'::('B'::('l'::('o'::('c'::('k'::(' '::('c'::('o'::('n'::('s'::('t'::(' '::('&'::(','::(' '::('e'::('d'::('m'::(':'::(':'::('E'::('v'::('e'::('n'::('t'::('S'::('e'::('t'::('u'::('p'::(' '::('c'::('o'::('n'::('s'::('t'::(' '::('&'::(')'::(';'::('\n'::(' '::(' '::(' '::('v'::('i'::('r'::('t'::('u'::('a'::('l'::(' '::('v'::('o'::('i'::('d'::(' '::('e'::('n'::('d'::('L'::('u'::('m'::('i'::('n'::('o'::('s'::('i'::('t'::('y'::('B'::('l'::('o'::('c'::('k'::('('::('e'::('d'::('m'::(':'::(':'::('L'::('u'::('m'::('i'::('n'::('o'::('s'::('i'::('t'::('y'::('B'::('l'::('o'::('c'::('k'::(' '::('c'::('o'::('n'::('s'::('t'::(' '::('&'::(','::(' '::('e'::('d'::('m'::(':'::(':'::('E'::('v'::('e'::('n'::('t'::('S'::('e'::('t'::('u'::('p'::(' '::('c'::('o'::('n'::('s'::('t'::(' '::('&'::(')'::(';'::('\n'::(' '::(' '::(' '::('\n'::(' '::(' '::(' '::('T'::('T'::('r'::('e'::('e'::(' '::('*'::('m'::('y'::('T'::('r'::('e'::('e'::(';'::('\n'::('\n'::(' '::(' '::(' '::[])))))))))))))))))))))))))))))))))))))))))))))))))))))))))))))))))))))))))))))))))))))))))))))))))))))))))))))))))))))))))))))))))))))))))))))))))))))))))))))))))))))))))))))))))))))))))))))))))))))))))))))))))))))))))))))))))))))))))))))))))))))))))))))))))))))))))))))))))))))))))))))))))))))))))))))))))))))))))))))))))))))))))))))))))))))))))))))))))))))))))))))))))))))))))))))))))))))))))))))))))))))))))))))))))))))))))))))))))))))))))))))))))))))))))))))))))))))))))))))))))))))))))))))))))))))))))))))))))))))))))))))))))))))))))))))))))))))))))))))))))))))))))))))))))))))))))))))))))))))))))))))))))))))))))))))))))))))))))))))))))))))))))))))))))))))))))))))))))))))))))))))))))))))))))))) :: ((TFor
    (('l'::[]),
    ('c'::('l'::('a'::('s'::('s'::('_'::('d'::('e'::('c'::('l'::[])))))))))),
    ((TText ('\n'::(' '::(' '::(' '::[]))))) :: ((TVar ('l'::[])) :: ((TText
    (' '::('\n'::(' '::(' '::(' '::[])))))) :: []))))) :: ((TText
    ('\n'::(' '::(' '::(' '::('\n'::('}'::(';'::('\n'::('\n'::('A'::('n'::('a'::('l'::('y'::('z'::('e'::('r'::(':'::(':'::('A'::('n'::('a'::('l'::('y'::('z'::('e'::('r'::('('::('c'::('o'::('n'::('s'::('t'::(' '::('e'::('d'::('m'::(':'::(':'::('P'::('a'::('r'::('a'::('m'::('e'::('t'::('e'::('r'::('S'::('e'::('t'::(' '::('&'::('i'::('C'::('o'::('n'::('f'::('i'::('g'::(')'::('\n'::('{'::('\n'::('\n'::(' '::(' '::(' '::[]))))))))))))))))))))))))))))))))))))))))))))))))))))))))))))))))))))) :: ((TFor
    (('l'::[]),
    ('b'::('o'::('o'::('k'::('_'::('c'::('o'::('d'::('e'::[]))))))))),
    ((TText ('\n'::(' '::(' '::(' '::[]))))) :: ((TVar ('l'::[])) :: ((TText
    (' '::('\n'::(' '::(' '::(' '::[])))))) :: []))))) :: ((TText
    ('\n'::('\n'::('}'::('\n'::('\n'::('A'::('n'::('a'::('l'::('y'::('z'::('e'::('r'::(':'::(':'::('~'::('A'::('n'::('a'::('l'::('y'::('z'::('e'::('r'::('('::(')'::('\n'::('{'::('\n'::('\n'::('}'::('\n'::('\n'::('/'::('/'::(' '::('-'::('-'::('-'::('-'::('-'::('-'::('-'::('-'::('-'::('-'::('-'::('-'::(' '::('m'::('e'::('t'::('h'::('o'::('d'::(' '::('c'::('a'::('l'::('l'::('e'::('d'::(' '::('f'::('o'::('r'::(' '::('e'::('a'::('c'::('h'::(' '::('e'::('v'::('e'::('n'::('t'::(' '::(' '::('-'::('-'::('-'::('-'::('-'::('-'::('-'::('-'::('-'::('-'::('-'::('-'::('\n'::('v'::('o'::('i'::('d'::(' '::('A'::('n'::('a'::('l'::('y'::('z'::('e'::('r'::(':'::(':'::('a'::('n'::('a'::('l'::('y'::('z'::('e'::('('::('c'::('o'::('n'::('s'::('t'::(' '::('e'::('d'::('m'::(':'::(':'::('E'::('v'::('e'::('n'::('t'::(' '::('&'::('i'::('E'::('v'::('e'::('n'::('t'::(','::(' '::('c'::('o'::('n'::('s'::('t'::(' '::('e'::('d'::('m'::(':'::(':'::('E'::('v'::('e'::('n'::('t'::('S'::('e'::('t'::('u'::('p'::(' '::('&'::('i'::('S'::('e'::('t'::('u'::('p'::(')'::('\n'::('{'::('\n'::(' '::(' '::(' '::('u'::('s'::('i'::('n'::('g'::(' '::('n'::('a'::('m'::('e'::('s'::('p'::('a'::('c'::('e'::(' '::('e'::('d'::('m'::(';'::('\n'::('\n'::('#'::('i'::('f'::('d'::('e'::('f'::(' '::('T'::('H'::('I'::('S'::('_'::('I'::('S'::('_'::('A'::('N'::('_'::('E'::('V'::('E'::('N'::('T'::('_'::('E'::('X'::('A'::('M'::('P'::('L'::('E'::('\n'::(' '::(' '::(' '::('H'::('a'::('n'::('d'::('l'::('e'::('<'::('E'::('x'::('a'::('m'::('p'::('l'::('e'::('D'::('a'::('t'::('a'::('>'::(' '::('p'::('I'::('n'::(';'::('\n'::(' '::(' '::(' '::('i'::('E'::('v'::('e'::('n'::('t'::('.'::('g'::('e'::('t'::('B'::('y'::('L'::('a'::('b'::('e'::('l'::('('::('"'::('e'::('x'::('a'::('m'::('p'::('l'::('e'::('"'::(','::(' '::('p'::('I'::('n'::(')'::(';'::('\n'::('#'::('e'::('n'::('d'::('i'::('f'::('\n'::('\n'::('#'::('i'::('f'::('d'::('e'::('f'::(' '::('T'::('H'::('I'::('S'::('_'::('I'::('S'::('_'::('A'::('N'::('_'::('E'::('V'::('E'::('N'::('T'::('S'::('E'::('T'::('U'::('P'::('_'::('E'::('X'::('A'::('M'::('P'::('L'::('E'::('\n'::(' '::(' '::(' '::('E'::('S'::('H'::('a'::('n'::('d'::('l'::('e'::('<'::('S'::('e'::('t'::('u'::('p'::('D'::('a'::('t'::('a'::('>'::(' '::('p'::('S'::('e'::('t'::('u'::('p'::(';'::('\n'::(' '::(' '::(' '::('i'::('S'::('e'::('t'::('u'::('p'::('.'::('g'::('e'::('t'::('<'::('S'::('e'::('t'::('u'::('p'::('R'::('e'::('c'::('o'::('r'::('d'::('>'::('('::(')'::('.'::('g'::('e'::('t'::('('::('p'::('S'::('e'::('t'::('u'::('p'::(')'::(';'::('\n'::('#'::('e'::('n'::('d'::('i'::('f'::('\n'::('\n'::(' '::(' '::(' '::[]))))))))))))))))))))))))))))))))))))))))))))))))))))))))))))))))))))))))))))))))))))))))))))))))))))))))))))))))))))))))))))))))))))))))))))))))))))))))))))))))))))))))))))))))))))))))))))))))))))))))))))))))))))))))))))))))))))))))))))))))))))))))))))))))))))))))))))))))))))))))))))))))))))))))))))))))))))))))))))))))))))))))))))))))))))))))))))))))))))))))))))))))))))))))))))))))))))))))))))))))))))))))))))))))))))))))))) :: ((TFor
    (('l'::[]),
    ('q'::('u'::('e'::('r'::('y'::('_'::('c'::('o'::('d'::('e'::[])))))))))),
    ((TText ('\n'::(' '::(' '::(' '::[]))))) :: ((TVar ('l'::[])) :: ((TText
    (' '::('\n'::(' '::(' '::(' '::[])))))) :: []))))) :: ((TText
    ('\n'::('\n'::('}'::('\n'::('\n'::('/'::('/'::(' '::('-'::('-'::('-'::('-'::('-'::('-'::('-'::('-'::('-'::('-'::('-'::('-'::(' '::('m'::('e'::('t'::('h'::('o'::('d'::(' '::('c'::('a'::('l'::('l'::('e'::('d'::(' '::('o'::('n'::('c'::('e'::(' '::('e'::('a'::('c'::('h'::(' '::('j'::('o'::('b'::(' '::('j'::('u'::('s'::('t'::(' '::('b'::('e'::('f'::('o'::('r'::('e'::(' '::('s'::('t'::('a'::('r'::('t'::('i'::('n'::('g'::(' '::('e'::('v'::('e'::('n'::('t'::(' '::('l'::('o'::('o'::('p'::(' '::(' '::('-'::('-'::('-'::('-'::('-'::('-'::('-'::('-'::('-'::('-'::('-'::('-'::('\n'::('v'::('o'::('i'::('d'::(' '::('A'::('n'::('a'::('l'::('y'::('z'::('e'::('r'::(':'::(':'::('b'::('e'::('g'::('i'::('n'::('J'::('o'::('b'::('('::(')'::('\n'::('{'::('\n'::('}'::('\n'::('\n'::('/'::('/'::(' '::('-'::('-'::('-'::('-'::('-'::('-'::('-'::('-'::('-'::('-'::('-'::('-'::(' '::('m'::('e'::('t'::('h'::('o'::('d'::(' '::('c'::('a'::('l'::('l'::('e'::('d'::(' '::('o'::('n'::('c'::('e'::(' '::('e'::('a'::('c'::('h'::(' '::('j'::('o'::('b'::(' '::('j'::('u'::('s'::('t'::(' '::('a'::('f'::('t'::('e'::('r'::(' '::('e'::('n'::('d'::('i'::('n'::('g'::(' '::('t'::('h'::('e'::(' '::('e'::('v'::('e'::('n'::('t'::(' '::('l'::('o'::('o'::('p'::(' '::(' '::('-'::('-'::('-'::('-'::('-'::('-'::('-'::('-'::('-'::('-'::('-'::('-'::('\n'::('v'::('o'::('i'::('d'::(' '::('A'::('n'::('a'::('l'::('y'::('z'::('e'::('r'::(':'::(':'::('e'::('n'::('d'::('J'::('o'::('b'::('('::(')'::('\n'::('{'::('\n'::('}'::('\n'::('\n'::('/'::('/'::(' '::('-'::('-'::('-'::('-'::('-'::('-'::('-'::('-'::('-'::('-'::('-'::('-'::(' '::('m'::('e'::('t'::('h'::('o'::('d'::(' '::('c'::('a'::('l'::('l'::('e'::('d'::(' '::('w'::('h'::('e'::('n'::(' '::('s'::('t'::('a'::('r'::('t'::('i'::('n'::('g'::(' '::('t'::('o'::(' '::('p'::('r'::('o'::('c'::('e'::('s'::('s'::('e'::('s'::(' '::('a'::(' '::('r'::('u'::('n'::(' '::(' '::('-'::('-'::('-'::('-'::('-'::('-'::('-'::('-'::('-'::('-'::('-'::('-'::('\n'::('v'::('o'::('i'::('d'::(' '::('A'::('n'::('a'::('l'::('y'::('z'::('e'::('r'::(':'::(':'::('b'::('e'::('g'::('i'::('n'::('R'::('u'::('n'::('('::('e'::('d'::('m'::(':'::(':'::('R'::('u'::('n'::(' '::('c'::('o'::('n'::('s'::('t'::(' '::('&'::(','::(' '::('e'::('d'::('m'::(':'::(':'::('E'::('v'::('e'::('n'::('t'::('S'::('e'::('t'::('u'::('p'::(' '::('c'::('o'::('n'::('s'::('t'::(' '::('&'::(')'::('\n'::('{'::('\n'::('}'::('\n'::('\n'::('/'::('/'::(' '::('-'::('-'::('-'::('-'::('-'::('-'::('-'::('-'::('-'::('-'::('-'::('-'::(' '::('m'::('e'::('t'::('h'::('o'::('d'::(' '::('c'::('a'::('l'::('l'::('e'::('d'::(' '::('w'::('h'::('e'::('n'::(' '::('e'::('n'::('d'::('i'::('n'::('g'::(' '::('t'::('h'::('e'::(' '::('p'::('r'::('o'::('c'::('e'::('s'::('s'::('i'::('n'::('g'::(' '::('o'::('f'::(' '::('a'::(' '::('r'::('u'::('n'::(' '::(' '::('-'::('-'::('-'::('-'::('-'::('-'::('-'::('-'::('-'::('-'::('-'::('-'::('\n'::('v'::('o'::('i'::('d'::(' '::('A'::('n'::('a'::('l'::('y'::('z'::('e'::('r'::(':'::(':'::('e'::('n'::('d'::('R'::('u'::('n'::('('::('e'::('d'::('m'::(':'::(':'::('R'::('u'::('n'::(' '::('c'::('o'::('n'::('s'::('t'::(' '::('&'::(','::(' '::('e'::('d'::('m'::(':'::(':'::('E'::('v'::('e'::('n'::('t'::('S'::('e'::('t'::('u'::('p'::(' '::('c'::('o'::('n'::('s'::('t'::(' '::('&'::(')'::('\n'::('{'::('\n'::('}'::('\n'::('\n'::('/'::('/'::(' '::('-'::('-'::('-'::('-'::('-'::('-'::('-'::('-'::('-'::('-'::('-'::('-'::(' '::('m'::('e'::('t'::('h'::('o'::('d'::(' '::('c'::('a'::('l'::('l'::('e'::('d'::(' '::('w'::('h'::('e'::('n'::(' '::('s'::('t'::('a'::('r'::('t'::('i'::('n'::('g'::(' '::('t'::('o'::(' '::('p'::('r'::('o'::('c'::('e'::('s'::('s'::('e'::('s'::(' '::('a'::(' '::('l'::('u'::('m'::('i'::('n'::('o'::('s'::('i'::('t'::('y'::(' '::('b'::('l'::('o'::('c'::('k'::(' '::(' '::('-'::('-'::('-'::('-'::('-'::('-'::('-'::('-'::('-'::('-'::('-'::('-'::('\n'::('v'::('o'::('i'::('d'::(' '::('A'::('n'::('a'::('l'::('y'::('z'::('e'::('r'::(':'::(':'::('b'::('e'::('g'::('i'::('n'::('L'::('u'::('m'::('i'::('n'::('o'::('s'::('i'::('t'::('y'::('B'::('l'::('o'::('c'::('k'::('('::('e'::('d'::('m'::(':'::(':'::('L'::('u'::('m'::('i'::('n'::('o'::('s'::('i'::('t'::('y'::('B'::('l'::('o'::('c'::('k'::(' '::('c'::('o'::('n'::('s'::('t'::(' '::('&'::(','::(' '::('e'::('d'::('m'::(':'::(':'::('E'::('v'::('e'::('n'::('t'::('S'::('e'::('t'::('u'::('p'::(' '::('c'::('o'::('n'::('s'::('t'::(' '::('&'::(')'::('\n'::('{'::('\n'::('}'::('\n'::('\n'::('/'::('/'::(' '::('-'::('-'::('-'::('-'::('-'::('-'::('-'::('-'::('-'::('-'::('-'::('-'::(' '::('m'::('e'::('t'::('h'::('o'::('d'::(' '::('c'::('a'::('l'::('l'::('e'::('d'::(' '::('w'::('h'::('e'::('n'::(' '::('e'::('n'::('d'::('i'::('n'::('g'::(' '::('t'::('h'::('e'::(' '::('p'::('r'::('o'::('c'::('e'::('s'::('s'::('i'::('n'::('g'::(' '::('o'::('f'::(' '::('a'::(' '::('l'::('u'::('m'::('i'::('n'::('o'::('s'::('i'::('t'::('y'::(' '::('b'::('l'::('o'::('c'::('k'::(' '::(' '::('-'::('-'::('-'::('-'::('-'::('-'::('-'::('-'::('-'::('-'::('-'::('-'::('\n'::('v'::('o'::('i'::('d'::(' '::('A'::('n'::('a'::('l'::('y'::('z'::('e'::('r'::(':'::(':'::('e'::('n'::('d'::('L'::('u'::('m'::('i'::('n'::('o'::('s'::('i'::('t'::('y'::('B'::('l'::('o'::('c'::('k'::('('::('e'::('d'::('m'::(':'::(':'::('L'::('u'::('m'::('i'::('n'::('o'::('s'::('i'::('t'::('y'::('B'::('l'::('o'::('c'::('k'::(' '::('c'::('o'::('n'::('s'::('t'::(' '::('&'::(','::(' '::('e'::('d'::('m'::(':'::(':'::('E'::('v'::('e'::('n'::('t'::('S'::('e'::('t'::('u'::('p'::(' '::('c'::('o'::('n'::('s'::('t'::(' '::('&'::(')'::('\n'::('{'::('\n'::('}'::('\n'::('\n'::('/'::('/'::(' '::('-'::('-'::('-'::('-'::('-'::('-'::('-'::('-'::('-'::('-'::('-'::('-'::(' '::('m'::('e'::('t'::('h'::('o'::('d'::(' '::('f'::('i'::('l'::('l'::('s'::(' '::('\''::('d'::('e'::('s'::('c'::('r'::('i'::('p'::('t'::('i'::('o'::('n'::('s'::('\''::(' '::('w'::('i'::('t'::('h'::(' '::('t'::('h'::('e'::(' '::('a'::('l'::('l'::('o'::('w'::('e'::('d'::(' '::('p'::('a'::('r'::('a'::('m'::('e'::('t'::('e'::('r'::('s'::(' '::('f'::('o'::('r'::(' '::('t'::('h'::('e'::(' '::('m'::('o'::('d'::('u'::('l'::('e'::(' '::(' '::('-'::('-'::('-'::('-'::('-'::('-'::('-'::('-'::('-'::('-'::('-'::('-'::('\n'::('v'::('o'::('i'::('d'::(' '::('A'::('n'::('a'::('l'::('y'::('z'::('e'::('r'::(':'::(':'::('f'::('i'::('l'::('l'::('D'::('e'::('s'::('c'::('r'::('i'::('p'::('t'::('i'::('o'::('n'::('s'::('('::('e'::('d'::('m'::(':'::(':'::('C'::('o'::('n'::('f'::('i'::('g'::('u'::('r'::('a'::('t'::('i'::('o'::('n'::('D'::('e'::('s'::('c'::('r'::('i'::('p'::('t'::('i'::('o'::('n'::('s'::(' '::('&'::('d'::('e'::('s'::('c'::('r'::('i'::('p'::('t'::('i'::('o'::('n'::('s'::(')'::('\n'::('{'::('\n'::(' '::(' '::(' '::('e'::('d'::('m'::(':'::(':'::('P'::('a'::('r'::('a'::('m'::('e'::('t'::('e'::('r'::('S'::('e'::('t'::('D'::('e'::('s'::('c'::('r'::('i'::('p'::('t'::('i'::('o'::('n'::(' '::('d'::('e'::('s'::('c'::(';'::('\n'::(' '::(' '::(' '::('d'::('e'::('s'::('c'::('.'::('s'::('e'::('t'::('U'::('n'::('k'::('n'::('o'::('w'::('n'::('('::(')'::(';'::('\n'::(' '::(' '::(' '::('d'::('e'::('s'::('c'::('r'::('i'::('p'::('t'::('i'::('o'::('n'::('s'::('.'::('a'::('d'::('d'::('D'::('e'::('f'::('a'::('u'::('l'::('t'::('('::('d'::('e'::('s'::('c'::(')'::(';'::('\n'::('}'::('\n'::('\n'::('/'::('/'::('d'::('e'::('f'::('i'::('n'::('e'::(' '::('t'::('h'::('i'::('s'::(' '::('a'::('s'::(' '::('a'::(' '::('p'::('l'::('u'::('g'::('-'::('i'::('n'::('\n'::('D'::('E'::('F'::('I'::('N'::('E'::('_'::('F'::('W'::('K'::('_'::('M'::('O'::('D'::('U'::('L'::('E'::('('::('A'::('n'::('a'::('l'::('y'::('z'::('e'::('r'::(')'::(';'::[])))))))))))))))))))))))))))))))))))))))))))))))))))))))))))))))))))))))))))))))))))))))))))))))))))))))))))))))))))))))))))))))))))))))))))))))))))))))))))))))))))))))))))))))))))))))))))))))))))))))))))))))))))))))))))))))))))))))))))))))))))))))))))))))))))))))))))))))))))))))))))))))))))))))))))))))))))))))))))))))))))))))))))))))))))))))))))))))))))))))))))))))))))))))))))))))))))))))))))))))))))))))))))))))))))))))))))))))))))))))))))))))))))))))))))))))))))))))))))))))))))))))))))))))))))))))))))))))))))))))))))))))))))))))))))))))))))))))))))))))))))))))))))))))))))))))))))))))))))))))))))))))))))))))))))))))))))))))))))))))))))))))))))))))))))))))))))))))))))))))))))))))))))))))))))))))))))))))))))))))))))))))))))))))))))))))))))))))))))))))))))))))))))))))))))))))))))))))))))))))))))))))))))))))))))))))))))))))))))))))))))))))))))))))))))))))))))))))))))))))))))))))))))))))))))))))))))))))))))))))))))))))))))))))))))))))))))))))))))))))))))))))))))))))))))))))))))))))))))))))))))))))))))))))))))))))))))))))))))))))))))))))))))))))))))))))))))))))))))))))))))))))))))))))))))))))))))))))))))))))))))))))))))))))))))))))))))))))))))))))))))))))))))))))))))))))))))))))))))))))))))))))))))))))))))))))))))))))))))))))))))))))))))) :: []))))))))

(** val t_cms_aod_2 : tnode list **)

let t_cms_aod_2 =
  (TText
    ('<'::('u'::('s'::('e'::(' '::('n'::('a'::('m'::('e'::('='::('"'::('F'::('W'::('C'::('o'::('r'::('e'::('/'::('F'::('r'::('a'::('m'::('e'::('w'::('o'::('r'::('k'::('"'::('/'::('>'::('\n'::('<'::('u'::('s'::('e'::(' '::('n'::('a'::('m'::('e'::('='::('"'::('F'::('W'::('C'::('o'::('r'::('e'::('/'::('P'::('l'::('u'::('g'::('i'::('n'::('M'::('a'::('n'::('a'::('g'::('e'::('r'::('"'::('/'::('>'::('\n'::('<'::('u'::('s'::('e'::(' '::('n'::('a'::('m'::('e'::('='::('"'::('F'::('W'::('C'::('o'::('r'::('e'::('/'::('P'::('a'::('r'::('a'::('m'::('e'::('t'::('e'::('r'::('S'::('e'::('t'::('"'::('/'::('>'::('\n'::('<'::('!'::('-'::('-'::(' '::('*'::('*'::('*'::('*'::('*'::('*'::('*'::('*'::(' '::('-'::('-'::('>'::('\n'::('<'::('u'::('s'::('e'::(' '::('n'::('a'::('m'::('e'::('='::('"'::('D'::('a'::('t'::('a'::('F'::('o'::('r'::('m'::('a'::('t'::('s'::('/'::('T'::('r'::('a'::('c'::('k'::('R'::('e'::('c'::('o'::('"'::('/'::('>'::('\n'::('<'::('u'::('s'::('e'::(' '::('n'::('a'::('m'::('e'::('='::('"'::('C'::('o'::('m'::('m'::('o'::('n'::('T'::('o'::('o'::('l'::('s'::('/'::('U'::('t'::('i'::('l'::('A'::('l'::('g'::('o'::('s'::('"'::('/'::('>'::('\n'::('<'::('u'::('s'::('e'::(' '::('n'::('a'::('m'::('e'::('='::('"'::('P'::('h'::('y'::('s'::('i'::('c'::('s'::('T'::('o'::('o'::('l'::('s'::('/'::('U'::('t'::('i'::('l'::('A'::('l'::('g'::('o'::('s'::('"'::('/'::('>'::('\n'::('<'::('u'::('s'::('e'::(' '::('n'::('a'::('m'::('e'::('='::('"'::('D'::('a'::('t'::('a'::('F'::('o'::('r'::('m'::('a'::('t'::('s'::('/'::('M'::('u'::('o'::('n'::('R'::('e'::('c'::('o'::('"'::('/'::('>'::('\n'::('<'::('u'::('s'::('e'::(' '::('n'::('a'::('m'::('e'::('='::('"'::('R'::('e'::('c'::('o'::('M'::('u'::('o'::('n'::('/'::('T'::('r'::('a'::('c'::('k'::('i'::('n'::('g'::('T'::('o'::('o'::('l'::('s'::('"'::('/'::('>'::('\n'::('<'::('!'::('-'::('-'::(' '::('+'::('+'::('+'::('+'::('+'::('+'::('+'::('+'::(' '::('-'::('-'::('>'::('\n'::('<'::('f'::('l'::('a'::('g'::('s'::(' '::('E'::('D'::('M'::('_'::('P'::('L'::('U'::('G'::('I'::('N'::('='::('"'::('1'::('"'::('/'::('>'::('\n'::('<'::('e'::('x'::('p'::('o'::('r'::('t'::('>'::('\n'::(' '::(' '::(' '::('<'::('l'::('i'::('b'::(' '::('n'::('a'::('m'::('e'::('='::('"'::('1'::('"'::('/'::('>'::('\n'::('<'::('/'::('e'::('x'::('p'::('o'::('r'::('t'::('>'::[]))))))))))))))))))))))))))))))))))))))))))))))))))))))))))))))))))))))))))))))))))))))))))))))))))))))))))))))))))))))))))))))))))))))))))))))))))))))))))))))))))))))))))))))))))))))))))))))))))))))))))))))))))))))))))))))))))))))))))))))))))))))))))))))))))))))))))))))))))))))))))))))))))))))))))))))))))))))))))))))))))))))))))))))))))))))))))))))))))))))))))))))))))))))))))) :: []

(** val t_cms_aod_3 : tnode list **)

let t_cms_aod_3 =
  (TText
    ('v'::('o'::('i'::('d'::(' '::('c'::('o'::('p'::('y'::('_'::('r'::('o'::('o'::('t'::('_'::('t'::('r'::('e'::('e'::('('::('c'::('o'::('n'::('s'::('t'::(' '::('c'::('h'::('a'::('r'::('*'::(' '::('i'::('n'::('p'::('u'::('t'::('_'::('n'::('a'::('m'::('e'::(','::(' '::('c'::('o'::('n'::('s'::('t'::(' '::('c'::('h'::('a'::('r'::('*'::(' '::('o'::('u'::('t'::('p'::('u'::('t'::('_'::('n'::('a'::('m'::('e'::(')'::('\n'::('{'::('\n'::(' '::(' '::('T'::('F'::('i'::('l'::('e'::(' '::('*'::('f'::('_'::('i'::('n'::(' '::('='::(' '::('n'::('e'::('w'::(' '::('T'::('F'::('i'::('l'::('e'::('('::('i'::('n'::('p'::('u'::('t'::('_'::('n'::('a'::('m'::('e'::(','::(' '::('"'::('R'::('E'::('A'::('D'::('"'::(')'::(';'::('\n'::(' '::(' '::('T'::('F'::('i'::('l'::('e'::(' '::('*'::('f'::('_'::('o'::('u'::('t'::(' '::('='::(' '::('n'::('e'::('w'::(' '::('T'::('F'::('i'::('l'::('e'::('('::('o'::('u'::('t'::('p'::('u'::('t'::('_'::('n'::('a'::('m'::('e'::(','::(' '::('"'::('R'::('E'::('C'::('R'::('E'::('A'::('T'::('E'::('"'::(')'::(';'::('\n'::('\n'::(' '::(' '::('f'::('_'::('i'::('n'::('-'::('>'::('c'::('d'::('('::('"'::('d'::('e'::('m'::('o'::('"'::(')'::(';'::('\n'::(' '::(' '::('T'::('D'::('i'::('r'::('e'::('c'::('t'::('o'::('r'::('y'::(' '::('*'::('d'::('_'::('c'::('u'::('r'::('r'::('e'::('n'::('t'::(' '::('='::(' '::('g'::('D'::('i'::('r'::('e'::('c'::('t'::('o'::('r'::('y'::(';'::('\n'::(' '::(' '::('T'::('I'::('t'::('e'::('r'::(' '::('n'::('e'::('x'::('t'::('('::('g'::('D'::('i'::('r'::('e'::('c'::('t'::('o'::('r'::('y'::('-'::('>'::('G'::('e'::('t'::('L'::('i'::('s'::('t'::('O'::('f'::('K'::('e'::('y'::('s'::('('::(')'::(')'::(';'::('\n'::(' '::(' '::('T'::('K'::('e'::('y'::(' '::('*'::('k'::('e'::('y'::(';'::('\n'::(' '::(' '::('w'::('h'::('i'::('l'::('e'::(' '::('('::('('::('k'::('e'::('y'::('='::('('::('T'::('K'::('e'::('y'::('*'::(')'::('n'::('e'::('x'::('t'::('('::(')'::(')'::(')'::(' '::('{'::('\n'::(' '::(' '::(' '::(' '::('i'::('f'::(' '::('('::('T'::('S'::('t'::('r'::('i'::('n'::('g'::('('::('k'::('e'::('y'::('-'::('>'::('G'::('e'::('t'::('C'::('l'::('a'::('s'::('s'::('N'::('a'::('m'::('e'::('('::(')'::(')'::(' '::('='::('='::(' '::('"'::('T'::('T'::('r'::('e'::('e'::('"'::(')'::(' '::('{'::('\n'::(' '::(' '::(' '::(' '::(' '::(' '::('c'::('o'::('u'::('t'::(' '::('<'::('<'::(' '::('"'::('P'::('r'::('o'::('c'::('e'::('s'::('s'::('i'::('n'::('g'::(' '::('"'::(' '::('<'::('<'::(' '::('k'::('e'::('y'::('-'::('>'::('G'::('e'::('t'::('N'::('a'::('m'::('e'::('('::(')'::(' '::('<'::('<'::(' '::('e'::('n'::('d'::('l'::(';'::('\n'::('\n'::(' '::(' '::(' '::(' '::(' '::(' '::('/'::('/'::(' '::('G'::('e'::('t'::(' '::('t'::('h'::('e'::(' '::('o'::('l'::('d'::(' '::('T'::('T'::('r'::('e'::('e'::(' '::('f'::('r'::('o'::('m'::(' '::('t'::('h'::('e'::(' '::('o'::('l'::('d'::(' '::('f'::('i'::('l'::('e'::(' '::('('::('m'::('a'::('k'::('e'::(' '::('s'::('u'::('r'::('e'::(' '::('t'::('h'::('e'::(' '::('c'::('w'::('d'::(' '::('i'::('s'::(' '::('a'::('s'::(' '::('e'::('x'::('p'::('e'::('c'::('t'::('e'::('d'::(')'::('\n'::(' '::(' '::(' '::(' '::(' '::(' '::('d'::('_'::('c'::('u'::('r'::('r'::('e'::('n'::('t'::('-'::('>'::('c'::('d'::('('::(')'::(';'::('\n'::(' '::(' '::(' '::(' '::(' '::(' '::('T'::('T'::('r'::('e'::('e'::(' '::('*'::('t'::(';'::('\n'::(' '::(' '::(' '::(' '::(' '::(' '::('g'::('D'::('i'::('r'::('e'::('c'::('t'::('o'::('r'::('y'::('-'::('>'::('G'::('e'::('t'::('O'::('b'::('j'::('e'::('c'::('t'::('('::('k'::('e'::('y'::('-'::('>'::('G'::('e'::('t'::('N'::('a'::('m'::('e'::('('::(')'::(','::(' '::('t'::(')'::(';'::('\n'::('\n'::(' '::(' '::(' '::(' '::(' '::(' '::('/'::('/'::(' '::('W'::('r'::('i'::('t'::('e'::(' '::('i'::('t'::(' '::('o'::('u'::('t'::(' '::('t'::('o'::(' '::('t'::('h'::('e'::(' '::('n'::('e'::('w'::(' '::('f'::('i'::('l'::('e'::('.'::('\n'::(' '::(' '::(' '::(' '::(' '::(' '::('f'::('_'::('o'::('u'::('t'::('-'::('>'::('c'::('d'::('('::(')'::(';'::('\n'::(' '::(' '::(' '::(' '::(' '::(' '::('t'::('-'::('>'::('C'::('l'::('o'::('n'::('e'::('T'::('r'::('e'::('e'::('('::(')'::('-'::('>'::('W'::('r'::('i'::('t'::('e'::('('::(')'::(';'::('\n'::(' '::(' '::(' '::(' '::('}'::('\n'::(' '::(' '::('}'::('\n'::('\n'::(' '::(' '::('f'::('_'::('o'::('u'::('t'::('-'::('>'::('W'::('r'::('i'::('t'::('e'::('('::(')'::(';'::('\n'::(' '::(' '::('f'::('_'::('o'::('u'::('t'::('-'::('>'::('C'::('l'::('o'::('s'::('e'::('('::(')'::(';'::('\n'::(' '::(' '::('f'::('_'::('i'::('n'::('-'::('>'::('C'::('l'::('o'::('s'::('e'::('('::(')'::(';'::('\n'::('}'::[])))))))))))))))))))))))))))))))))))))))))))))))))))))))))))))))))))))))))))))))))))))))))))))))))))))))))))))))))))))))))))))))))))))))))))))))))))))))))))))))))))))))))))))))))))))))))))))))))))))))))))))))))))))))))))))))))))))))))))))))))))))))))))))))))))))))))))))))))))))))))))))))))))))))))))))))))))))))))))))))))))))))))))))))))))))))))))))))))))))))))))))))))))))))))))))))))))))))))))))))))))))))))))))))))))))))))))))))))))))))))))))))))))))))))))))))))))))))))))))))))))))))))))))))))))))))))))))))))))))))))))))))))))))))))))))))))))))))))))))))))))))))))))))))))))))))))))))))))))))))))))))))))))))))))))))))))))))))))))))))))))))))))))))))))))))))))))))))))))))))))))))))))))))))))))))))))))))))))))))))))))))))))))))))))))))))))))) :: []

(** val t_cms_aod_4 : tnode list **)

let t_cms_aod_4 =
  (TText
    ('#'::('!'::('/'::('b'::('i'::('n'::('/'::('b'::('a'::('s'::('h'::('\n'::('\n'::('s'::('e'::('t'::(' '::('-'::('e'::('\n'::('s'::('e'::('t'::(' '::('-'::('x'::('\n'::('\n'::('#'::(' '::('P'::('a'::('r'::('s'::('e'::(' '::('t'::('h'::('e'::(' '::('c'::('o'::('m'::('m'::('a'::('n'::('d'::(' '::('l'::('i'::('n'::('e'::(' '::('a'::('r'::('g'::('u'::('m'::('e'::('n'::('t'::('s'::('.'::(' '::('O'::('u'::('r'::(' '::('d'::('e'::('f'::('a'::('u'::('l'::('t'::('s'::('\n'::('o'::('u'::('t'::('p'::('u'::('t'::('_'::('m'::('e'::('t'::('h'::('o'::('d'::('='::('"'::('c'::('p'::('"'::('\n'::('o'::('u'::('t'::('p'::('u'::('t'::('_'::('d'::('i'::('r'::('='::('"'::('/'::('r'::('e'::('s'::('u'::('l'::('t'::('s'::('"'::('\n'::('i'::('n'::('p'::('u'::('t'::('_'::('m'::('e'::('t'::('h'::('o'::('d'::('='::('"'::('f'::('i'::('l'::('e'::('l'::('i'::('s'::('t'::('"'::('\n'::('i'::('n'::('p'::('u'::('t'::('_'::('f'::('i'::('l'::('e'::('='::('"'::('"'::('\n'::('c'::('o'::('m'::('p'::('i'::('l'::('e'::('='::('1'::('\n'::('r'::('u'::('n'::('='::('1'::('\n'::('\n'::('w'::('h'::('i'::('l'::('e'::(' '::('g'::('e'::('t'::('o'::('p'::('t'::('s'::(' '::('"'::('d'::(':'::('o'::(':'::('c'::('r'::('"'::(' '::('o'::('p'::('t'::(';'::(' '::('d'::('o'::('\n'::(' '::(' '::(' '::(' '::('c'::('a'::('s'::('e'::(' '::('"'::('$'::('o'::('p'::('t'::('"'::(' '::('i'::('n'::('\n'::(' '::(' '::(' '::(' '::('d'::(')'::('\n'::(' '::(' '::(' '::(' '::(' '::(' '::(' '::(' '::('i'::('n'::('p'::('u'::('t'::('_'::('m'::('e'::('t'::('h'::('o'::('d'::('='::('"'::('c'::('m'::('d'::('"'::('\n'::(' '::(' '::(' '::(' '::(' '::(' '::(' '::(' '::('i'::('n'::('p'::('u'::('t'::('_'::('f'::('i'::('l'::('e'::('='::('$'::('O'::('P'::('T'::('A'::('R'::('G'::('\n'::(' '::(' '::(' '::(' '::(' '::(' '::(' '::(' '::(';'::(';'::('\n'::(' '::(' '::(' '::(' '::('c'::(')'::('\n'::(' '::(' '::(' '::(' '::(' '::(' '::(' '::(' '::('r'::('u'::('n'::('='::('0'::('\n'::(' '::(' '::(' '::(' '::(' '::(' '::(' '::(' '::(';'::(';'::('\n'::(' '::(' '::(' '::(' '::('r'::(')'::('\n'::(' '::(' '::(' '::(' '::(' '::(' '::(' '::(' '::('c'::('o'::('m'::('p'::('i'::('l'::('e'::('='::('0'::('\n'::(' '::(' '::(' '::(' '::(' '::(' '::(' '::(' '::(';'::(';'::('\n'::(' '::(' '::(' '::(' '::('o'::(')'::('\n'::(' '::(' '::(' '::(' '::(' '::(' '::(' '::(' '::('o'::('u'::('t'::('p'::('u'::('t'::('_'::('d'::('i'::('r'::('='::('$'::('O'::('P'::('T'::('A'::('R'::('G'::('\n'::(' '::(' '::(' '::(' '::(' '::(' '::(' '::(' '::(';'::(';'::('\n'::(' '::(' '::(' '::(' '::('?'::(')'::('\n'::(' '::(' '::(' '::(' '::(' '::(' '::(' '::(' '::('e'::('x'::('i'::('t'::(' '::('1'::('0'::('\n'::(' '::(' '::(' '::(' '::('e'::('s'::('a'::('c'::('\n'::('d'::('o'::('n'::('e'::('\n'::('\n'::('#'::(' '::('I'::('f'::(' '::('t'::('h'::('e'::('r'::('e'::(' '::('a'::('r'::('e'::(' '::('a'::('n'::('y'::(' '::('a'::('r'::('g'::('u'::('m'::('e'::('n'::('t'::('s'::(' '::('l'::('e'::('f'::('t'::(' '::('o'::('v'::('e'::('r'::(','::(' '::('t'::('h'::('e'::('n'::(' '::('v'::('e'::('r'::('y'::(' '::('b'::('a'::('d'::(' '::('t'::('h'::('i'::('n'::('g'::('s'::(' '::('h'::('a'::('v'::('e'::(' '::('h'::('a'::('p'::('p'::('e'::('n'::('e'::('d'::('.'::('\n'::('s'::('h'::('i'::('f'::('t'::(' '::('$'::('('::('('::('O'::('P'::('T'::('I'::('N'::('D'::('-'::('1'::(')'::(')'::('\n'::('i'::('f'::(' '::('['::(' '::('$'::('#'::(' '::('!'::('='::(' '::('0'::(' '::(']'::(';'::(' '::('t'::('h'::('e'::('n'::('\n'::(' '::(' '::('e'::('c'::('h'::('o'::(' '::('"'::('E'::('x'::('t'::('r'::('a'::(' '::('a'::('r'::('g'::('u'::('m'::('e'::('n'::('t'::('s'::(' '::('o'::('n'::(' '::('t'::('h'::('e'::(' '::('c'::('o'::('m'::('m'::('a'::('n'::('d'::(' '::('l'::('i'::('n'::('e'::(' '::('$'::('@'::('"'::('\n'::(' '::(' '::('e'::('x'::('i'::('t'::(' '::('1'::('\n'::('f'::('i'::('\n'::('\n'::('#'::(' '::('S'::('e'::('t'::('u'::('p'::(' '::('t'::('h'::('e'::(' '::('C'::('M'::('S'::(' '::('s'::('o'::('f'::('t'::('w'::('a'::('r'::('e'::(' '::('('::('n'::('o'::('r'::('m'::('a'::('l'::('l'::('y'::(' '::('d'::('o'::('n'::('e'::(' '::('a'::('u'::('t'::('o'::('m'::('a'::('t'::('i'::('c'::('a'::('l'::('l'::('y'::(','::(' '::('b'::('u'::('t'::(' '::('n'::('o'::('t'::(' '::('f'::('o'::('r'::(' '::('S'::('e'::('r'::('v'::('i'::('c'::('e'::('X'::(')'::('\n'::('i'::('f'::(' '::('['::(' '::('-'::('z'::(' '::('"'::('$'::('C'::('V'::('S'::('R'::('O'::('O'::('T'::('"'::(' '::(']'::(';'::(' '::('t'::('h'::('e'::('n'::('\n'::(' '::(' '::(' '::(' '::('.'::(' '::('/'::('o'::('p'::('t'::('/'::('c'::('m'::('s'::('/'::('e'::('n'::('t'::('r'::('y'::('p'::('o'::('i'::('n'::('t'::('.'::('s'::('h'::(';'::(' '::('\n'::('f'::('i'::('\n'::('\n'::('#'::('#'::(' '::('G'::('e'::('t'::(' '::('t'::('h'::('e'::(' '::('l'::('o'::('c'::('a'::('t'::('i'::('o'::('n'::(' '::('o'::('f'::(' '::('t'::('h'::('i'::('s'::(' '::('s'::('c'::('r'::('i'::('p'::('t'::(','::(' '::('a'::('n'::('d'::(','::(' '::('h'::('e'::('n'::('c'::('e'::(' '::('w'::('h'::('e'::('r'::('e'::(' '::('w'::('e'::(' '::('a'::('r'::('e'::(' '::('g'::('o'::('i'::('n'::('g'::(' '::('t'::('o'::(' '::('b'::('e'::(' '::('d'::('o'::('i'::('n'::('g'::(' '::('t'::('h'::('i'::('n'::('g'::('s'::('.'::('\n'::('D'::('I'::('R'::('='::('"'::('$'::('('::(' '::('c'::('d'::(' '::('"'::('$'::('('::(' '::('d'::('i'::('r'::('n'::('a'::('m'::('e'::(' '::('"'::('$'::('{'::('B'::('A'::('S'::('H'::('_'::('S'::('O'::('U'::('R'::('C'::('E'::('['::('0'::(']'::('}'::('"'::(' '::(')'::('"'::(' '::('>'::('/'::('d'::('e'::('v'::('/'::('n'::('u'::('l'::('l'::(' '::('2'::('>'::('&'::('1'::(' '::('&'::('&'::(' '::('p'::('w'::('d'::(' '::(')'::('"'::('\n'::('l'::('o'::('c'::('a'::('l'::('='::('`'::('p'::('w'::('d'::('`'::('\n'::('\n'::('#'::(' '::('B'::('u'::('i'::('l'::('d'::(' '::('t'::('h'::('e'::(' '::('a'::('n'::('a'::('l'::('y'::('s'::('i'::('s'::(' '::('i'::('s'::(' '::('n'::('e'::('e'::('d'::(' '::('b'::('e'::('\n'::('i'::('f'::(' '::('['::(' '::('$'::('c'::('o'::('m'::('p'::('i'::('l'::('e'::(' '::('='::(' '::('1'::(' '::(']'::(';'::(' '::('t'::('h'::('e'::('n'::('\n'::('\n'::(' '::(' '::(' '::(' '::('#'::('#'::(' '::('C'::('r'::('e'::('a'::('t'::('e'::(' '::('a'::(' '::('s'::('u'::('b'::('d'::('i'::('r'::(' '::('f'::('o'::('r'::(' '::('t'::('h'::('e'::(' '::('a'::('n'::('a'::('l'::('y'::('s'::('i'::('s'::('\n'::(' '::(' '::(' '::(' '::('m'::('k'::('d'::('i'::('r'::(' '::('a'::('n'::('a'::('l'::('y'::('s'::('i'::('s'::('\n'::(' '::(' '::(' '::(' '::('c'::('d'::(' '::('a'::('n'::('a'::('l'::('y'::('s'::('i'::('s'::('\n'::('\n'::(' '::(' '::(' '::(' '::('#'::('#'::(' '::('C'::('r'::('e'::('a'::('t'::('e'::(' '::('t'::('h'::('e'::(' '::('E'::('D'::(' '::('A'::('n'::('a'::('l'::('y'::('z'::('e'::('r'::(' '::('p'::('a'::('c'::('k'::('a'::('g'::('e'::('\n'::(' '::(' '::(' '::(' '::('m'::('k'::('e'::('d'::('a'::('n'::('l'::('z'::('r'::(' '::('A'::('n'::('a'::('l'::('y'::('z'::('e'::('r'::('\n'::(' '::(' '::(' '::(' '::('c'::('d'::(' '::('A'::('n'::('a'::('l'::('y'::('z'::('e'::('r'::('\n'::('\n'::('\n'::(' '::(' '::(' '::(' '::('c'::('p'::(' '::('$'::('D'::('I'::('R'::('/'::('A'::('n'::('a'::('l'::('y'::('z'::('e'::('r'::('.'::('c'::('c'::(' '::('.'::('/'::('s'::('r'::('c'::('/'::('\n'::(' '::(' '::(' '::(' '::('c'::('p'::(' '::('$'::('D'::('I'::('R'::('/'::('a'::('n'::('a'::('l'::('y'::('z'::('e'::('r'::('_'::('c'::('f'::('g'::('.'::('p'::('y'::(' '::('.'::('\n'::(' '::(' '::(' '::(' '::('c'::('p'::(' '::('$'::('D'::('I'::('R'::('/'::('B'::('u'::('i'::('l'::('d'::('F'::('i'::('l'::('e'::('.'::('x'::('m'::('l'::(' '::('.'::('\n'::('\n'::(' '::(' '::(' '::(' '::('#'::('#'::(' '::('b'::('u'::('i'::('l'::('d'::(' '::('t'::('h'::('e'::(' '::('a'::('n'::('a'::('l'::('y'::('z'::('e'::('r'::('\n'::(' '::(' '::(' '::(' '::('s'::('c'::('r'::('a'::('m'::(' '::('b'::('\n'::('e'::('l'::('s'::('e'::('\n'::(' '::(' '::(' '::(' '::('c'::('d'::(' '::('a'::('n'::('a'::('l'::('y'::('s'::('i'::('s'::('/'::('A'::('n'::('a'::('l'::('y'::('z'::('e'::('r'::('\n'::('f'::('i'::('\n'::('\n'::('#'::(' '::('R'::('u'::('n'::(' '::('t'::('h'::('e'::(' '::('a'::('n'::('a'::('l'::('y'::('s'::('i'::('s'::('\n'::('i'::('f'::(' '::('['::(' '::('$'::('r'::('u'::('n'::(' '::('='::(' '::('1'::(' '::(']'::(';'::(' '::('t'::('h'::('e'::('n'::('\n'::(' '::(' '::(' '::(' '::('#'::(' '::('F'::('i'::('g'::('u'::('r'::('e'::(' '::('o'::('u'::('t'::(' '::('t'::('h'::('e'::(' '::('i'::('n'::('p'::('u'::('t'::(' '::('f'::('i'::('l'::('e'::('\n'::(' '::(' '::(' '::(' '::('i'::('f'::(' '::('['::(' '::('"'::('$'::('i'::('n'::('p'::('u'::('t'::('_'::('m'::('e'::('t'::('h'::('o'::('d'::('"'::(' '::('='::('='::(' '::('"'::('f'::('i'::('l'::('e'::('l'::('i'::('s'::('t'::('"'::(' '::(']'::(';'::(' '::('t'::('h'::('e'::('n'::('\n'::(' '::(' '::(' '::(' '::(' '::(' '::(' '::(' '::('i'::('f'::(' '::('['::(' '::('-'::('e'::(' '::('$'::('D'::('I'::('R'::('/'::('f'::('i'::('l'::('e'::('l'::('i'::('s'::('t'::('.'::('t'::('x'::('t'::(' '::(']'::(';'::(' '::('t'::('h'::('e'::('n'::('\n'::(' '::(' '::(' '::(' '::(' '::(' '::(' '::(' '::(' '::(' '::(' '::(' '::('c'::('p'::(' '::('$'::('D'::('I'::('R'::('/'::('f'::('i'::('l'::('e'::('l'::('i'::('s'::('t'::('.'::('t'::('x'::('t'::(' '::('.'::('\n'::(' '::(' '::(' '::(' '::(' '::(' '::(' '::(' '::('e'::('l'::('s'::('e'::('\n'::(' '::(' '::(' '::(' '::(' '::(' '::(' '::(' '::(' '::(' '::(' '::(' '::('c'::('p'::(' '::('$'::('l'::('o'::('c'::('a'::('l'::('/'::('f'::('i'::('l'::('e'::('l'::('i'::('s'::('t'::('.'::('t'::('x'::('t'::(' '::('.'::('\n'::(' '::(' '::(' '::(' '::(' '::(' '::(' '::(' '::('f'::('i'::('\n'::(' '::(' '::(' '::(' '::('e'::('l'::('i'::('f'::(' '::('['::(' '::('"'::('$'::('i'::('n'::('p'::('u'::('t'::('_'::('m'::('e'::('t'::('h'::('o'::('d'::('"'::(' '::('='::('='::(' '::('"'::('c'::('m'::('d'::('"'::(' '::(']'::(';'::(' '::('t'::('h'::('e'::('n'::('\n'::(' '::(' '::(' '::(' '::(' '::(' '::(' '::(' '::('e'::('c'::('h'::('o'::(' '::('$'::('i'::('n'::('p'::('u'::('t'::('_'::('f'::('i'::('l'::('e'::(' '::('>'::(' '::('f'::('i'::('l'::('e'::('l'::('i'::('s'::('t'::('.'::('t'::('x'::('t'::('\n'::(' '::(' '::(' '::(' '::('f'::('i'::('\n'::('\n'::(' '::(' '::(' '::(' '::('#'::(' '::('F'::('i'::('g'::('u'::('r'::('e'::(' '::('o'::('u'::('t'::(' '::('t'::('h'::('e'::(' '::('o'::('u'::('t'::('p'::('u'::('t'::(' '::('f'::('i'::('l'::('e'::('\n'::(' '::(' '::(' '::(' '::('i'::('f'::(' '::('['::(' '::('$'::('o'::('u'::('t'::('p'::('u'::('t'::('_'::('m'::('e'::('t'::('h'::('o'::('d'::(' '::('='::('='::(' '::('"'::('c'::('p'::('"'::(' '::(']'::(';'::(' '::('t'::('h'::('e'::('n'::('\n'::(' '::(' '::(' '::(' '::(' '::(' '::(' '::(' '::('i'::('f'::(' '::('['::(' '::('-'::('d'::(' '::('$'::('o'::('u'::('t'::('p'::('u'::('t'::('_'::('d'::('i'::('r'::(' '::(']'::(';'::(' '::('t'::('h'::('e'::('n'::('\n'::(' '::(' '::(' '::(' '::(' '::(' '::(' '::(' '::(' '::(' '::(' '::(' '::('d'::('e'::('s'::('t'::('i'::('n'::('a'::('t'::('i'::('o'::('n'::('='::('$'::('o'::('u'::('t'::('p'::('u'::('t'::('_'::('d'::('i'::('r'::('/'::('A'::('N'::('A'::('L'::('Y'::('S'::('I'::('S'::('.'::('r'::('o'::('o'::('t'::('\n'::(' '::(' '::(' '::(' '::(' '::(' '::(' '::(' '::('e'::('l'::('s'::('e'::('\n'::(' '::(' '::(' '::(' '::(' '::(' '::(' '::(' '::(' '::(' '::(' '::(' '::('d'::('e'::('s'::('t'::('i'::('n'::('a'::('t'::('i'::('o'::('n'::('='::('$'::('o'::('u'::('t'::('p'::('u'::('t'::('_'::('d'::('i'::('r'::('\n'::(' '::(' '::(' '::(' '::(' '::(' '::(' '::(' '::('f'::('i'::('\n'::(' '::(' '::(' '::(' '::(' '::(' '::(' '::(' '::('c'::('m'::('d'::('='::('"'::('c'::('p'::('"'::('\n'::(' '::(' '::(' '::(' '::('e'::('l'::('s'::('e'::('\n'::(' '::(' '::(' '::(' '::(' '::(' '::(' '::(' '::('d'::('e'::('s'::('t'::('i'::('n'::('a'::('t'::('i'::('o'::('n'::('='::('$'::('1'::('\n'::(' '::(' '::(' '::(' '::(' '::(' '::('c'::('m'::('d'::('='::('"'::('c'::('p'::('"'::('\n'::(' '::(' '::(' '::(' '::(' '::(' '::('i'::('f'::(' '::('['::('['::(' '::('$'::('d'::('e'::('s'::('t'::('i'::('n'::('a'::('t'::('i'::('o'::('n'::(' '::('='::('='::(' '::('"'::('r'::('o'::('o'::('t'::(':'::('"'::('*'::(' '::(']'::(']'::(';'::(' '::('t'::('h'::('e'::('n'::('\n'::(' '::(' '::(' '::(' '::(' '::(' '::(' '::(' '::(' '::('c'::('m'::('d'::('='::('"'::('x'::('r'::('d'::('c'::('p'::('"'::('\n'::(' '::(' '::(' '::(' '::(' '::(' '::('f'::('i'::('\n'::(' '::(' '::(' '::(' '::('f'::('i'::('\n'::(' '::(' '::(' '::(' '::('e'::('x'::('p'::('o'::('r'::('t'::(' '::('C'::('M'::('S'::('_'::('O'::('U'::('T'::('P'::('U'::('T'::('_'::('F'::('I'::('L'::('E'::('='::('A'::('N'::('A'::('L'::('Y'::('S'::('I'::('S'::('.'::('r'::('o'::('o'::('t'::('\n'::('\n'::(' '::(' '::(' '::(' '::('#'::(' '::('r'::('u'::('n'::(' '::('t'::('h'::('e'::(' '::('a'::('n'::('a'::('l'::('y'::('s'::('i'::('s'::('\n'::(' '::(' '::(' '::(' '::('c'::('m'::('s'::('R'::('u'::('n'::(' '::('a'::('n'::('a'::('l'::('y'::('z'::('e'::('r'::('_'::('c'::('f'::('g'::('.'::('p'::('y'::('\n'::('\n'::(' '::(' '::(' '::(' '::('#'::(' '::('C'::('o'::('n'::('v'::('e'::('r'::('t'::(' '::('t'::('h'::('e'::(' '::('R'::('O'::('O'::('T'::(' '::('f'::('i'::('l'::('e'::(' '::('i'::('n'::('t'::('o'::(' '::('t'::('h'::('e'::(' '::('p'::('r'::('o'::('p'::('e'::('r'::(' '::('f'::('o'::('r'::('m'::('a'::('t'::('.'::('\n'::(' '::(' '::(' '::(' '::('#'::(' '::('C'::('M'::('S'::(' '::('w'::('r'::('i'::('t'::('e'::('s'::(' '::('t'::('h'::('e'::(' '::('t'::('u'::('p'::('l'::('e'::('s'::(' '::('o'::('n'::('e'::(' '::('d'::('i'::('r'::('e'::('c'::('t'::('o'::('r'::('y'::(' '::('d'::('o'::('w'::('n'::(' '::('r'::('a'::('t'::('h'::('e'::('r'::(' '::('t'::('h'::('a'::('n'::(' '::('i'::('n'::(' '::('t'::('h'::('e'::(' '::('t'::('o'::('p'::(' '::('l'::('e'::('v'::('e'::('l'::('.'::('\n'::(' '::(' '::(' '::(' '::('#'::(' '::('P'::('e'::('r'::('h'::('a'::('p'::('s'::(' '::('t'::('h'::('e'::('r'::('e'::(' '::('i'::('s'::(' '::('a'::(' '::('m'::('o'::('r'::('e'::(' '::('e'::('f'::('f'::('i'::('c'::('i'::('e'::('n'::('t'::(' '::('w'::('a'::('y'::(' '::('t'::('o'::(' '::('s'::('o'::('l'::('v'::('e'::(' '::('t'::('h'::('i'::('s'::('?'::('\n'::(' '::(' '::(' '::(' '::('i'::('f'::(' '::('['::(' '::('$'::('c'::('m'::('d'::(' '::('='::('='::(' '::('"'::('c'::('p'::('"'::(' '::(']'::(';'::(' '::('t'::('h'::('e'::('n'::('\n'::(' '::(' '::(' '::(' '::(' '::(' '::(' '::(' '::('c'::('v'::('t'::('='::('\''::('r'::('o'::('o'::('t'::(' '::('-'::('b'::(' '::('-'::('l'::(' '::('-'::('q'::(' '::('$'::('D'::('I'::('R'::('/'::('c'::('o'::('p'::('y'::('_'::('r'::('o'::('o'::('t'::('_'::('t'::('r'::('e'::('e'::('.'::('C'::('\\'::('('::('\\'::('"'::('.'::('/'::('$'::('C'::('M'::('S'::('_'::('O'::('U'::('T'::('P'::('U'::('T'::('_'::('F'::('I'::('L'::('E'::('\\'::('"'::(','::('\\'::('"'::('$'::('d'::('e'::('s'::('t'::('i'::('n'::('a'::('t'::('i'::('o'::('n'::('\\'::('"'::('\\'::(')'::('\''::('\n'::(' '::(' '::(' '::(' '::(' '::(' '::(' '::(' '::('e'::('v'::('a'::('l'::(' '::('$'::('c'::('v'::('t'::('\n'::(' '::(' '::(' '::(' '::('e'::('l'::('s'::('e'::('\n'::(' '::(' '::(' '::(' '::(' '::(' '::(' '::(' '::('c'::('v'::('t'::('='::('\''::('r'::('o'::('o'::('t'::(' '::('-'::('b'::(' '::('-'::('l'::(' '::('-'::('q'::(' '::('$'::('D'::('I'::('R'::('/'::('c'::('o'::('p'::('y'::('_'::('r'::('o'::('o'::('t'::('_'::('t'::('r'::('e'::('e'::('.'::('C'::('\\'::('('::('\\'::('"'::('.'::('/'::('$'::('C'::('M'::('S'::('_'::('O'::('U'::('T'::('P'::('U'::('T'::('_'::('F'::('I'::('L'::('E'::('\\'::('"'::(','::('\\'::('"'::('t'::('e'::('m'::('p'::('-'::('o'::('u'::('t'::('p'::('u'::('t'::('.'::('r'::('o'::('o'::('t'::('\\'::('"'::('\\'::(')'::('\''::('\n'::(' '::(' '::(' '::(' '::(' '::(' '::(' '::(' '::('e'::('v'::('a'::('l'::(' '::('$'::('c'::('v'::('t'::('\n'::(' '::(' '::(' '::(' '::(' '::(' '::(' '::(' '::('$'::('c'::('m'::('d'::(' '::('.'::('/'::('t'::('e'::('m'::('p'::('-'::('o'::('u'::('t'::('p'::('u'::('t'::('.'::('r'::('o'::('o'::('t'::(' '::('$'::('d'::('e'::('s'::('t'::('i'::('n'::('a'::('t'::('i'::('o'::('n'::('\n'::(' '::(' '::(' '::(' '::('f'::('i'::('\n'::('f'::('i'::[]))))))))))))))))))))))))))))))))))))))))))))))))))))))))))))))))))))))))))))))))))))))))))))))))))))))))))))))))))))))))))))))))))))))))))))))))))))))))))))))))))))))))))))))))))))))))))))))))))))))))))))))))))))))))))))))))))))))))))))))))))))))))))))))))))))))))))))))))))))))))))))))))))))))))))))))))))))))))))))))))))))))))))))))))))))))))))))))))))))))))))))))))))))))))))))))))))))))))))))))))))))))))))))))))))))))))))))))))))))))))))))))))))))))))))))))))))))))))))))))))))))))))))))))))))))))))))))))))))))))))))))))))))))))))))))))))))))))))))))))))))))))))))))))))))))))))))))))))))))))))))))))))))))))))))))))))))))))))))))))))))))))))))))))))))))))))))))))))))))))))))))))))))))))))))))))))))))))))))))))))))))))))))))))))))))))))))))))))))))))))))))))))))))))))))))))))))))))))))))))))))))))))))))))))))))))))))))))))))))))))))))))))))))))))))))))))))))))))))))))))))))))))))))))))))))))))))))))))))))))))))))))))))))))))))))))))))))))))))))))))))))))))))))))))))))))))))))))))))))))))))))))))))))))))))))))))))))))))))))))))))))))))))))))))))))))))))))))))))))))))))))))))))))))))))))))))))))))))))))))))))))))))))))))))))))))))))))))))))))))))))))))))))))))))))))))))))))))))))))))))))))))))))))))))))))))))))))))))))))))))))))))))))))))))))))))))))))))))))))))))))))))))))))))))))))))))))))))))))))))))))))))))))))))))))))))))))))))))))))))))))))))))))))))))))))))))))))))))))))))))))))))))))))))))))))))))))))))))))))))))))))))))))))))))))))))))))))))))))))))))))))))))))))))))))))))))))))))))))))))))))))))))))))))))))))))))))))))))))))))))))))))))))))))))))))))))))))))))))))))))))))))))))))))))))))))))))))))))))))))))))))))))))))))))))))))))))))))))))))))))))))))))))))))))))))))))))))))))))))))))))))))))))))))))))))))))))))))))))))))))))))))))))))))))))))))))))))))))))))))))))))))))))))))))))))))))))))))))))))))))))))))))))))))))))))))))))))))))))))))))))))))))))))))))))))))))))))))))))))))))))))))))))))))))))))))))))))))))))))))))))))))))))))))))))))))))))))))))))))))))))))))))))))))))))))))))))))))))))))))))))))))))))))))))))))))))))))))))))))))))))))))))))))))))))))))))))))))))))))))))))))))))))))))))))))))))))))))))))))))))))))))))))))))))))))))))))))))))))))))))))))))))))))))))))))))))))))))))))))))))))))))))))))))))))))))))))))))))))))))))))))))))))))))))))))))))))))))))))))))))))))))))))))))))))))))))))))))))))))))))))))))))))))))))))))))))))))))))))))))))))))))))))))))))))))))))))))))))))))))))))))))))))))))))))))))))))))))))))))))))))))))))))))))))))))))))))))))))))))))))))))))))))))))))))))))))))))))))))))))))))))))))))))))))))))))))))))))))))))))))))))))))))))))))))))))))))) :: []

(** val backend_cms_aod : backend **)

let backend_cms_aod =
  { be_name = ('c'::('m'::('s'::('_'::('a'::('o'::('d'::[])))))));
    be_extra_keys = []; be_templates =
    ((('a'::('n'::('a'::('l'::('y'::('z'::('e'::('r'::('_'::('c'::('f'::('g'::('.'::('p'::('y'::[]))))))))))))))),
    t_cms_aod_0) :: ((('A'::('n'::('a'::('l'::('y'::('z'::('e'::('r'::('.'::('c'::('c'::[]))))))))))),
    t_cms_aod_1) :: ((('B'::('u'::('i'::('l'::('d'::('F'::('i'::('l'::('e'::('.'::('x'::('m'::('l'::[]))))))))))))),
    t_cms_aod_2) :: ((('c'::('o'::('p'::('y'::('_'::('r'::('o'::('o'::('t'::('_'::('t'::('r'::('e'::('e'::('.'::('C'::[])))))))))))))))),
    t_cms_aod_3) :: ((('r'::('u'::('n'::('n'::('e'::('r'::('.'::('s'::('h'::[]))))))))),
    t_cms_aod_4) :: []))))) }

(** val t_cms_miniaod_0 : tnode list **)

let t_cms_miniaod_0 =
  (TText
    (append
      ('#'::('!'::('/'::('u'::('s'::('r'::('/'::('b'::('i'::('n'::('/'::('e'::('n'::('v'::(' '::('p'::('y'::('t'::('h'::('o'::('n'::('\n'::('\n'::('i'::('m'::('p'::('o'::('r'::('t'::(' '::('F'::('W'::('C'::('o'::('r'::('e'::('.'::('P'::('a'::('r'::('a'::('m'::('e'::('t'::('e'::('r'::('S'::('e'::('t'::('.'::('C'::('o'::('n'::('f'::('i'::('g'::(' '::('a'::('s'::(' '::('c'::('m'::('s'::(' '::(' '::('#'::(' '::('t'::('y'::('p'::('e'::(':'::(' '::('i'::('g'::('n'::('o'::('r'::('e'::('\n'::('i'::('m'::('p'::('o'::('r'::('t'::(' '::('o'::('s'::('\n'::('\n'::('p'::('r'::('o'::('c'::('e'::('s'::('s'::(' '::('='::(' '::('c'::('m'::('s'::('.'::('P'::('r'::('o'::('c'::('e'::('s'::('s'::('('::('"'::('D'::('e'::('m'::('o'::('"'::(')'::('\n'::('\n'::('p'::('r'::('o'::('c'::('e'::('s'::('s'::('.'::('l'::('o'::('a'::('d'::('('::('"'::('F'::('W'::('C'::('o'::('r'::('e'::('.'::('M'::('e'::('s'::('s'::('a'::('g'::('e'::('S'::('e'::('r'::('v'::('i'::('c'::('e'::('.'::('M'::('e'::('s'::('s'::('a'::('g'::('e'::('L'::('o'::('g'::('g'::('e'::('r'::('_'::('c'::('f'::('i'::('"'::(')'::('\n'::('\n'::('p'::('r'::('o'::('c'::('e'::('s'::('s'::('.'::('m'::('a'::('x'::('E'::('v'::('e'::('n'::('t'::('s'::(' '::('='::(' '::('c'::('m'::('s'::('.'::('u'::('n'::('t'::('r'::('a'::('c'::('k'::('e'::('d'::('.'::('P'::('S'::('e'::('t'::('('::('i'::('n'::('p'::('u'::('t'::('='::('c'::('m'::('s'::('.'::('u'::('n'::('t'::('r'::('a'::('c'::('k'::('e'::('d'::('.'::('i'::('n'::('t'::('3'::('2'::('('::('1'::('0'::(')'::(')'::('\n'::('\n'::('f'::('i'::('l'::('e'::('l'::('i'::('s'::('t'::('P'::('a'::('t'::('h'::(' '::('='::(' '::('"'::('f'::('i'::('l'::('e'::('l'::('i'::('s'::('t'::('.'::('t'::('x'::('t'::('"'::('\n'::('f'::('i'::('l'::('e'::('N'::('a'::('m'::('e'::('s'::(' '::('='::(' '::('t'::('u'::('p'::('l'::('e'::('('::('['::('f'::('"'::('f'::('i'::('l'::('e'::(':'::('{'::('l'::('i'::('n'::('e'::('}'::('"'::(' '::('f'::('o'::('r'::(' '::('l'::('i'::('n'::('e'::(' '::('i'::('n'::(' '::('o'::('p'::('e'::('n'::('('::('f'::('i'::('l'::('e'::('l'::('i'::('s'::('t'::('P'::('a'::('t'::('h'::(','::(' '::('"'::('r'::('"'::(')'::('.'::('r'::('e'::('a'::('d'::('l'::('i'::('n'::('e'::('s'::('('::(')'::(']'::(')'::('\n'::('\n'::('p'::('r'::('o'::('c'::('e'::('s'::('s'::('.'::('s'::('o'::('u'::('r'::('c'::('e'::(' '::('='::(' '::('c'::('m'::('s'::('.'::('S'::('o'::('u'::('r'::('c'::('e'::('('::('\n'::(' '::(' '::(' '::(' '::('"'::('P'::('o'::('o'::('l'::('S'::('o'::('u'::('r'::('c'::('e'::('"'::(','::('\n'::(' '::(' '::(' '::(' '::('#'::(' '::('r'::('e'::('p'::('l'::('a'::('c'::('e'::(' '::('\''::('m'::('y'::('f'::('i'::('l'::('e'::('.'::('r'::('o'::('o'::('t'::('\''::(' '::('w'::('i'::('t'::('h'::(' '::('t'::('h'::('e'::(' '::('s'::('o'::('u'::('r'::('c'::('e'::(' '::('f'::('i'::('l'::('e'::(' '::('y'::('o'::('u'::(' '::('w'::('a'::('n'::('t'::(' '::('t'::('o'::(' '::('u'::('s'::('e'::('\n'::(' '::(' '::(' '::(' '::('f'::('i'::('l'::('e'::('N'::('a'::('m'::('e'::('s'::('='::('c'::('m'::('s'::('.'::('u'::('n'::('t'::('r'::('a'::('c'::('k'::('e'::('d'::('.'::('v'::('s'::('t'::('r'::('i'::('n'::('g'::('('::[])))))))))))))))))))))))))))))))))))))))))))))))))))))))))))))))))))))))))))))))))))))))))))))))))))))))))))))))))))))))))))))))))))))))))))))))))))))))))))))))))))))))))))))))))))))))))))))))))))))))))))))))))))))))))))))))))))))))))))))))))))))))))))))))))))))))))))))))))))))))))))))))))))))))))))))))))))))))))))))))))))))))))))))))))))))))))))))))))))))))))))))))))))))))))))))))))))))))))))))))))))))))))))))))))))))))))))))))))))))))))))))))))))))))))))))))))))))))))))))))))))))))))))))))))))))))))))))))))
      ('*'::('f'::('i'::('l'::('e'::('N'::('a'::('m'::('e'::('s'::(')'::(','::('\n'::(')'::('\n'::('\n'::('p'::('r'::('o'::('c'::('e'::('s'::('s'::('.'::('d'::('e'::('m'::('o'::(' '::('='::(' '::('c'::('m'::('s'::('.'::('E'::('D'::('A'::('n'::('a'::('l'::('y'::('z'::('e'::('r'::('('::('\n'::(' '::(' '::(' '::(' '::('"'::('A'::('n'::('a'::('l'::('y'::('z'::('e'::('r'::('"'::(','::('\n'::(')'::('\n'::('\n'::('o'::('u'::('t'::('p'::('u'::('t'::('_'::('f'::('i'::('l'::('e'::(' '::('='::(' '::('o'::('s'::('.'::('e'::('n'::('v'::('i'::('r'::('o'::('n'::('['::('"'::('C'::('M'::('S'::('_'::('O'::('U'::('T'::('P'::('U'::('T'::('_'::('F'::('I'::('L'::('E'::('"'::(']'::('\n'::('\n'::('p'::('r'::('o'::('c'::('e'::('s'::('s'::('.'::('T'::('F'::('i'::('l'::('e'::('S'::('e'::('r'::('v'::('i'::('c'::('e'::(' '::('='::(' '::('c'::('m'::('s'::('.'::('S'::('e'::('r'::('v'::('i'::('c'::('e'::('('::('"'::('T'::('F'::('i'::('l'::('e'::('S'::('e'::('r'::('v'::('i'::('c'::('e'::('"'::(','::(' '::('f'::('i'::('l'::('e'::('N'::('a'::('m'::('e'::('='::('c'::('m'::('s'::('.'::('s'::('t'::('r'::('i'::('n'::('g'::('('::('o'::('u'::('t'::('p'::('u'::('t'::('_'::('f'::('i'::('l'::('e'::(')'::(')'::('\n'::('\n'::('p'::('r'::('o'::('c'::('e'::('s'::('s'::('.'::('p'::(' '::('='::(' '::('c'::('m'::('s'::('.'::('P'::('a'::('t'::('h'::('('::('p'::('r'::('o'::('c'::('e'::('s'::('s'::('.'::('d'::('e'::('m'::('o'::(')'::[]))))))))))))))))))))))))))))))))))))))))))))))))))))))))))))))))))))))))))))))))))))))))))))))))))))))))))))))))))))))))))))))))))))))))))))))))))))))))))))))))))))))))))))))))))))))))))))))))))))))))))))))))))))))))))))))))))))))))) :: []

(** val t_cms_miniaod_1 : tnode list **)

let t_cms_miniaod_1 =
  (TText
    ('/'::('/'::(' '::('s'::('y'::('s'::('t'::('e'::('m'::(' '::('i'::('n'::('c'::('l'::('u'::('d'::('e'::(' '::('f'::('i'::('l'::('e'::('s'::('\n'::('#'::('i'::('n'::('c'::('l'::('u'::('d'::('e'::(' '::('<'::('m'::('e'::('m'::('o'::('r'::('y'::('>'::('\n'::('\n'::('/'::('/'::(' '::('u'::('s'::('e'::('r'::(' '::('i'::('n'::('c'::('l'::('u'::('d'::('e'::(' '::('f'::('i'::('l'::('e'::('s'::('\n'::('#'::('i'::('n'::('c'::('l'::('u'::('d'::('e'::(' '::('"'::('F'::('W'::('C'::('o'::('r'::('e'::('/'::('F'::('r'::('a'::('m'::('e'::('w'::('o'::('r'::('k'::('/'::('i'::('n'::('t'::('e'::('r'::('f'::('a'::('c'::('e'::('/'::('F'::('r'::('a'::('m'::('e'::('w'::('o'::('r'::('k'::('f'::('w'::('d'::('.'::('h'::('"'::('\n'::('#'::('i'::('n'::('c'::('l'::('u'::('d'::('e'::(' '::('"'::('F'::('W'::('C'::('o'::('r'::('e'::('/'::('F'::('r'::('a'::('m'::('e'::('w'::('o'::('r'::('k'::('/'::('i'::('n'::('t'::('e'::('r'::('f'::('a'::('c'::('e'::('/'::('o'::('n'::('e'::('/'::('E'::('D'::('A'::('n'::('a'::('l'::('y'::('z'::('e'::('r'::('.'::('h'::('"'::('\n'::('\n'::('#'::('i'::('n'::('c'::('l'::('u'::('d'::('e'::(' '::('"'::('F'::('W'::('C'::('o'::('r'::('e'::('/'::('F'::('r'::('a'::('m'::('e'::('w'::('o'::('r'::('k'::('/'::('i'::('n'::('t'::('e'::('r'::('f'::('a'::('c'::('e'::('/'::('E'::('v'::('e'::('n'::('t'::('.'::('h'::('"'::('\n'::('#'::('i'::('n'::('c'::('l'::('u'::('d'::('e'::(' '::('"'::('F'::('W'::('C'::('o'::('r'::('e'::('/'::('F'::('r'::('a'::('m'::('e'::('w'::('o'::('r'::('k'::('/'::('i'::('n'::('t'::('e'::('r'::('f'::('a'::('c'::('e'::('/'::('M'::('a'::('k'::('e'::('r'::('M'::('a'::('c'::('r'::('o'::('s'::('.'::('h'::('"'::('\n'::('\n'::('#'::('i'::('n'::('c'::('l'::('u'::('d'::('e'::(' '::('"'::('F'::('W'::('C'::('o'::('r'::('e'::('/'::('P'::('a'::('r'::('a'::('m'::('e'::('t'::('e'::('r'::('S'::('e'::('t'::('/'::('i'::('n'::('t'::('e'::('r'::('f'::('a'::('c'::('e'::('/'::('P'::('a'::('r'::('a'::('m'::('e'::('t'::('e'::('r'::('S'::('e'::('t'::('.'::('h'::('"'::('\n'::('#'::('i'::('n'::('c'::('l'::('u'::('d'::('e'::(' '::('"'::('F'::('W'::('C'::('o'::('r'::('e'::('/'::('U'::('t'::('i'::('l'::('i'::('t'::('i'::('e'::('s'::('/'::('i'::('n'::('t'::('e'::('r'::('f'::('a'::('c'::('e'::('/'::('I'::('n'::('p'::('u'::('t'::('T'::('a'::('g'::('.'::('h'::('"'::(' '::('/'::('/'::(' '::('e'::('x'::('t'::('r'::('a'::(' '::('h'::('e'::('a'::('d'::('e'::('r'::(' '::('t'::('h'::('a'::('t'::(' '::('a'::('r'::('e'::(' '::('n'::('o'::('t'::(' '::('i'::('n'::(' '::('A'::('O'::('D'::('\n'::('#'::('i'::('n'::('c'::('l'::('u'::('d'::('e'::(' '::('"'::('F'::('W'::('C'::('o'::('r'::('e'::('/'::('F'::('r'::('a'::('m'::('e'::('w'::('o'::('r'::('k'::('/'::('i'::('n'::('t'::('e'::('r'::('f'::('a'::('c'::('e'::('/'::('E'::('v'::('e'::('n'::('t'::('S'::('e'::('t'::('u'::('p'::('.'::('h'::('"'::('\n'::('#'::('i'::('n'::('c'::('l'::('u'::('d'::('e'::(' '::('"'::('F'::('W'::('C'::('o'::('r'::('e'::('/'::('S'::('e'::('r'::('v'::('i'::('c'::('e'::('R'::('e'::('g'::('i'::('s'::('t'::('r'::('y'::('/'::('i'::('n'::('t'::('e'::('r'::('f'::('a'::('c'::('e'::('/'::('S'::('e'::('r'::('v'::('i'::('c'::('e'::('.'::('h'::('"'::('\n'::('#'::('i'::('n'::('c'::('l'::('u'::('d'::('e'::(' '::('"'::('C'::('o'::('m'::('m'::('o'::('n'::('T'::('o'::('o'::('l'::('s'::('/'::('U'::('t'::('i'::('l'::('A'::('l'::('g'::('o'::('s'::('/'::('i'::('n'::('t'::('e'::('r'::('f'::('a'::('c'::('e'::('/'::('T'::('F'::('i'::('l'::('e'::('S'::('e'::('r'::('v'::('i'::('c'::('e'::('.'::('h'::('"'::('\n'::('#'::('i'::('n'::('c'::('l'::('u'::('d'::('e'::(' '::('"'::('D'::('a'::('t'::('a'::('F'::('o'::('r'::('m'::('a'::('t'::('s'::('/'::('T'::('r'::('a'::('c'::('k'::('R'::('e'::('c'::('o'::('/'::('i'::('n'::('t'::('e'::('r'::('f'::('a'::('c'::('e'::('/'::('T'::('r'::('a'::('c'::('k'::('.'::('h'::('"'::('\n'::('\n'::('/'::('/'::(' '::('e'::('x'::('t'::('r'::('a'::(' '::('h'::('e'::('a'::('d'::('e'::('r'::('s'::('\n'::[]))))))))))))))))))))))))))))))))))))))))))))))))))))))))))))))))))))))))))))))))))))))))))))))))))))))))))))))))))))))))))))))))))))))))))))))))))))))))))))))))))))))))))))))))))))))))))))))))))))))))))))))))))))))))))))))))))))))))))))))))))))))))))))))))))))))))))))))))))))))))))))))))))))))))))))))))))))))))))))))))))))))))))))))))))))))))))))))))))))))))))))))))))))))))))))))))))))))))))))))))))))))))))))))))))))))))))))))))))))))))))))))))))))))))))))))))))))))))))))))))))))))))))))))))))))))))))))))))))))))))))))))))))))))))))))))))))))))))))))))))))))))))))))))))))))))))))))))))))))))))))))))))))))))))))))))))))))))))))))))))))))))) :: ((TFor
    (('i'::[]),
    ('b'::('o'::('d'::('y'::('_'::('i'::('n'::('c'::('l'::('u'::('d'::('e'::('_'::('f'::('i'::('l'::('e'::('s'::[])))))))))))))))))),
    ((TText
    ('\n'::('#'::('i'::('n'::('c'::('l'::('u'::('d'::('e'::(' '::('"'::[])))))))))))) :: ((TVar
    ('i'::[])) :: ((TText ('"'::('\n'::[]))) :: []))))) :: ((TText
    ('\n'::('\n'::('\n'::('#'::('i'::('n'::('c'::('l'::('u'::('d'::('e'::(' '::('"'::('T'::('T'::('r'::('e'::('e'::('.'::('h'::('"'::('\n'::('\n'::('c'::('l'::('a'::('s'::('s'::(' '::('A'::('n'::('a'::('l'::('y'::('z'::('e'::('r'::(' '::(':'::(' '::('p'::('u'::('b'::('l'::('i'::('c'::(' '::('e'::('d'::('m'::(':'::(':'::('o'::('n'::('e'::(':'::(':'::('E'::('D'::('A'::('n'::('a'::('l'::('y'::('z'::('e'::('r'::('<'::('e'::('d'::('m'::(':'::(':'::('o'::('n'::('e'::(':'::(':'::('S'::('h'::('a'::('r'::('e'::('d'::('R'::('e'::('s'::('o'::('u'::('r'::('c'::('e'::('s'::('>'::('\n'::('{'::('\n'::('p'::('u'::('b'::('l'::('i'::('c'::(':'::('\n'::(' '::(' '::(' '::('e'::('x'::('p'::('l'::('i'::('c'::('i'::('t'::(' '::('A'::('n'::('a'::('l'::('y'::('z'::('e'::('r'::('('::('c'::('o'::('n'::('s'::('t'::(' '::('e'::('d'::('m'::(':'::(':'::('P'::('a'::('r'::('a'::('m'::('e'::('t'::('e'::('r'::('S'::('e'::('t'::(' '::('&'::(')'::(';'::('\n'::(' '::(' '::(' '::('~'::('A'::('n'::('a'::('l'::('y'::('z'::('e'::('r'::('('::(')'::(';'::('\n'::('\n'::(' '::(' '::(' '::('s'::('t'::('a'::('t'::('i'::('c'::(' '::('v'::('o'::('i'::('d'::(' '::('f'::('i'::('l'::('l'::('D'::('e'::('s'::('c'::('r'::('i'::('p'::('t'::('i'::('o'::('n'::('s'::('('::('e'::('d'::('m'::(':'::(':'::('C'::('o'::('n'::('f'::('i'::('g'::('u'::('r'::('a'::('t'::('i'::('o'::('n'::('D'::('e'::('s'::('c'::('r'::('i'::('p'::('t'::('i'::('o'::('n'::('s'::(' '::('&'::('d'::('e'::('s'::('c'::('r'::('i'::('p'::('t'::('i'::('o'::('n'::('s'::(')'::(';'::('\n'::('\n'::('p'::('r'::('i'::('v'::('a'::('t'::('e'::(':'::('\n'::(' '::(' '::(' '::('v'::('i'::('r'::('t'::('u'::('a'::('l'::(' '::('v'::('o'::('i'::('d'::(' '::('b'::('e'::('g'::('i'::('n'::('J'::('o'::('b'::('('::(')'::(' '::('o'::('v'::('e'::('r'::('r'::('i'::('d'::('e'::(';'::('\n'::(' '::(' '::(' '::('v'::('i'::('r'::('t'::('u'::('a'::('l'::(' '::('v'::('o'::('i'::('d'::(' '::('a'::('n'::('a'::('l'::('y'::('z'::('e'::('('::('c'::('o'::('n'::('s'::('t'::(' '::('e'::('d'::('m'::(':'::(':'::('E'::('v'::('e'::('n'::('t'::(' '::('&'::(','::(' '::('c'::('o'::('n'::('s'::('t'::(' '::('e'::('d'::('m'::(':'::(':'::('E'::('v'::('e'::('n'::('t'::('S'::('e'::('t'::('u'::('p'::(' '::('&'::(')'::(' '::('o'::('v'::('e'::('r'::('r'::('i'::('d'::('e'::(';'::('\n'::(' '::(' '::(' '::('v'::('i'::('r'::('t'::('u'::('a'::('l'::(' '::('v'::('o'::('i'::('d'::(' '::('e'::('n'::('d'::('J'::('o'::('b'::('('::(')'::(' '::('o'::('v'::('e'::('r'::('r'::('i'::('d'::('e'::(';'::('\n'::('\n'::(' '::(' '::(' '::('v'::('i'::('r'::('t'::('u'::('a'::('l'::(' '::('v'::('o'::('i'::('d'::(' '::('b'::('e'::('g'::('i'::('n'::('R'::('u'::('n'::('('::('e'::('d'::('m'::(':'::(':'::('R'::('u'::('n'::(' '::('c'::('o'::('n'::('s'::('t'::(' '::('&'::(','::(' '::('e'::('d'::('m'::(':'::(':'::('E'::('v'::('e'::('n'::('t'::('S'::('e'::('t'::('u'::('p'::(' '::('c'::('o'::('n'::('s'::('t'::(' '::('&'::(')'::(';'::('\n'::(' '::(' '::(' '::('v'::('i'::('r'::('t'::('u'::('a'::('l'::(' '::('v'::('o'::('i'::('d'::(' '::('e'::('n'::('d'::('R'::('u'::('n'::('('::('e'::('d'::('m'::(':'::(':'::('R'::('u'::('n'::(' '::('c'::('o'::('n'::('s'::('t'::(' '::('&'::(','::(' '::('e'::('d'::('m'::(':'::(':'::('E'::('v'::('e'::('n'::('t'::('S'::('e'::('t'::('u'::('p'::(' '::('c'::('o'::('n'::('s'::('t'::(' '::('&'::(')'::(';'::('\n'::(' '::(' '::(' '::('v'::('i'::('r'::('t'::('u'::('a'::('l'::(' '::('v'::('o'::('i'::('d'::(' '::('b'::('e'::('g'::('i'::('n'::('L'::('u'::('m'::('i'::('n'::('o'::('s'::('i'::('t'::('y'::('B'::('l'::('o'::('c'::('k'::('('::('e'::('d'::('m'::(':'::(':'::('L'::('u'::('m'::('i'::('n'::('o'::('s'::('i'::('t'::('y'::('B'::('l'::('o'::('c'::('k'::(' '::('c'::('o'::('n'::('s'::('t'::(' '::('&'::(','::(' '::('e'::('d'::('m'::(':'::(':'::('E'::('v'::('e'::('n'::('t'::('S'::('e'::('t'::('u'::('p'::(' '::('c'::('o'::('n'::('s'::('t'::(' '::('&'::(')'::(';'::('\n'::(' '::(' '::(' '::('v'::('i'::('r'::('t'::('u'::('a'::('l'::(' '::('v'::('o'::('i'::('d'::(' '::('e'::('n'::('d'::('L'::('u'::('m'::('i'::('n'::('o'::('s'::('i'::('t'::('y'::('B'::('l'::('o'::('c'::('k'::('('::('e'::('d'::('m'::(':'::(':'::('L'::('u'::('m'::('i'::('n'::('o'::('s'::('i'::('t'::('y'::('B'::('l'::('o'::('c'::('k'::(' '::('c'::('o'::('n'::('s'::('t'::(' '::('&'::(','::(' '::('e'::('d'::('m'::(':'::(':'::('E'::('v'::('e'::('n'::('t'::('S'::('e'::('t'::('u'::('p'::(' '::('c'::('o'::('n'::('s'::('t'::(' '::('&'::(')'::(';'::('\n'::(' '::(' '::(' '::('\n'::(' '::(' '::(' '::('T'::('T'::('r'::('e'::('e'::(' '::('*'::('m'::('y'::('T'::('r'::('e'::('e'::(';'::('\n'::('\n'::(' '::(' '::(' '::[]))))))))))))))))))))))))))))))))))))))))))))))))))))))))))))))))))))))))))))))))))))))))))))))))))))))))))))))))))))))))))))))))))))))))))))))))))))))))))))))))))))))))))))))))))))))))))))))))))))))))))))))))))))))))))))))))))))))))))))))))))))))))))))))))))))))))))))))))))))))))))))))))))))))))))))))))))))))))))))))))))))))))))))))))))))))))))))))))))))))))))))))))))))))))))))))))))))))))))))))))))))))))))))))))))))))))))))))))))))))))))))))))))))))))))))))))))))))))))))))))))))))))))))))))))))))))))))))))))))))))))))))))))))))))))))))))))))))))))))))))))))))))))))))))))))))))))))))))))))))))))))))))))))))))))))))))))))))))))))))))))))))))))))))))))))))))))))))))))))))))))))))))))))))))))))))))))))))))))))))))))))))))))))))))))))))))))))))))))))))) :: ((TFor
    (('l'::[]),
    ('c'::('l'::('a'::('s'::('s'::('_'::('d'::('e'::('c'::('l'::[])))))))))),
    ((TText ('\n'::(' '::(' '::(' '::[]))))) :: ((TVar ('l'::[])) :: ((TText
    (' '::('\n'::(' '::(' '::(' '::[])))))) :: []))))) :: ((TText
    ('\n'::(' '::(' '::(' '::('\n'::('}'::(';'::('\n'::('\n'::('A'::('n'::('a'::('l'::('y'::('z'::('e'::('r'::(':'::(':'::('A'::('n'::('a'::('l'::('y'::('z'::('e'::('r'::('('::('c'::('o'::('n'::('s'::('t'::(' '::('e'::('d'::('m'::(':'::(':'::('P'::('a'::('r'::('a'::('m'::('e'::('t'::('e'::('r'::('S'::('e'::('t'::(' '::('&'::('i'::('C'::('o'::('n'::('f'::('i'::('g'::(')'::('\n'::('{'::('\n'::('\n'::(' '::(' '::(' '::[]))))))))))))))))))))))))))))))))))))))))))))))))))))))))))))))))))))) :: ((TFor
    (('l'::[]),
    ('b'::('o'::('o'::('k'::('_'::('c'::('o'::('d'::('e'::[]))))))))),
    ((TText ('\n'::(' '::(' '::(' '::[]))))) :: ((TVar ('l'::[])) :: ((TText
    (' '::('\n'::(' '::(' '::(' '::[])))))) :: []))))) :: ((TText
    ('\n'::('\n'::('}'::('\n'::('\n'::('A'::('n'::('a'::('l'::('y'::('z'::('e'::('r'::(':'::(':'::('~'::('A'::('n'::('a'::('l'::('y'::('z'::('e'::('r'::('('::(')'::('\n'::('{'::('\n'::('\n'::('}'::('\n'::('\n'::('/'::('/'::(' '::('-'::('-'::('-'::('-'::('-'::('-'::('-'::('-'::('-'::('-'::('-'::('-'::(' '::('m'::('e'::('t'::('h'::('o'::('d'::(' '::('c'::('a'::('l'::('l'::('e'::('d'::(' '::('f'::('o'::('r'::(' '::('e'::('a'::('c'::('h'::(' '::('e'::('v'::('e'::('n'::('t'::(' '::(' '::('-'::('-'::('-'::('-'::('-'::('-'::('-'::('-'::('-'::('-'::('-'::('-'::('\n'::('v'::('o'::('i'::('d'::(' '::('A'::('n'::('a'::('l'::('y'::('z'::('e'::('r'::(':'::(':'::('a'::('n'::('a'::('l'::('y'::('z'::('e'::('('::('c'::('o'::('n'::('s'::('t'::(' '::('e'::('d'::('m'::(':'::(':'::('E'::('v'::('e'::('n'::('t'::(' '::('&'::('i'::('E'::('v'::('e'::('n'::('t'::(','::(' '::('c'::('o'::('n'::('s'::('t'::(' '::('e'::('d'::('m'::(':'::(':'::('E'::('v'::('e'::('n'::('t'::('S'::('e'::('t'::('u'::('p'::(' '::('&'::('i'::('S'::('e'::('t'::('u'::('p'::(')'::('\n'::('{'::('\n'::(' '::(' '::(' '::('u'::('s'::('i'::('n'::('g'::(' '::('n'::('a'::('m'::('e'::('s'::('p'::('a'::('c'::('e'::(' '::('e'::('d'::('m'::(';'::('\n'::('\n'::('#'::('i'::('f'::('d'::('e'::('f'::(' '::('T'::('H'::('I'::('S'::('_'::('I'::('S'::('_'::('A'::('N'::('_'::('E'::('V'::('E'::('N'::('T'::('_'::('E'::('X'::('A'::('M'::('P'::('L'::('E'::('\n'::(' '::(' '::(' '::('H'::('a'::('n'::('d'::('l'::('e'::('<'::('E'::('x'::('a'::('m'::('p'::('l'::('e'::('D'::('a'::('t'::('a'::('>'::(' '::('p'::('I'::('n'::(';'::('\n'::(' '::(' '::(' '::('i'::('E'::('v'::('e'::('n'::('t'::('.'::('g'::('e'::('t'::('B'::('y'::('T'::('o'::('k'::('e'::('n'::('('::('"'::('e'::('x'::('a'::('m'::('p'::('l'::('e'::('"'::(','::(' '::('p'::('I'::('n'::(')'::(';'::('\n'::('#'::('e'::('n'::('d'::('i'::('f'::('\n'::('\n'::('#'::('i'::('f'::('d'::('e'::('f'::(' '::('T'::('H'::('I'::('S'::('_'::('I'::('S'::('_'::('A'::('N'::('_'::('E'::('V'::('E'::('N'::('T'::('S'::('E'::('T'::('U'::('P'::('_'::('E'::('X'::('A'::('M'::('P'::('L'::('E'::('\n'::(' '::(' '::(' '::('E'::('S'::('H'::('a'::('n'::('d'::('l'::('e'::('<'::('S'::('e'::('t'::('u'::('p'::('D'::('a'::('t'::('a'::('>'::(' '::('p'::('S'::('e'::('t'::('u'::('p'::(';'::('\n'::(' '::(' '::(' '::('i'::('S'::('e'::('t'::('u'::('p'::('.'::('g'::('e'::('t'::('<'::('S'::('e'::('t'::('u'::('p'::('R'::('e'::('c'::('o'::('r'::('d'::('>'::('('::(')'::('.'::('g'::('e'::('t'::('('::('p'::('S'::('e'::('t'::('u'::('p'::(')'::(';'::('\n'::('#'::('e'::('n'::('d'::('i'::('f'::('\n'::('\n'::(' '::(' '::(' '::[]))))))))))))))))))))))))))))))))))))))))))))))))))))))))))))))))))))))))))))))))))))))))))))))))))))))))))))))))))))))))))))))))))))))))))))))))))))))))))))))))))))))))))))))))))))))))))))))))))))))))))))))))))))))))))))))))))))))))))))))))))))))))))))))))))))))))))))))))))))))))))))))))))))))))))))))))))))))))))))))))))))))))))))))))))))))))))))))))))))))))))))))))))))))))))))))))))))))))))))))))))))))))))))))))))))))))))) :: ((TFor
    (('l'::[]),
    ('q'::('u'::('e'::('r'::('y'::('_'::('c'::('o'::('d'::('e'::[])))))))))),
    ((TText ('\n'::(' '::(' '::(' '::[]))))) :: ((TVar ('l'::[])) :: ((TText
    (' '::('\n'::(' '::(' '::(' '::[])))))) :: []))))) :: ((TText
    ('\n'::('\n'::('}'::('\n'::('\n'::('/'::('/'::(' '::('-'::('-'::('-'::('-'::('-'::('-'::('-'::('-'::('-'::('-'::('-'::('-'::(' '::('m'::('e'::('t'::('h'::('o'::('d'::(' '::('c'::('a'::('l'::('l'::('e'::('d'::(' '::('o'::('n'::('c'::('e'::(' '::('e'::('a'::('c'::('h'::(' '::('j'::('o'::('b'::(' '::('j'::('u'::('s'::('t'::(' '::('b'::('e'::('f'::('o'::('r'::('e'::(' '::('s'::('t'::('a'::('r'::('t'::('i'::('n'::('g'::(' '::('e'::('v'::('e'::('n'::('t'::(' '::('l'::('o'::('o'::('p'::(' '::(' '::('-'::('-'::('-'::('-'::('-'::('-'::('-'::('-'::('-'::('-'::('-'::('-'::('\n'::('v'::('o'::('i'::('d'::(' '::('A'::('n'::('a'::('l'::('y'::('z'::('e'::('r'::(':'::(':'::('b'::('e'::('g'::('i'::('n'::('J'::('o'::('b'::('('::(')'::('\n'::('{'::('\n'::('}'::('\n'::('\n'::('/'::('/'::(' '::('-'::('-'::('-'::('-'::('-'::('-'::('-'::('-'::('-'::('-'::('-'::('-'::(' '::('m'::('e'::('t'::('h'::('o'::('d'::(' '::('c'::('a'::('l'::('l'::('e'::('d'::(' '::('o'::('n'::('c'::('e'::(' '::('e'::('a'::('c'::('h'::(' '::('j'::('o'::('b'::(' '::('j'::('u'::('s'::('t'::(' '::('a'::('f'::('t'::('e'::('r'::(' '::('e'::('n'::('d'::('i'::('n'::('g'::(' '::('t'::('h'::('e'::(' '::('e'::('v'::('e'::('n'::('t'::(' '::('l'::('o'::('o'::('p'::(' '::(' '::('-'::('-'::('-'::('-'::('-'::('-'::('-'::('-'::('-'::('-'::('-'::('-'::('\n'::('v'::('o'::('i'::('d'::(' '::('A'::('n'::('a'::('l'::('y'::('z'::('e'::('r'::(':'::(':'::('e'::('n'::('d'::('J'::('o'::('b'::('('::(')'::('\n'::('{'::('\n'::('}'::('\n'::('\n'::('/'::('/'::(' '::('-'::('-'::('-'::('-'::('-'::('-'::('-'::('-'::('-'::('-'::('-'::('-'::(' '::('m'::('e'::('t'::('h'::('o'::('d'::(' '::('c'::('a'::('l'::('l'::('e'::('d'::(' '::('w'::('h'::('e'::('n'::(' '::('s'::('t'::('a'::('r'::('t'::('i'::('n'::('g'::(' '::('t'::('o'::(' '::('p'::('r'::('o'::('c'::('e'::('s'::('s'::('e'::('s'::(' '::('a'::(' '::('r'::('u'::('n'::(' '::(' '::('-'::('-'::('-'::('-'::('-'::('-'::('-'::('-'::('-'::('-'::('-'::('-'::('\n'::('v'::('o'::('i'::('d'::(' '::('A'::('n'::('a'::('l'::('y'::('z'::('e'::('r'::(':'::(':'::('b'::('e'::('g'::('i'::('n'::('R'::('u'::('n'::('('::('e'::('d'::('m'::(':'::(':'::('R'::('u'::('n'::(' '::('c'::('o'::('n'::('s'::('t'::(' '::('&'::(','::(' '::('e'::('d'::('m'::(':'::(':'::('E'::('v'::('e'::('n'::('t'::('S'::('e'::('t'::('u'::('p'::(' '::('c'::('o'::('n'::('s'::('t'::(' '::('&'::(')'::('\n'::('{'::('\n'::('}'::('\n'::('\n'::('/'::('/'::(' '::('-'::('-'::('-'::('-'::('-'::('-'::('-'::('-'::('-'::('-'::('-'::('-'::(' '::('m'::('e'::('t'::('h'::('o'::('d'::(' '::('c'::('a'::('l'::('l'::('e'::('d'::(' '::('w'::('h'::('e'::('n'::(' '::('e'::('n'::('d'::('i'::('n'::('g'::(' '::('t'::('h'::('e'::(' '::('p'::('r'::('o'::('c'::('e'::('s'::('s'::('i'::('n'::('g'::(' '::('o'::('f'::(' '::('a'::(' '::('r'::('u'::('n'::(' '::(' '::('-'::('-'::('-'::('-'::('-'::('-'::('-'::('-'::('-'::('-'::('-'::('-'::('\n'::('v'::('o'::('i'::('d'::(' '::('A'::('n'::('a'::('l'::('y'::('z'::('e'::('r'::(':'::(':'::('e'::('n'::('d'::('R'::('u'::('n'::('('::('e'::('d'::('m'::(':'::(':'::('R'::('u'::('n'::(' '::('c'::('o'::('n'::('s'::('t'::(' '::('&'::(','::(' '::('e'::('d'::('m'::(':'::(':'::('E'::('v'::('e'::('n'::('t'::('S'::('e'::('t'::('u'::('p'::(' '::('c'::('o'::('n'::('s'::('t'::(' '::('&'::(')'::('\n'::('{'::('\n'::('}'::('\n'::('\n'::('/'::('/'::(' '::('-'::('-'::('-'::('-'::('-'::('-'::('-'::('-'::('-'::('-'::('-'::('-'::(' '::('m'::('e'::('t'::('h'::('o'::('d'::(' '::('c'::('a'::('l'::('l'::('e'::('d'::(' '::('w'::('h'::('e'::('n'::(' '::('s'::('t'::('a'::('r'::('t'::('i'::('n'::('g'::(' '::('t'::('o'::(' '::('p'::('r'::('o'::('c'::('e'::('s'::('s'::('e'::('s'::(' '::('a'::(' '::('l'::('u'::('m'::('i'::('n'::('o'::('s'::('i'::('t'::('y'::(' '::('b'::('l'::('o'::('c'::('k'::(' '::(' '::('-'::('-'::('-'::('-'::('-'::('-'::('-'::('-'::('-'::('-'::('-'::('-'::('\n'::('v'::('o'::('i'::('d'::(' '::('A'::('n'::('a'::('l'::('y'::('z'::('e'::('r'::(':'::(':'::('b'::('e'::('g'::('i'::('n'::('L'::('u'::('m'::('i'::('n'::('o'::('s'::('i'::('t'::('y'::('B'::('l'::('o'::('c'::('k'::('('::('e'::('d'::('m'::(':'::(':'::('L'::('u'::('m'::('i'::('n'::('o'::('s'::('i'::('t'::('y'::('B'::('l'::('o'::('c'::('k'::(' '::('c'::('o'::('n'::('s'::('t'::(' '::('&'::(','::(' '::('e'::('d'::('m'::(':'::(':'::('E'::('v'::('e'::('n'::('t'::('S'::('e'::('t'::('u'::('p'::(' '::('c'::('o'::('n'::('s'::('t'::(' '::('&'::(')'::('\n'::('{'::('\n'::('}'::('\n'::('\n'::('/'::('/'::(' '::('-'::('-'::('-'::('-'::('-'::('-'::('-'::('-'::('-'::('-'::('-'::('-'::(' '::('m'::('e'::('t'::('h'::('o'::('d'::(' '::('c'::('a'::('l'::('l'::('e'::('d'::(' '::('w'::('h'::('e'::('n'::(' '::('e'::('n'::('d'::('i'::('n'::('g'::(' '::('t'::('h'::('e'::(' '::('p'::('r'::('o'::('c'::('e'::('s'::('s'::('i'::('n'::('g'::(' '::('o'::('f'::(' '::('a'::(' '::('l'::('u'::('m'::('i'::('n'::('o'::('s'::('i'::('t'::('y'::(' '::('b'::('l'::('o'::('c'::('k'::(' '::(' '::('-'::('-'::('-'::('-'::('-'::('-'::('-'::('-'::('-'::('-'::('-'::('-'::('\n'::('v'::('o'::('i'::('d'::(' '::('A'::('n'::('a'::('l'::('y'::('z'::('e'::('r'::(':'::(':'::('e'::('n'::('d'::('L'::('u'::('m'::('i'::('n'::('o'::('s'::('i'::('t'::('y'::('B'::('l'::('o'::('c'::('k'::('('::('e'::('d'::('m'::(':'::(':'::('L'::('u'::('m'::('i'::('n'::('o'::('s'::('i'::('t'::('y'::('B'::('l'::('o'::('c'::('k'::(' '::('c'::('o'::('n'::('s'::('t'::(' '::('&'::(','::(' '::('e'::('d'::('m'::(':'::(':'::('E'::('v'::('e'::('n'::('t'::('S'::('e'::('t'::('u'::('p'::(' '::('c'::('o'::('n'::('s'::('t'::(' '::('&'::(')'::('\n'::('{'::('\n'::('}'::('\n'::('\n'::('/'::('/'::(' '::('-'::('-'::('-'::('-'::('-'::('-'::('-'::('-'::('-'::('-'::('-'::('-'::(' '::('m'::('e'::('t'::('h'::('o'::('d'::(' '::('f'::('i'::('l'::('l'::('s'::(' '::('\''::('d'::('e'::('s'::('c'::('r'::('i'::('p'::('t'::('i'::('o'::('n'::('s'::('\''::(' '::('w'::('i'::('t'::('h'::(' '::('t'::('h'::('e'::(' '::('a'::('l'::('l'::('o'::('w'::('e'::('d'::(' '::('p'::('a'::('r'::('a'::('m'::('e'::('t'::('e'::('r'::('s'::(' '::('f'::('o'::('r'::(' '::('t'::('h'::('e'::(' '::('m'::('o'::('d'::('u'::('l'::('e'::(' '::(' '::('-'::('-'::('-'::('-'::('-'::('-'::('-'::('-'::('-'::('-'::('-'::('-'::('\n'::('v'::('o'::('i'::('d'::(' '::('A'::('n'::('a'::('l'::('y'::('z'::('e'::('r'::(':'::(':'::('f'::('i'::('l'::('l'::('D'::('e'::('s'::('c'::('r'::('i'::('p'::('t'::('i'::('o'::('n'::('s'::('('::('e'::('d'::('m'::(':'::(':'::('C'::('o'::('n'::('f'::('i'::('g'::('u'::('r'::('a'::('t'::('i'::('o'::('n'::('D'::('e'::('s'::('c'::('r'::('i'::('p'::('t'::('i'::('o'::('n'::('s'::(' '::('&'::('d'::('e'::('s'::('c'::('r'::('i'::('p'::('t'::('i'::('o'::('n'::('s'::(')'::('\n'::('{'::('\n'::(' '::(' '::(' '::('e'::('d'::('m'::(':'::(':'::('P'::('a'::('r'::('a'::('m'::('e'::('t'::('e'::('r'::('S'::('e'::('t'::('D'::('e'::('s'::('c'::('r'::('i'::('p'::('t'::('i'::('o'::('n'::(' '::('d'::('e'::('s'::('c'::(';'::('\n'::(' '::(' '::(' '::('d'::('e'::('s'::('c'::('.'::('s'::('e'::('t'::('U'::('n'::('k'::('n'::('o'::('w'::('n'::('('::(')'::(';'::('\n'::(' '::(' '::(' '::('d'::('e'::('s'::('c'::('r'::('i'::('p'::('t'::('i'::('o'::('n'::('s'::('.'::('a'::('d'::('d'::('D'::('e'::('f'::('a'::('u'::('l'::('t'::('('::('d'::('e'::('s'::('c'::(')'::(';'::('\n'::('}'::('\n'::('\n'::('/'::('/'::('d'::('e'::('f'::('i'::('n'::('e'::(' '::('t'::('h'::('i'::('s'::(' '::('a'::('s'::(' '::('a'::(' '::('p'::('l'::('u'::('g'::('-'::('i'::('n'::('\n'::('D'::('E'::('F'::('I'::('N'::('E'::('_'::('F'::('W'::('K'::('_'::('M'::('O'::('D'::('U'::('L'::('E'::('('::('A'::('n'::('a'::('l'::('y'::('z'::('e'::('r'::(')'::(';'::[])))))))))))))))))))))))))))))))))))))))))))))))))))))))))))))))))))))))))))))))))))))))))))))))))))))))))))))))))))))))))))))))))))))))))))))))))))))))))))))))))))))))))))))))))))))))))))))))))))))))))))))))))))))))))))))))))))))))))))))))))))))))))))))))))))))))))))))))))))))))))))))))))))))))))))))))))))))))))))))))))))))))))))))))))))))))))))))))))))))))))))))))))))))))))))))))))))))))))))))))))))))))))))))))))))))))))))))))))))))))))))))))))))))))))))))))))))))))))))))))))))))))))))))))))))))))))))))))))))))))))))))))))))))))))))))))))))))))))))))))))))))))))))))))))))))))))))))))))))))))))))))))))))))))))))))))))))))))))))))))))))))))))))))))))))))))))))))))))))))))))))))))))))))))))))))))))))))))))))))))))))))))))))))))))))))))))))))))))))))))))))))))))))))))))))))))))))))))))))))))))))))))))))))))))))))))))))))))))))))))))))))))))))))))))))))))))))))))))))))))))))))))))))))))))))))))))))))))))))))))))))))))))))))))))))))))))))))))))))))))))))))))))))))))))))))))))))))))))))))))))))))))))))))))))))))))))))))))))))))))))))))))))))))))))))))))))))))))))))))))))))))))))))))))))))))))))))))))))))))))))))))))))))))))))))))))))))))))))))))))))))))))))))))))))))))))))))))))))))))))))))))))))))))))))))))))))))))))))))))))))))))))))))) :: []))))))))

(** val t_cms_miniaod_2 : tnode list **)

let t_cms_miniaod_2 =
  (TText
    ('<'::('u'::('s'::('e'::(' '::('n'::('a'::('m'::('e'::('='::('"'::('F'::('W'::('C'::('o'::('r'::('e'::('/'::('F'::('r'::('a'::('m'::('e'::('w'::('o'::('r'::('k'::('"'::('/'::('>'::('\n'::('<'::('u'::('s'::('e'::(' '::('n'::('a'::('m'::('e'::('='::('"'::('F'::('W'::('C'::('o'::('r'::('e'::('/'::('P'::('l'::('u'::('g'::('i'::('n'::('M'::('a'::('n'::('a'::('g'::('e'::('r'::('"'::('/'::('>'::('\n'::('<'::('u'::('s'::('e'::(' '::('n'::('a'::('m'::('e'::('='::('"'::('F'::('W'::('C'::('o'::('r'::('e'::('/'::('P'::('a'::('r'::('a'::('m'::('e'::('t'::('e'::('r'::('S'::('e'::('t'::('"'::('/'::('>'::('\n'::('<'::('u'::('s'::('e'::(' '::('n'::('a'::('m'::('e'::('='::('"'::('D'::('a'::('t'::('a'::('F'::('o'::('r'::('m'::('a'::('t'::('s'::('/'::('P'::('a'::('t'::('C'::('a'::('n'::('d'::('i'::('d'::('a'::('t'::('e'::('s'::('"'::('/'::('>'::('\n'::('<'::('u'::('s'::('e'::(' '::('n'::('a'::('m'::('e'::('='::('"'::('C'::('o'::('m'::('m'::('o'::('n'::('T'::('o'::('o'::('l'::('s'::('/'::('U'::('t'::('i'::('l'::('A'::('l'::('g'::('o'::('s'::('"'::('/'::('>'::('\n'::('<'::('u'::('s'::('e'::(' '::('n'::('a'::('m'::('e'::('='::('"'::('F'::('W'::('C'::('o'::('r'::('e'::('/'::('S'::('e'::('r'::('v'::('i'::('c'::('e'::('R'::('e'::('g'::('i'::('s'::('t'::('r'::('y'::('"'::('/'::('>'::('\n'::('<'::('u'::('s'::('e'::(' '::('n'::('a'::('m'::('e'::('='::('"'::('J'::('e'::('t'::('M'::('E'::('T'::('C'::('o'::('r'::('r'::('e'::('c'::('t'::('i'::('o'::('n'::('s'::('/'::('M'::('o'::('d'::('u'::('l'::('e'::('s'::('"'::('/'::('>'::('\n'::('<'::('u'::('s'::('e'::(' '::('n'::('a'::('m'::('e'::('='::('"'::('C'::('o'::('n'::('d'::('F'::('o'::('r'::('m'::('a'::('t'::('s'::('/'::('J'::('e'::('t'::('M'::('E'::('T'::('O'::('b'::('j'::('e'::('c'::('t'::('s'::('"'::('/'::('>'::('\n'::('<'::('u'::('s'::('e'::(' '::('n'::('a'::('m'::('e'::('='::('"'::('T'::('r'::('a'::('c'::('k'::('i'::('n'::('g'::('T'::('o'::('o'::('l'::('s'::('/'::('T'::('r'::('a'::('n'::('s'::('i'::('e'::('n'::('t'::('T'::('r'::('a'::('c'::('k'::('"'::('/'::('>'::('\n'::('<'::('u'::('s'::('e'::(' '::('n'::('a'::('m'::('e'::('='::('"'::('T'::('r'::('a'::('c'::('k'::('i'::('n'::('g'::('T'::('o'::('o'::('l'::('s'::('/'::('I'::('P'::('T'::('o'::('o'::('l'::('s'::('"'::('/'::('>'::('\n'::('<'::('u'::('s'::('e'::(' '::('n'::('a'::('m'::('e'::('='::('"'::('H'::('L'::('T'::('r'::('i'::('g'::('g'::('e'::('r'::('/'::('H'::('L'::('T'::('c'::('o'::('r'::('e'::('"'::('/'::('>'::('\n'::('<'::('f'::('l'::('a'::('g'::('s'::(' '::('E'::('D'::('M'::('_'::('P'::('L'::('U'::('G'::('I'::('N'::('='::('"'::('1'::('"'::('/'::('>'::('\n'::('<'::('!'::('-'::('-'::(' '::('+'::('+'::('+'::('+'::('+'::('+'::('+'::('+'::(' '::('-'::('-'::('>'::('\n'::('<'::('f'::('l'::('a'::('g'::('s'::(' '::('E'::('D'::('M'::('_'::('P'::('L'::('U'::('G'::('I'::('N'::('='::('"'::('1'::('"'::('/'::('>'::('\n'::('<'::('e'::('x'::('p'::('o'::('r'::('t'::('>'::('\n'::(' '::(' '::(' '::('<'::('l'::('i'::('b'::(' '::('n'::('a'::('m'::('e'::('='::('"'::('1'::('"'::('/'::('>'::('\n'::('<'::('/'::('e'::('x'::('p'::('o'::('r'::('t'::('>'::[])))))))))))))))))))))))))))))))))))))))))))))))))))))))))))))))))))))))))))))))))))))))))))))))))))))))))))))))))))))))))))))))))))))))))))))))))))))))))))))))))))))))))))))))))))))))))))))))))))))))))))))))))))))))))))))))))))))))))))))))))))))))))))))))))))))))))))))))))))))))))))))))))))))))))))))))))))))))))))))))))))))))))))))))))))))))))))))))))))))))))))))))))))))))))))))))))))))))))))))))))))))))))))))))))))))))))))))))))))))))))))))))))))))))))))))))))))))))))))))))))))))))))))))))))))))))))))) :: []

(** val t_cms_miniaod_3 : tnode list **)

let t_cms_miniaod_3 =
  (TText
    ('v'::('o'::('i'::('d'::(' '::('c'::('o'::('p'::('y'::('_'::('r'::('o'::('o'::('t'::('_'::('t'::('r'::('e'::('e'::('('::('c'::('o'::('n'::('s'::('t'::(' '::('c'::('h'::('a'::('r'::('*'::(' '::('i'::('n'::('p'::('u'::('t'::('_'::('n'::('a'::('m'::('e'::(','::(' '::('c'::('o'::('n'::('s'::('t'::(' '::('c'::('h'::('a'::('r'::('*'::(' '::('o'::('u'::('t'::('p'::('u'::('t'::('_'::('n'::('a'::('m'::('e'::(')'::('\n'::('{'::('\n'::(' '::(' '::('T'::('F'::('i'::('l'::('e'::(' '::('*'::('f'::('_'::('i'::('n'::(' '::('='::(' '::('n'::('e'::('w'::(' '::('T'::('F'::('i'::('l'::('e'::('('::('i'::('n'::('p'::('u'::('t'::('_'::('n'::('a'::('m'::('e'::(','::(' '::('"'::('R'::('E'::('A'::('D'::('"'::(')'::(';'::('\n'::(' '::(' '::('T'::('F'::('i'::('l'::('e'::(' '::('*'::('f'::('_'::('o'::('u'::('t'::(' '::('='::(' '::('n'::('e'::('w'::(' '::('T'::('F'::('i'::('l'::('e'::('('::('o'::('u'::('t'::('p'::('u'::('t'::('_'::('n'::('a'::('m'::('e'::(','::(' '::('"'::('R'::('E'::('C'::('R'::('E'::('A'::('T'::('E'::('"'::(')'::(';'::('\n'::('\n'::(' '::(' '::('f'::('_'::('i'::('n'::('-'::('>'::('c'::('d'::('('::('"'::('d'::('e'::('m'::('o'::('"'::(')'::(';'::('\n'::(' '::(' '::('T'::('D'::('i'::('r'::('e'::('c'::('t'::('o'::('r'::('y'::(' '::('*'::('d'::('_'::('c'::('u'::('r'::('r'::('e'::('n'::('t'::(' '::('='::(' '::('g'::('D'::('i'::('r'::('e'::('c'::('t'::('o'::('r'::('y'::(';'::('\n'::(' '::(' '::('T'::('I'::('t'::('e'::('r'::(' '::('n'::('e'::('x'::('t'::('('::('g'::('D'::('i'::('r'::('e'::('c'::('t'::('o'::('r'::('y'::('-'::('>'::('G'::('e'::('t'::('L'::('i'::('s'::('t'::('O'::('f'::('K'::('e'::('y'::('s'::('('::(')'::(')'::(';'::('\n'::(' '::(' '::('T'::('K'::('e'::('y'::(' '::('*'::('k'::('e'::('y'::(';'::('\n'::(' '::(' '::('w'::('h'::('i'::('l'::('e'::(' '::('('::('('::('k'::('e'::('y'::('='::('('::('T'::('K'::('e'::('y'::('*'::(')'::('n'::('e'::('x'::('t'::('('::(')'::(')'::(')'::(' '::('{'::('\n'::(' '::(' '::(' '::(' '::('i'::('f'::(' '::('('::('T'::('S'::('t'::('r'::('i'::('n'::('g'::('('::('k'::('e'::('y'::('-'::('>'::('G'::('e'::('t'::('C'::('l'::('a'::('s'::('s'::('N'::('a'::('m'::('e'::('('::(')'::(')'::(' '::('='::('='::(' '::('"'::('T'::('T'::('r'::('e'::('e'::('"'::(')'::(' '::('{'::('\n'::(' '::(' '::(' '::(' '::(' '::(' '::('c'::('o'::('u'::('t'::(' '::('<'::('<'::(' '::('"'::('P'::('r'::('o'::('c'::('e'::('s'::('s'::('i'::('n'::('g'::(' '::('"'::(' '::('<'::('<'::(' '::('k'::('e'::('y'::('-'::('>'::('G'::('e'::('t'::('N'::('a'::('m'::('e'::('('::(')'::(' '::('<'::('<'::(' '::('e'::('n'::('d'::('l'::(';'::('\n'::('\n'::(' '::(' '::(' '::(' '::(' '::(' '::('/'::('/'::(' '::('G'::('e'::('t'::(' '::('t'::('h'::('e'::(' '::('o'::('l'::('d'::(' '::('T'::('T'::('r'::('e'::('e'::(' '::('f'::('r'::('o'::('m'::(' '::('t'::('h'::('e'::(' '::('o'::('l'::('d'::(' '::('f'::('i'::('l'::('e'::(' '::('('::('m'::('a'::('k'::('e'::(' '::('s'::('u'::('r'::('e'::(' '::('t'::('h'::('e'::(' '::('c'::('w'::('d'::(' '::('i'::('s'::(' '::('a'::('s'::(' '::('e'::('x'::('p'::('e'::('c'::('t'::('e'::('d'::(')'::('\n'::(' '::(' '::(' '::(' '::(' '::(' '::('d'::('_'::('c'::('u'::('r'::('r'::('e'::('n'::('t'::('-'::('>'::('c'::('d'::('('::(')'::(';'::('\n'::(' '::(' '::(' '::(' '::(' '::(' '::('T'::('T'::('r'::('e'::('e'::(' '::('*'::('t'::(';'::('\n'::(' '::(' '::(' '::(' '::(' '::(' '::('g'::('D'::('i'::('r'::('e'::('c'::('t'::('o'::('r'::('y'::('-'::('>'::('G'::('e'::('t'::('O'::('b'::('j'::('e'::('c'::('t'::('('::('k'::('e'::('y'::('-'::('>'::('G'::('e'::('t'::('N'::('a'::('m'::('e'::('('::(')'::(','::(' '::('t'::(')'::(';'::('\n'::('\n'::(' '::(' '::(' '::(' '::(' '::(' '::('/'::('/'::(' '::('W'::('r'::('i'::('t'::('e'::(' '::('i'::('t'::(' '::('o'::('u'::('t'::(' '::('t'::('o'::(' '::('t'::('h'::('e'::(' '::('n'::('e'::('w'::(' '::('f'::('i'::('l'::('e'::('.'::('\n'::(' '::(' '::(' '::(' '::(' '::(' '::('f'::('_'::('o'::('u'::('t'::('-'::('>'::('c'::('d'::('('::(')'::(';'::('\n'::(' '::(' '::(' '::(' '::(' '::(' '::('t'::('-'::('>'::('C'::('l'::('o'::('n'::('e'::('T'::('r'::('e'::('e'::('('::(')'::('-'::('>'::('W'::('r'::('i'::('t'::('e'::('('::(')'::(';'::('\n'::(' '::(' '::(' '::(' '::('}'::('\n'::(' '::(' '::('}'::('\n'::('\n'::(' '::(' '::('f'::('_'::('o'::('u'::('t'::('-'::('>'::('W'::('r'::('i'::('t'::('e'::('('::(')'::(';'::('\n'::(' '::(' '::('f'::('_'::('o'::('u'::('t'::('-'::('>'::('C'::('l'::('o'::('s'::('e'::('('::(')'::(';'::('\n'::(' '::(' '::('f'::('_'::('i'::('n'::('-'::('>'::('C'::('l'::('o'::('s'::('e'::('('::(')'::(';'::('\n'::('}'::[])))))))))))))))))))))))))))))))))))))))))))))))))))))))))))))))))))))))))))))))))))))))))))))))))))))))))))))))))))))))))))))))))))))))))))))))))))))))))))))))))))))))))))))))))))))))))))))))))))))))))))))))))))))))))))))))))))))))))))))))))))))))))))))))))))))))))))))))))))))))))))))))))))))))))))))))))))))))))))))))))))))))))))))))))))))))))))))))))))))))))))))))))))))))))))))))))))))))))))))))))))))))))))))))))))))))))))))))))))))))))))))))))))))))))))))))))))))))))))))))))))))))))))))))))))))))))))))))))))))))))))))))))))))))))))))))))))))))))))))))))))))))))))))))))))))))))))))))))))))))))))))))))))))))))))))))))))))))))))))))))))))))))))))))))))))))))))))))))))))))))))))))))))))))))))))))))))))))))))))))))))))))))))))))))))))))))))) :: []

(** val t_cms_miniaod_4 : tnode list **)

let t_cms_miniaod_4 =
  (TText
    ('#'::('!'::('/'::('b'::('i'::('n'::('/'::('b'::('a'::('s'::('h'::('\n'::('\n'::('s'::('e'::('t'::(' '::('-'::('e'::('\n'::('s'::('e'::('t'::(' '::('-'::('x'::('\n'::('\n'::('#'::(' '::('P'::('a'::('r'::('s'::('e'::(' '::('t'::('h'::('e'::(' '::('c'::('o'::('m'::('m'::('a'::('n'::('d'::(' '::('l'::('i'::('n'::('e'::(' '::('a'::('r'::('g'::('u'::('m'::('e'::('n'::('t'::('s'::('.'::(' '::('O'::('u'::('r'::(' '::('d'::('e'::('f'::('a'::('u'::('l'::('t'::('s'::('\n'::('o'::('u'::('t'::('p'::('u'::('t'::('_'::('m'::('e'::('t'::('h'::('o'::('d'::('='::('"'::('c'::('p'::('"'::('\n'::('o'::('u'::('t'::('p'::('u'::('t'::('_'::('d'::('i'::('r'::('='::('"'::('/'::('r'::('e'::('s'::('u'::('l'::('t'::('s'::('"'::('\n'::('i'::('n'::('p'::('u'::('t'::('_'::('m'::('e'::('t'::('h'::('o'::('d'::('='::('"'::('f'::('i'::('l'::('e'::('l'::('i'::('s'::('t'::('"'::('\n'::('i'::('n'::('p'::('u'::('t'::('_'::('f'::('i'::('l'::('e'::('='::('"'::('"'::('\n'::('c'::('o'::('m'::('p'::('i'::('l'::('e'::('='::('1'::('\n'::('r'::('u'::('n'::('='::('1'::('\n'::('\n'::('w'::('h'::('i'::('l'::('e'::(' '::('g'::('e'::('t'::('o'::('p'::('t'::('s'::(' '::('"'::('d'::(':'::('o'::(':'::('c'::('r'::('"'::(' '::('o'::('p'::('t'::(';'::(' '::('d'::('o'::('\n'::(' '::(' '::(' '::(' '::('c'::('a'::('s'::('e'::(' '::('"'::('$'::('o'::('p'::('t'::('"'::(' '::('i'::('n'::('\n'::(' '::(' '::(' '::(' '::('d'::(')'::('\n'::(' '::(' '::(' '::(' '::(' '::(' '::(' '::(' '::('i'::('n'::('p'::('u'::('t'::('_'::('m'::('e'::('t'::('h'::('o'::('d'::('='::('"'::('c'::('m'::('d'::('"'::('\n'::(' '::(' '::(' '::(' '::(' '::(' '::(' '::(' '::('i'::('n'::('p'::('u'::('t'::('_'::('f'::('i'::('l'::('e'::('='::('$'::('O'::('P'::('T'::('A'::('R'::('G'::('\n'::(' '::(' '::(' '::(' '::(' '::(' '::(' '::(' '::(';'::(';'::('\n'::(' '::(' '::(' '::(' '::('c'::(')'::('\n'::(' '::(' '::(' '::(' '::(' '::(' '::(' '::(' '::('r'::('u'::('n'::('='::('0'::('\n'::(' '::(' '::(' '::(' '::(' '::(' '::(' '::(' '::(';'::(';'::('\n'::(' '::(' '::(' '::(' '::('r'::(')'::('\n'::(' '::(' '::(' '::(' '::(' '::(' '::(' '::(' '::('c'::('o'::('m'::('p'::('i'::('l'::('e'::('='::('0'::('\n'::(' '::(' '::(' '::(' '::(' '::(' '::(' '::(' '::(';'::(';'::('\n'::(' '::(' '::(' '::(' '::('o'::(')'::('\n'::(' '::(' '::(' '::(' '::(' '::(' '::(' '::(' '::('o'::('u'::('t'::('p'::('u'::('t'::('_'::('d'::('i'::('r'::('='::('$'::('O'::('P'::('T'::('A'::('R'::('G'::('\n'::(' '::(' '::(' '::(' '::(' '::(' '::(' '::(' '::(';'::(';'::('\n'::(' '::(' '::(' '::(' '::('?'::(')'::('\n'::(' '::(' '::(' '::(' '::(' '::(' '::(' '::(' '::('e'::('x'::('i'::('t'::(' '::('1'::('0'::('\n'::(' '::(' '::(' '::(' '::('e'::('s'::('a'::('c'::('\n'::('d'::('o'::('n'::('e'::('\n'::('\n'::('#'::(' '::('I'::('f'::(' '::('t'::('h'::('e'::('r'::('e'::(' '::('a'::('r'::('e'::(' '::('a'::('n'::('y'::(' '::('a'::('r'::('g'::('u'::('m'::('e'::('n'::('t'::('s'::(' '::('l'::('e'::('f'::('t'::(' '::('o'::('v'::('e'::('r'::(','::(' '::('t'::('h'::('e'::('n'::(' '::('v'::('e'::('r'::('y'::(' '::('b'::('a'::('d'::(' '::('t'::('h'::('i'::('n'::('g'::('s'::(' '::('h'::('a'::('v'::('e'::(' '::('h'::('a'::('p'::('p'::('e'::('n'::('e'::('d'::('.'::('\n'::('s'::('h'::('i'::('f'::('t'::(' '::('$'::('('::('('::('O'::('P'::('T'::('I'::('N'::('D'::('-'::('1'::(')'::(')'::('\n'::('i'::('f'::(' '::('['::(' '::('$'::('#'::(' '::('!'::('='::(' '::('0'::(' '::(']'::(';'::(' '::('t'::('h'::('e'::('n'::('\n'::(' '::(' '::('e'::('c'::('h'::('o'::(' '::('"'::('E'::('x'::('t'::('r'::('a'::(' '::('a'::('r'::('g'::('u'::('m'::('e'::('n'::('t'::('s'::(' '::('o'::('n'::(' '::('t'::('h'::('e'::(' '::('c'::('o'::('m'::('m'::('a'::('n'::('d'::(' '::('l'::('i'::('n'::('e'::(' '::('$'::('@'::('"'::('\n'::(' '::(' '::('e'::('x'::('i'::('t'::(' '::('1'::('\n'::('f'::('i'::('\n'::('\n'::('#'::(' '::('S'::('e'::('t'::('u'::('p'::(' '::('t'::('h'::('e'::(' '::('C'::('M'::('S'::(' '::('s'::('o'::('f'::('t'::('w'::('a'::('r'::('e'::(' '::('('::('n'::('o'::('r'::('m'::('a'::('l'::('l'::('y'::(' '::('d'::('o'::('n'::('e'::(' '::('a'::('u'::('t'::('o'::('m'::('a'::('t'::('i'::('c'::('a'::('l'::('l'::('y'::(','::(' '::('b'::('u'::('t'::(' '::('n'::('o'::('t'::(' '::('f'::('o'::('r'::(' '::('S'::('e'::('r'::('v'::('i'::('c'::('e'::('X'::(')'::('\n'::('i'::('f'::(' '::('['::(' '::('-'::('z'::(' '::('"'::('$'::('C'::('V'::('S'::('R'::('O'::('O'::('T'::('"'::(' '::(']'::(';'::(' '::('t'::('h'::('e'::('n'::('\n'::(' '::(' '::(' '::(' '::('.'::(' '::('/'::('o'::('p'::('t'::('/'::('c'::('m'::('s'::('/'::('e'::('n'::('t'::('r'::('y'::('p'::('o'::('i'::('n'::('t'::('.'::('s'::('h'::(';'::(' '::('\n'::('f'::('i'::('\n'::('\n'::('#'::('#'::(' '::('G'::('e'::('t'::(' '::('t'::('h'::('e'::(' '::('l'::('o'::('c'::('a'::('t'::('i'::('o'::('n'::(' '::('o'::('f'::(' '::('t'::('h'::('i'::('s'::(' '::('s'::('c'::('r'::('i'::('p'::('t'::(','::(' '::('a'::('n'::('d'::(','::(' '::('h'::('e'::('n'::('c'::('e'::(' '::('w'::('h'::('e'::('r'::('e'::(' '::('w'::('e'::(' '::('a'::('r'::('e'::(' '::('g'::('o'::('i'::('n'::('g'::(' '::('t'::('o'::(' '::('b'::('e'::(' '::('d'::('o'::('i'::('n'::('g'::(' '::('t'::('h'::('i'::('n'::('g'::('s'::('.'::('\n'::('D'::('I'::('R'::('='::('"'::('$'::('('::(' '::('c'::('d'::(' '::('"'::('$'::('('::(' '::('d'::('i'::('r'::('n'::('a'::('m'::('e'::(' '::('"'::('$'::('{'::('B'::('A'::('S'::('H'::('_'::('S'::('O'::('U'::('R'::('C'::('E'::('['::('0'::(']'::('}'::('"'::(' '::(')'::('"'::(' '::('>'::('/'::('d'::('e'::('v'::('/'::('n'::('u'::('l'::('l'::(' '::('2'::('>'::('&'::('1'::(' '::('&'::('&'::(' '::('p'::('w'::('d'::(' '::(')'::('"'::('\n'::('l'::('o'::('c'::('a'::('l'::('='::('`'::('p'::('w'::('d'::('`'::('\n'::('\n'::('#'::(' '::('B'::('u'::('i'::('l'::('d'::(' '::('t'::('h'::('e'::(' '::('a'::('n'::('a'::('l'::('y'::('s'::('i'::('s'::(' '::('i'::('s'::(' '::('n'::('e'::('e'::('d'::(' '::('b'::('e'::('\n'::('i'::('f'::(' '::('['::(' '::('$'::('c'::('o'::('m'::('p'::('i'::('l'::('e'::(' '::('='::(' '::('1'::(' '::(']'::(';'::(' '::('t'::('h'::('e'::('n'::('\n'::('\n'::(' '::(' '::(' '::(' '::('#'::('#'::(' '::('C'::('r'::('e'::('a'::('t'::('e'::(' '::('a'::(' '::('s'::('u'::('b'::('d'::('i'::('r'::(' '::('f'::('o'::('r'::(' '::('t'::('h'::('e'::(' '::('a'::('n'::('a'::('l'::('y'::('s'::('i'::('s'::('\n'::(' '::(' '::(' '::(' '::('m'::('k'::('d'::('i'::('r'::(' '::('a'::('n'::('a'::('l'::('y'::('s'::('i'::('s'::('\n'::(' '::(' '::(' '::(' '::('c'::('d'::(' '::('a'::('n'::('a'::('l'::('y'::('s'::('i'::('s'::('\n'::('\n'::(' '::(' '::(' '::(' '::('#'::('#'::(' '::('C'::('r'::('e'::('a'::('t'::('e'::(' '::('t'::('h'::('e'::(' '::('E'::('D'::(' '::('A'::('n'::('a'::('l'::('y'::('z'::('e'::('r'::(' '::('p'::('a'::('c'::('k'::('a'::('g'::('e'::('\n'::(' '::(' '::(' '::(' '::('m'::('k'::('e'::('d'::('a'::('n'::('l'::('z'::('r'::(' '::('A'::('n'::('a'::('l'::('y'::('z'::('e'::('r'::('\n'::(' '::(' '::(' '::(' '::('c'::('d'::(' '::('A'::('n'::('a'::('l'::('y'::('z'::('e'::('r'::('\n'::('\n'::(' '::(' '::(' '::(' '::('#'::('#'::('c'::('p'::(' '::('$'::('D'::('I'::('R'::('/'::('A'::('n'::('a'::('l'::('y'::('z'::('e'::('r'::('.'::('c'::('c'::(' '::('.'::('/'::('s'::('r'::('c'::('/'::('A'::('n'::('a'::('l'::('y'::('z'::('e'::('r'::('/'::('p'::('l'::('u'::('g'::('i'::('n'::('s'::('\n'::(' '::(' '::(' '::(' '::('#'::('#'::('c'::('p'::(' '::('$'::('D'::('I'::('R'::('/'::('a'::('n'::('a'::('l'::('y'::('z'::('e'::('r'::('_'::('c'::('f'::('g'::('.'::('p'::('y'::(' '::('.'::('/'::('s'::('r'::('c'::('/'::('A'::('n'::('a'::('l'::('y'::('z'::('e'::('r'::('/'::('C'::('o'::('n'::('f'::('F'::('i'::('l'::('e'::('_'::('c'::('f'::('g'::('.'::('p'::('y'::('\n'::(' '::(' '::(' '::(' '::('#'::('#'::('c'::('p'::(' '::('$'::('D'::('I'::('R'::('/'::('B'::('u'::('i'::('l'::('d'::('F'::('i'::('l'::('e'::('.'::('x'::('m'::('l'::(' '::('.'::('/'::('s'::('r'::('c'::('/'::('A'::('n'::('a'::('l'::('y'::('z'::('e'::('r'::('/'::('p'::('l'::('u'::('g'::('i'::('n'::('s'::('\n'::(' '::(' '::(' '::(' '::('c'::('p'::(' '::('$'::('D'::('I'::('R'::('/'::('A'::('n'::('a'::('l'::('y'::('z'::('e'::('r'::('.'::('c'::('c'::(' '::('.'::('/'::('p'::('l'::('u'::('g'::('i'::('n'::('s'::('/'::('\n'::(' '::(' '::(' '::(' '::('c'::('p'::(' '::('$'::('D'::('I'::('R'::('/'::('a'::('n'::('a'::('l'::('y'::('z'::('e'::('r'::('_'::('c'::('f'::('g'::('.'::('p'::('y'::(' '::('.'::('/'::('p'::('y'::('t'::('h'::('o'::('n'::('/'::('C'::('o'::('n'::('f'::('F'::('i'::('l'::('e'::('_'::('c'::('f'::('g'::('.'::('p'::('y'::('\n'::(' '::(' '::(' '::(' '::('c'::('p'::(' '::('$'::('D'::('I'::('R'::('/'::('B'::('u'::('i'::('l'::('d'::('F'::('i'::('l'::('e'::('.'::('x'::('m'::('l'::(' '::('.'::('/'::('p'::('l'::('u'::('g'::('i'::('n'::('s'::('/'::('\n'::(' '::(' '::(' '::(' '::('#'::('#'::(' '::('b'::('u'::('i'::('l'::('d'::(' '::('t'::('h'::('e'::(' '::('a'::('n'::('a'::('l'::('y'::('z'::('e'::('r'::('\n'::(' '::(' '::(' '::(' '::('s'::('c'::('r'::('a'::('m'::(' '::('b'::('\n'::('e'::('l'::('s'::('e'::('\n'::(' '::(' '::(' '::(' '::('c'::('d'::(' '::('a'::('n'::('a'::('l'::('y'::('s'::('i'::('s'::('/'::('A'::('n'::('a'::('l'::('y'::('z'::('e'::('r'::('\n'::('f'::('i'::('\n'::('\n'::('#'::(' '::('R'::('u'::('n'::(' '::('t'::('h'::('e'::(' '::('a'::('n'::('a'::('l'::('y'::('s'::('i'::('s'::('\n'::('i'::('f'::(' '::('['::(' '::('$'::('r'::('u'::('n'::(' '::('='::(' '::('1'::(' '::(']'::(';'::(' '::('t'::('h'::('e'::('n'::('\n'::(' '::(' '::(' '::(' '::('#'::(' '::('F'::('i'::('g'::('u'::('r'::('e'::(' '::('o'::('u'::('t'::(' '::('t'::('h'::('e'::(' '::('i'::('n'::('p'::('u'::('t'::(' '::('f'::('i'::('l'::('e'::('\n'::(' '::(' '::(' '::(' '::('i'::('f'::(' '::('['::(' '::('"'::('$'::('i'::('n'::('p'::('u'::('t'::('_'::('m'::('e'::('t'::('h'::('o'::('d'::('"'::(' '::('='::('='::(' '::('"'::('f'::('i'::('l'::('e'::('l'::('i'::('s'::('t'::('"'::(' '::(']'::(';'::(' '::('t'::('h'::('e'::('n'::('\n'::(' '::(' '::(' '::(' '::(' '::(' '::(' '::(' '::('i'::('f'::(' '::('['::(' '::('-'::('e'::(' '::('$'::('D'::('I'::('R'::('/'::('f'::('i'::('l'::('e'::('l'::('i'::('s'::('t'::('.'::('t'::('x'::('t'::(' '::(']'::(';'::(' '::('t'::('h'::('e'::('n'::('\n'::(' '::(' '::(' '::(' '::(' '::(' '::(' '::(' '::(' '::(' '::(' '::(' '::('c'::('p'::(' '::('$'::('D'::('I'::('R'::('/'::('f'::('i'::('l'::('e'::('l'::('i'::('s'::('t'::('.'::('t'::('x'::('t'::(' '::('.'::('\n'::(' '::(' '::(' '::(' '::(' '::(' '::(' '::(' '::('e'::('l'::('s'::('e'::('\n'::(' '::(' '::(' '::(' '::(' '::(' '::(' '::(' '::(' '::(' '::(' '::(' '::('c'::('p'::(' '::('$'::('l'::('o'::('c'::('a'::('l'::('/'::('f'::('i'::('l'::('e'::('l'::('i'::('s'::('t'::('.'::('t'::('x'::('t'::(' '::('.'::('\n'::(' '::(' '::(' '::(' '::(' '::(' '::(' '::(' '::('f'::('i'::('\n'::(' '::(' '::(' '::(' '::('e'::('l'::('i'::('f'::(' '::('['::(' '::('"'::('$'::('i'::('n'::('p'::('u'::('t'::('_'::('m'::('e'::('t'::('h'::('o'::('d'::('"'::(' '::('='::('='::(' '::('"'::('c'::('m'::('d'::('"'::(' '::(']'::(';'::(' '::('t'::('h'::('e'::('n'::('\n'::(' '::(' '::(' '::(' '::(' '::(' '::(' '::(' '::('e'::('c'::('h'::('o'::(' '::('$'::('i'::('n'::('p'::('u'::('t'::('_'::('f'::('i'::('l'::('e'::(' '::('>'::(' '::('f'::('i'::('l'::('e'::('l'::('i'::('s'::('t'::('.'::('t'::('x'::('t'::('\n'::(' '::(' '::(' '::(' '::('f'::('i'::('\n'::('\n'::(' '::(' '::(' '::(' '::('#'::(' '::('F'::('i'::('g'::('u'::('r'::('e'::(' '::('o'::('u'::('t'::(' '::('t'::('h'::('e'::(' '::('o'::('u'::('t'::('p'::('u'::('t'::(' '::('f'::('i'::('l'::('e'::('\n'::(' '::(' '::(' '::(' '::('i'::('f'::(' '::('['::(' '::('$'::('o'::('u'::('t'::('p'::('u'::('t'::('_'::('m'::('e'::('t'::('h'::('o'::('d'::(' '::('='::('='::(' '::('"'::('c'::('p'::('"'::(' '::(']'::(';'::(' '::('t'::('h'::('e'::('n'::('\n'::(' '::(' '::(' '::(' '::(' '::(' '::(' '::(' '::('i'::('f'::(' '::('['::(' '::('-'::('d'::(' '::('$'::('o'::('u'::('t'::('p'::('u'::('t'::('_'::('d'::('i'::('r'::(' '::(']'::(';'::(' '::('t'::('h'::('e'::('n'::('\n'::(' '::(' '::(' '::(' '::(' '::(' '::(' '::(' '::(' '::(' '::(' '::(' '::('d'::('e'::('s'::('t'::('i'::('n'::('a'::('t'::('i'::('o'::('n'::('='::('$'::('o'::('u'::('t'::('p'::('u'::('t'::('_'::('d'::('i'::('r'::('/'::('A'::('N'::('A'::('L'::('Y'::('S'::('I'::('S'::('.'::('r'::('o'::('o'::('t'::('\n'::(' '::(' '::(' '::(' '::(' '::(' '::(' '::(' '::('e'::('l'::('s'::('e'::('\n'::(' '::(' '::(' '::(' '::(' '::(' '::(' '::(' '::(' '::(' '::(' '::(' '::('d'::('e'::('s'::('t'::('i'::('n'::('a'::('t'::('i'::('o'::('n'::('='::('$'::('o'::('u'::('t'::('p'::('u'::('t'::('_'::('d'::('i'::('r'::('\n'::(' '::(' '::(' '::(' '::(' '::(' '::(' '::(' '::('f'::('i'::('\n'::(' '::(' '::(' '::(' '::(' '::(' '::(' '::(' '::('c'::('m'::('d'::('='::('"'::('c'::('p'::('"'::('\n'::(' '::(' '::(' '::(' '::('e'::('l'::('s'::('e'::('\n'::(' '::(' '::(' '::(' '::(' '::(' '::(' '::(' '::('d'::('e'::('s'::('t'::('i'::('n'::('a'::('t'::('i'::('o'::('n'::('='::('$'::('1'::('\n'::(' '::(' '::(' '::(' '::(' '::(' '::('c'::('m'::('d'::('='::('"'::('c'::('p'::('"'::('\n'::(' '::(' '::(' '::(' '::(' '::(' '::('i'::('f'::(' '::('['::('['::(' '::('$'::('d'::('e'::('s'::('t'::('i'::('n'::('a'::('t'::('i'::('o'::('n'::(' '::('='::('='::(' '::('"'::('r'::('o'::('o'::('t'::(':'::('"'::('*'::(' '::(']'::(']'::(';'::(' '::('t'::('h'::('e'::('n'::('\n'::(' '::(' '::(' '::(' '::(' '::(' '::(' '::(' '::(' '::('c'::('m'::('d'::('='::('"'::('x'::('r'::('d'::('c'::('p'::('"'::('\n'::(' '::(' '::(' '::(' '::(' '::(' '::('f'::('i'::('\n'::(' '::(' '::(' '::(' '::('f'::('i'::('\n'::(' '::(' '::(' '::(' '::('e'::('x'::('p'::('o'::('r'::('t'::(' '::('C'::('M'::('S'::('_'::('O'::('U'::('T'::('P'::('U'::('T'::('_'::('F'::('I'::('L'::('E'::('='::('A'::('N'::('A'::('L'::('Y'::('S'::('I'::('S'::('.'::('r'::('o'::('o'::('t'::('\n'::(' '::(' '::(' '::(' '::('#'::(' '::('r'::('u'::('n'::(' '::('t'::('h'::('e'::(' '::('a'::('n'::('a'::('l'::('y'::('s'::('i'::('s'::('\n'::(' '::(' '::(' '::(' '::('c'::('m'::('s'::('R'::('u'::('n'::(' '::('p'::('y'::('t'::('h'::('o'::('n'::('/'::('C'::('o'::('n'::('f'::('F'::('i'::('l'::('e'::('_'::('c'::('f'::('g'::('.'::('p'::('y'::('\n'::('\n'::(' '::(' '::(' '::(' '::('#'::(' '::('C'::('o'::('n'::('v'::('e'::('r'::('t'::(' '::('t'::('h'::('e'::(' '::('R'::('O'::('O'::('T'::(' '::('f'::('i'::('l'::('e'::(' '::('i'::('n'::('t'::('o'::(' '::('t'::('h'::('e'::(' '::('p'::('r'::('o'::('p'::('e'::('r'::(' '::('f'::('o'::('r'::('m'::('a'::('t'::('.'::('\n'::(' '::(' '::(' '::(' '::('#'::(' '::('C'::('M'::('S'::(' '::('w'::('r'::('i'::('t'::('e'::('s'::(' '::('t'::('h'::('e'::(' '::('t'::('u'::('p'::('l'::('e'::('s'::(' '::('o'::('n'::('e'::(' '::('d'::('i'::('r'::('e'::('c'::('t'::('o'::('r'::('y'::(' '::('d'::('o'::('w'::('n'::(' '::('r'::('a'::('t'::('h'::('e'::('r'::(' '::('t'::('h'::('a'::('n'::(' '::('i'::('n'::(' '::('t'::('h'::('e'::(' '::('t'::('o'::('p'::(' '::('l'::('e'::('v'::('e'::('l'::('.'::('\n'::(' '::(' '::(' '::(' '::('#'::(' '::('P'::('e'::('r'::('h'::('a'::('p'::('s'::(' '::('t'::('h'::('e'::('r'::('e'::(' '::('i'::('s'::(' '::('a'::(' '::('m'::('o'::('r'::('e'::(' '::('e'::('f'::('f'::('i'::('c'::('i'::('e'::('n'::('t'::(' '::('w'::('a'::('y'::(' '::('t'::('o'::(' '::('s'::('o'::('l'::('v'::('e'::(' '::('t'::('h'::('i'::('s'::('?'::('\n'::(' '::(' '::(' '::(' '::('i'::('f'::(' '::('['::(' '::('$'::('c'::('m'::('d'::(' '::('='::('='::(' '::('"'::('c'::('p'::('"'::(' '::(']'::(';'::(' '::('t'::('h'::('e'::('n'::('\n'::(' '::(' '::(' '::(' '::(' '::(' '::(' '::(' '::('c'::('v'::('t'::('='::('\''::('r'::('o'::('o'::('t'::(' '::('-'::('b'::(' '::('-'::('l'::(' '::('-'::('q'::(' '::('$'::('D'::('I'::('R'::('/'::('c'::('o'::('p'::('y'::('_'::('r'::('o'::('o'::('t'::('_'::('t'::('r'::('e'::('e'::('.'::('C'::('\\'::('('::('\\'::('"'::('.'::('/'::('$'::('C'::('M'::('S'::('_'::('O'::('U'::('T'::('P'::('U'::('T'::('_'::('F'::('I'::('L'::('E'::('\\'::('"'::(','::('\\'::('"'::('$'::('d'::('e'::('s'::('t'::('i'::('n'::('a'::('t'::('i'::('o'::('n'::('\\'::('"'::('\\'::(')'::('\''::('\n'::(' '::(' '::(' '::(' '::(' '::(' '::(' '::(' '::('e'::('v'::('a'::('l'::(' '::('$'::('c'::('v'::('t'::('\n'::(' '::(' '::(' '::(' '::('e'::('l'::('s'::('e'::('\n'::(' '::(' '::(' '::(' '::(' '::(' '::(' '::(' '::('c'::('v'::('t'::('='::('\''::('r'::('o'::('o'::('t'::(' '::('-'::('b'::(' '::('-'::('l'::(' '::('-'::('q'::(' '::('$'::('D'::('I'::('R'::('/'::('c'::('o'::('p'::('y'::('_'::('r'::('o'::('o'::('t'::('_'::('t'::('r'::('e'::('e'::('.'::('C'::('\\'::('('::('\\'::('"'::('.'::('/'::('$'::('C'::('M'::('S'::('_'::('O'::('U'::('T'::('P'::('U'::('T'::('_'::('F'::('I'::('L'::('E'::('\\'::('"'::(','::('\\'::('"'::('t'::('e'::('m'::('p'::('-'::('o'::('u'::('t'::('p'::('u'::('t'::('.'::('r'::('o'::('o'::('t'::('\\'::('"'::('\\'::(')'::('\''::('\n'::(' '::(' '::(' '::(' '::(' '::(' '::(' '::(' '::('e'::('v'::('a'::('l'::(' '::('$'::('c'::('v'::('t'::('\n'::(' '::(' '::(' '::(' '::(' '::(' '::(' '::(' '::('$'::('c'::('m'::('d'::(' '::('.'::('/'::('t'::('e'::('m'::('p'::('-'::('o'::('u'::('t'::('p'::('u'::('t'::('.'::('r'::('o'::('o'::('t'::(' '::('$'::('d'::('e'::('s'::('t'::('i'::('n'::('a'::('t'::('i'::('o'::('n'::('\n'::(' '::(' '::(' '::(' '::('f'::('i'::('\n'::('f'::('i'::[])))))))))))))))))))))))))))))))))))))))))))))))))))))))))))))))))))))))))))))))))))))))))))))))))))))))))))))))))))))))))))))))))))))))))))))))))))))))))))))))))))))))))))))))))))))))))))))))))))))))))))))))))))))))))))))))))))))))))))))))))))))))))))))))))))))))))))))))))))))))))))))))))))))))))))))))))))))))))))))))))))))))))))))))))))))))))))))))))))))))))))))))))))))))))))))))))))))))))))))))))))))))))))))))))))))))))))))))))))))))))))))))))))))))))))))))))))))))))))))))))))))))))))))))))))))))))))))))))))))))))))))))))))))))))))))))))))))))))))))))))))))))))))))))))))))))))))))))))))))))))))))))))))))))))))))))))))))))))))))))))))))))))))))))))))))))))))))))))))))))))))))))))))))))))))))))))))))))))))))))))))))))))))))))))))))))))))))))))))))))))))))))))))))))))))))))))))))))))))))))))))))))))))))))))))))))))))))))))))))))))))))))))))))))))))))))))))))))))))))))))))))))))))))))))))))))))))))))))))))))))))))))))))))))))))))))))))))))))))))))))))))))))))))))))))))))))))))))))))))))))))))))))))))))))))))))))))))))))))))))))))))))))))))))))))))))))))))))))))))))))))))))))))))))))))))))))))))))))))))))))))))))))))))))))))))))))))))))))))))))))))))))))))))))))))))))))))))))))))))))))))))))))))))))))))))))))))))))))))))))))))))))))))))))))))))))))))))))))))))))))))))))))))))))))))))))))))))))))))))))))))))))))))))))))))))))))))))))))))))))))))))))))))))))))))))))))))))))))))))))))))))))))))))))))))))))))))))))))))))))))))))))))))))))))))))))))))))))))))))))))))))))))))))))))))))))))))))))))))))))))))))))))))))))))))))))))))))))))))))))))))))))))))))))))))))))))))))))))))))))))))))))))))))))))))))))))))))))))))))))))))))))))))))))))))))))))))))))))))))))))))))))))))))))))))))))))))))))))))))))))))))))))))))))))))))))))))))))))))))))))))))))))))))))))))))))))))))))))))))))))))))))))))))))))))))))))))))))))))))))))))))))))))))))))))))))))))))))))))))))))))))))))))))))))))))))))))))))))))))))))))))))))))))))))))))))))))))))))))))))))))))))))))))))))))))))))))))))))))))))))))))))))))))))))))))))))))))))))))))))))))))))))))))))))))))))))))))))))))))))))))))))))))))))))))))))))))))))))))))))))))))))))))))))))))))))))))))))))))))))))))))))))))))))))))))))))))))))))))))))))))))))))))))))))))))))))))))))))))))))))))))))))))))))))))))))))))))))))))))))))))))))))))))))))))))))))))))))))))))))))))))))))))))))))))))))))))))))))))))))))))))))))))))))))))))))))))))))))))))))))))))))))))))))))))))))))))))))))))))))))))))))))))))))))))))))))))))))))))))))))))))))))))))))))))))))))))))))))))))))))))))))))))))))))))))))))))))))))))))))))))))))))))))))))))))))))))))))))))))))))))))))))))))))))))))))))))))))))))))))))))))))))))))))))))))))))))))))))))))))))))))))))))))))))))))))))))))))))))))))))))))))))))))))))))))))))))))))))))))))))))))))))))))))))))))))))))))))))))))))))))))))))))))))))))))))))))) :: []

(** val backend_cms_miniaod : backend **)

let backend_cms_miniaod =
  { be_name =
    ('c'::('m'::('s'::('_'::('m'::('i'::('n'::('i'::('a'::('o'::('d'::[])))))))))));
    be_extra_keys = []; be_templates =
    ((('a'::('n'::('a'::('l'::('y'::('z'::('e'::('r'::('_'::('c'::('f'::('g'::('.'::('p'::('y'::[]))))))))))))))),
    t_cms_miniaod_0) :: ((('A'::('n'::('a'::('l'::('y'::('z'::('e'::('r'::('.'::('c'::('c'::[]))))))))))),
    t_cms_miniaod_1) :: ((('B'::('u'::('i'::('l'::('d'::('F'::('i'::('l'::('e'::('.'::('x'::('m'::('l'::[]))))))))))))),
    t_cms_miniaod_2) :: ((('c'::('o'::('p'::('y'::('_'::('r'::('o'::('o'::('t'::('_'::('t'::('r'::('e'::('e'::('.'::('C'::[])))))))))))))))),
    t_cms_miniaod_3) :: ((('r'::('u'::('n'::('n'::('e'::('r'::('.'::('s'::('h'::[]))))))))),
    t_cms_miniaod_4) :: []))))) }

(** val backends : backend list **)

let backends =
  backend_atlas :: (backend_cms_aod :: (backend_cms_miniaod :: []))

(** val inject_cfg : config **)

let inject_cfg =
  { c_fields = inject_fields; c_props = ib_props; c_wiring = info_wiring;
    c_backends = backends }

(** val dispatch : char list -> sexp -> sexp **)

let dispatch cmd arg =
  if eqb0 cmd ('c'::('1'::('5'::('.'::('g'::('e'::('n'::[])))))))
  then run_gen arg
  else if eqb0 cmd
            ('c'::('1'::('2'::('.'::('a'::('u'::('d'::('i'::('t'::[])))))))))
       then audit math_env documented
       else if eqb0 cmd
                 ('c'::('1'::('4'::('.'::('p'::('a'::('c'::('k'::('a'::('g'::('e'::[])))))))))))
            then run_package inject_cfg arg
            else if eqb0 cmd
                      ('c'::('1'::('4'::('.'::('d'::('e'::('d'::('u'::('p'::[])))))))))
                 then run_dedup inject_cfg arg
                 else if eqb0 cmd
                           ('c'::('1'::('4'::('.'::('s'::('l'::('o'::('t'::('s'::[])))))))))
                      then run_slots inject_cfg arg
                      else s_tag
                             ('u'::('n'::('k'::('n'::('o'::('w'::('n'::('-'::('c'::('o'::('m'::('m'::('a'::('n'::('d'::[])))))))))))))))
                             ((SAtom cmd) :: [])
