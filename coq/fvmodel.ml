
(** val negb : bool -> bool **)

let negb = function
| true -> false
| false -> true

type nat =
| O
| S of nat

(** val option_map : ('a1 -> 'a2) -> 'a1 option -> 'a2 option **)

let option_map f = function
| Some a -> Some (f a)
| None -> None

(** val fst : ('a1 * 'a2) -> 'a1 **)

let fst = function
| (x, _) -> x

(** val snd : ('a1 * 'a2) -> 'a2 **)

let snd = function
| (_, y) -> y

(** val length : 'a1 list -> nat **)

let rec length = function
| [] -> O
| _ :: l' -> S (length l')

(** val app : 'a1 list -> 'a1 list -> 'a1 list **)

let rec app l m =
  match l with
  | [] -> m
  | a :: l1 -> a :: (app l1 m)

type comparison =
| Eq
| Lt
| Gt

module Coq__1 = struct
 (** val add : nat -> nat -> nat **)
 let rec add n0 m =
   match n0 with
   | O -> m
   | S p -> S (add p m)
end
include Coq__1

(** val sub : nat -> nat -> nat **)

let rec sub n0 m =
  match n0 with
  | O -> n0
  | S k -> (match m with
            | O -> n0
            | S l -> sub k l)

type positive =
| XI of positive
| XO of positive
| XH

type n =
| N0
| Npos of positive

type z =
| Z0
| Zpos of positive
| Zneg of positive

module Nat =
 struct
  (** val eqb : nat -> nat -> bool **)

  let rec eqb n0 m =
    match n0 with
    | O -> (match m with
            | O -> true
            | S _ -> false)
    | S n' -> (match m with
               | O -> false
               | S m' -> eqb n' m')

  (** val leb : nat -> nat -> bool **)

  let rec leb n0 m =
    match n0 with
    | O -> true
    | S n' -> (match m with
               | O -> false
               | S m' -> leb n' m')

  (** val ltb : nat -> nat -> bool **)

  let ltb n0 m =
    leb (S n0) m
 end

module Pos =
 struct
  type mask =
  | IsNul
  | IsPos of positive
  | IsNeg
 end

module Coq_Pos =
 struct
  (** val succ : positive -> positive **)

  let rec succ = function
  | XI p -> XO (succ p)
  | XO p -> XI p
  | XH -> XO XH

  (** val add : positive -> positive -> positive **)

  let rec add x y =
    match x with
    | XI p ->
      (match y with
       | XI q -> XO (add_carry p q)
       | XO q -> XI (add p q)
       | XH -> XO (succ p))
    | XO p ->
      (match y with
       | XI q -> XI (add p q)
       | XO q -> XO (add p q)
       | XH -> XI p)
    | XH -> (match y with
             | XI q -> XO (succ q)
             | XO q -> XI q
             | XH -> XO XH)

  (** val add_carry : positive -> positive -> positive **)

  and add_carry x y =
    match x with
    | XI p ->
      (match y with
       | XI q -> XI (add_carry p q)
       | XO q -> XO (add_carry p q)
       | XH -> XI (succ p))
    | XO p ->
      (match y with
       | XI q -> XO (add_carry p q)
       | XO q -> XI (add p q)
       | XH -> XO (succ p))
    | XH ->
      (match y with
       | XI q -> XI (succ q)
       | XO q -> XO (succ q)
       | XH -> XI XH)

  (** val pred_double : positive -> positive **)

  let rec pred_double = function
  | XI p -> XI (XO p)
  | XO p -> XI (pred_double p)
  | XH -> XH

  type mask = Pos.mask =
  | IsNul
  | IsPos of positive
  | IsNeg

  (** val succ_double_mask : mask -> mask **)

  let succ_double_mask = function
  | IsNul -> IsPos XH
  | IsPos p -> IsPos (XI p)
  | IsNeg -> IsNeg

  (** val double_mask : mask -> mask **)

  let double_mask = function
  | IsPos p -> IsPos (XO p)
  | x0 -> x0

  (** val double_pred_mask : positive -> mask **)

  let double_pred_mask = function
  | XI p -> IsPos (XO (XO p))
  | XO p -> IsPos (XO (pred_double p))
  | XH -> IsNul

  (** val sub_mask : positive -> positive -> mask **)

  let rec sub_mask x y =
    match x with
    | XI p ->
      (match y with
       | XI q -> double_mask (sub_mask p q)
       | XO q -> succ_double_mask (sub_mask p q)
       | XH -> IsPos (XO p))
    | XO p ->
      (match y with
       | XI q -> succ_double_mask (sub_mask_carry p q)
       | XO q -> double_mask (sub_mask p q)
       | XH -> IsPos (pred_double p))
    | XH -> (match y with
             | XH -> IsNul
             | _ -> IsNeg)

  (** val sub_mask_carry : positive -> positive -> mask **)

  and sub_mask_carry x y =
    match x with
    | XI p ->
      (match y with
       | XI q -> succ_double_mask (sub_mask_carry p q)
       | XO q -> double_mask (sub_mask p q)
       | XH -> IsPos (pred_double p))
    | XO p ->
      (match y with
       | XI q -> double_mask (sub_mask_carry p q)
       | XO q -> succ_double_mask (sub_mask_carry p q)
       | XH -> double_pred_mask p)
    | XH -> IsNeg

  (** val mul : positive -> positive -> positive **)

  let rec mul x y =
    match x with
    | XI p -> add y (XO (mul p y))
    | XO p -> XO (mul p y)
    | XH -> y

  (** val size : positive -> positive **)

  let rec size = function
  | XI p0 -> succ (size p0)
  | XO p0 -> succ (size p0)
  | XH -> XH

  (** val compare_cont : comparison -> positive -> positive -> comparison **)

  let rec compare_cont r x y =
    match x with
    | XI p ->
      (match y with
       | XI q -> compare_cont r p q
       | XO q -> compare_cont Gt p q
       | XH -> Gt)
    | XO p ->
      (match y with
       | XI q -> compare_cont Lt p q
       | XO q -> compare_cont r p q
       | XH -> Gt)
    | XH -> (match y with
             | XH -> r
             | _ -> Lt)

  (** val compare : positive -> positive -> comparison **)

  let compare =
    compare_cont Eq

  (** val eqb : positive -> positive -> bool **)

  let rec eqb p q =
    match p with
    | XI p0 -> (match q with
                | XI q0 -> eqb p0 q0
                | _ -> false)
    | XO p0 -> (match q with
                | XO q0 -> eqb p0 q0
                | _ -> false)
    | XH -> (match q with
             | XH -> true
             | _ -> false)

  (** val iter_op : ('a1 -> 'a1 -> 'a1) -> positive -> 'a1 -> 'a1 **)

  let rec iter_op op p a =
    match p with
    | XI p0 -> op a (iter_op op p0 (op a a))
    | XO p0 -> iter_op op p0 (op a a)
    | XH -> a

  (** val to_nat : positive -> nat **)

  let to_nat x =
    iter_op Coq__1.add x (S O)

  (** val of_succ_nat : nat -> positive **)

  let rec of_succ_nat = function
  | O -> XH
  | S x -> succ (of_succ_nat x)
 end

module N =
 struct
  (** val succ_double : n -> n **)

  let succ_double = function
  | N0 -> Npos XH
  | Npos p -> Npos (XI p)

  (** val double : n -> n **)

  let double = function
  | N0 -> N0
  | Npos p -> Npos (XO p)

  (** val add : n -> n -> n **)

  let add n0 m =
    match n0 with
    | N0 -> m
    | Npos p -> (match m with
                 | N0 -> n0
                 | Npos q -> Npos (Coq_Pos.add p q))

  (** val sub : n -> n -> n **)

  let sub n0 m =
    match n0 with
    | N0 -> N0
    | Npos n' ->
      (match m with
       | N0 -> n0
       | Npos m' ->
         (match Coq_Pos.sub_mask n' m' with
          | Coq_Pos.IsPos p -> Npos p
          | _ -> N0))

  (** val mul : n -> n -> n **)

  let mul n0 m =
    match n0 with
    | N0 -> N0
    | Npos p -> (match m with
                 | N0 -> N0
                 | Npos q -> Npos (Coq_Pos.mul p q))

  (** val compare : n -> n -> comparison **)

  let compare n0 m =
    match n0 with
    | N0 -> (match m with
             | N0 -> Eq
             | Npos _ -> Lt)
    | Npos n' -> (match m with
                  | N0 -> Gt
                  | Npos m' -> Coq_Pos.compare n' m')

  (** val eqb : n -> n -> bool **)

  let eqb n0 m =
    match n0 with
    | N0 -> (match m with
             | N0 -> true
             | Npos _ -> false)
    | Npos p -> (match m with
                 | N0 -> false
                 | Npos q -> Coq_Pos.eqb p q)

  (** val leb : n -> n -> bool **)

  let leb x y =
    match compare x y with
    | Gt -> false
    | _ -> true

  (** val size : n -> n **)

  let size = function
  | N0 -> N0
  | Npos p -> Npos (Coq_Pos.size p)

  (** val pos_div_eucl : positive -> n -> n * n **)

  let rec pos_div_eucl a b =
    match a with
    | XI a' ->
      let (q, r) = pos_div_eucl a' b in
      let r' = succ_double r in
      if leb b r' then ((succ_double q), (sub r' b)) else ((double q), r')
    | XO a' ->
      let (q, r) = pos_div_eucl a' b in
      let r' = double r in
      if leb b r' then ((succ_double q), (sub r' b)) else ((double q), r')
    | XH ->
      (match b with
       | N0 -> (N0, (Npos XH))
       | Npos p -> (match p with
                    | XH -> ((Npos XH), N0)
                    | _ -> (N0, (Npos XH))))

  (** val div_eucl : n -> n -> n * n **)

  let div_eucl a b =
    match a with
    | N0 -> (N0, N0)
    | Npos na -> (match b with
                  | N0 -> (N0, a)
                  | Npos _ -> pos_div_eucl na b)

  (** val div : n -> n -> n **)

  let div a b =
    fst (div_eucl a b)

  (** val modulo : n -> n -> n **)

  let modulo a b =
    snd (div_eucl a b)

  (** val to_nat : n -> nat **)

  let to_nat = function
  | N0 -> O
  | Npos p -> Coq_Pos.to_nat p

  (** val of_nat : nat -> n **)

  let of_nat = function
  | O -> N0
  | S n' -> Npos (Coq_Pos.of_succ_nat n')
 end

(** val zero : char **)

let zero = '\000'

(** val one : char **)

let one = '\001'

(** val shift : bool -> char -> char **)

let shift = fun b c -> Char.chr (((Char.code c) lsl 1) land 255 + if b then 1 else 0)

(** val ascii_of_pos : positive -> char **)

let ascii_of_pos =
  let rec loop n0 p =
    match n0 with
    | O -> zero
    | S n' ->
      (match p with
       | XI p' -> shift true (loop n' p')
       | XO p' -> shift false (loop n' p')
       | XH -> one)
  in loop (S (S (S (S (S (S (S (S O))))))))

(** val ascii_of_N : n -> char **)

let ascii_of_N = function
| N0 -> zero
| Npos p -> ascii_of_pos p

(** val ascii_of_nat : nat -> char **)

let ascii_of_nat a =
  ascii_of_N (N.of_nat a)

(** val n_of_digits : bool list -> n **)

let rec n_of_digits = function
| [] -> N0
| b :: l' ->
  N.add (if b then Npos XH else N0) (N.mul (Npos (XO XH)) (n_of_digits l'))

(** val n_of_ascii : char -> n **)

let n_of_ascii a =
  (* If this appears, you're using Ascii internals. Please don't *)
 (fun f c ->
  let n = Char.code c in
  let h i = (n land (1 lsl i)) <> 0 in
  f (h 0) (h 1) (h 2) (h 3) (h 4) (h 5) (h 6) (h 7))
    (fun a0 a1 a2 a3 a4 a5 a6 a7 ->
    n_of_digits
      (a0 :: (a1 :: (a2 :: (a3 :: (a4 :: (a5 :: (a6 :: (a7 :: [])))))))))
    a

(** val nat_of_ascii : char -> nat **)

let nat_of_ascii a =
  N.to_nat (n_of_ascii a)

(** val hd : 'a1 -> 'a1 list -> 'a1 **)

let hd default = function
| [] -> default
| x :: _ -> x

(** val nth : nat -> 'a1 list -> 'a1 -> 'a1 **)

let rec nth n0 l default =
  match n0 with
  | O -> (match l with
          | [] -> default
          | x :: _ -> x)
  | S m -> (match l with
            | [] -> default
            | _ :: t -> nth m t default)

(** val last : 'a1 list -> 'a1 -> 'a1 **)

let rec last l d =
  match l with
  | [] -> d
  | a :: l0 -> (match l0 with
                | [] -> a
                | _ :: _ -> last l0 d)

(** val removelast : 'a1 list -> 'a1 list **)

let rec removelast = function
| [] -> []
| a :: l0 -> (match l0 with
              | [] -> []
              | _ :: _ -> a :: (removelast l0))

(** val map : ('a1 -> 'a2) -> 'a1 list -> 'a2 list **)

let rec map f = function
| [] -> []
| a :: t -> (f a) :: (map f t)

(** val flat_map : ('a1 -> 'a2 list) -> 'a1 list -> 'a2 list **)

let rec flat_map f = function
| [] -> []
| x :: t -> app (f x) (flat_map f t)

(** val fold_left : ('a1 -> 'a2 -> 'a1) -> 'a2 list -> 'a1 -> 'a1 **)

let rec fold_left f l a0 =
  match l with
  | [] -> a0
  | b :: t -> fold_left f t (f a0 b)

(** val existsb : ('a1 -> bool) -> 'a1 list -> bool **)

let rec existsb f = function
| [] -> false
| a :: l0 -> (||) (f a) (existsb f l0)

(** val forallb : ('a1 -> bool) -> 'a1 list -> bool **)

let rec forallb f = function
| [] -> true
| a :: l0 -> (&&) (f a) (forallb f l0)

(** val skipn : nat -> 'a1 list -> 'a1 list **)

let rec skipn n0 l =
  match n0 with
  | O -> l
  | S n1 -> (match l with
             | [] -> []
             | _ :: l0 -> skipn n1 l0)

module Z =
 struct
  (** val opp : z -> z **)

  let opp = function
  | Z0 -> Z0
  | Zpos x0 -> Zneg x0
  | Zneg x0 -> Zpos x0

  (** val to_nat : z -> nat **)

  let to_nat = function
  | Zpos p -> Coq_Pos.to_nat p
  | _ -> O

  (** val of_N : n -> z **)

  let of_N = function
  | N0 -> Z0
  | Npos p -> Zpos p
 end

(** val eqb0 : char list -> char list -> bool **)

let rec eqb0 s1 s2 =
  match s1 with
  | [] -> (match s2 with
           | [] -> true
           | _::_ -> false)
  | c1::s1' ->
    (match s2 with
     | [] -> false
     | c2::s2' -> if (=) c1 c2 then eqb0 s1' s2' else false)

(** val append : char list -> char list -> char list **)

let rec append s1 s2 =
  match s1 with
  | [] -> s2
  | c::s1' -> c::(append s1' s2)

type err =
| ErrValue
| ErrRuntime
| ErrAssert
| ErrNotImpl
| ErrKey
| ErrType
| ErrAttr
| ErrIndex
| ErrTranslation
| ErrOutOfFuel
| ErrOther of char list

type 'a result =
| OK of 'a
| Error of err

(** val err_name : err -> char list **)

let err_name = function
| ErrValue ->
  'V'::('a'::('l'::('u'::('e'::('E'::('r'::('r'::('o'::('r'::[])))))))))
| ErrRuntime ->
  'R'::('u'::('n'::('t'::('i'::('m'::('e'::('E'::('r'::('r'::('o'::('r'::[])))))))))))
| ErrAssert ->
  'A'::('s'::('s'::('e'::('r'::('t'::('i'::('o'::('n'::('E'::('r'::('r'::('o'::('r'::[])))))))))))))
| ErrNotImpl ->
  'N'::('o'::('t'::('I'::('m'::('p'::('l'::('e'::('m'::('e'::('n'::('t'::('e'::('d'::('E'::('r'::('r'::('o'::('r'::[]))))))))))))))))))
| ErrKey -> 'K'::('e'::('y'::('E'::('r'::('r'::('o'::('r'::[])))))))
| ErrType -> 'T'::('y'::('p'::('e'::('E'::('r'::('r'::('o'::('r'::[]))))))))
| ErrAttr ->
  'A'::('t'::('t'::('r'::('i'::('b'::('u'::('t'::('e'::('E'::('r'::('r'::('o'::('r'::[])))))))))))))
| ErrIndex ->
  'I'::('n'::('d'::('e'::('x'::('E'::('r'::('r'::('o'::('r'::[])))))))))
| ErrTranslation ->
  'x'::('A'::('O'::('D'::('T'::('r'::('a'::('n'::('s'::('l'::('a'::('t'::('i'::('o'::('n'::('E'::('r'::('r'::('o'::('r'::[])))))))))))))))))))
| ErrOutOfFuel ->
  'O'::('u'::('t'::('O'::('f'::('F'::('u'::('e'::('l'::[]))))))))
| ErrOther t -> t

(** val mem_str : char list -> char list list -> bool **)

let rec mem_str x = function
| [] -> false
| y :: r -> if eqb0 x y then true else mem_str x r

(** val list_str_eqb : char list list -> char list list -> bool **)

let rec list_str_eqb a b =
  match a with
  | [] -> (match b with
           | [] -> true
           | _ :: _ -> false)
  | x :: a' ->
    (match b with
     | [] -> false
     | y :: b' -> (&&) (eqb0 x y) (list_str_eqb a' b'))

(** val concat_str : char list list -> char list **)

let rec concat_str = function
| [] -> []
| x :: r -> append x (concat_str r)

(** val join_str : char list -> char list list -> char list **)

let rec join_str sep = function
| [] -> []
| x :: r ->
  (match r with
   | [] -> x
   | _ :: _ -> append x (append sep (join_str sep r)))

(** val digit_char : nat -> char **)

let digit_char n0 =
  ascii_of_nat
    (add (S (S (S (S (S (S (S (S (S (S (S (S (S (S (S (S (S (S (S (S (S (S (S
      (S (S (S (S (S (S (S (S (S (S (S (S (S (S (S (S (S (S (S (S (S (S (S (S
      (S O)))))))))))))))))))))))))))))))))))))))))))))))) n0)

(** val dec_N_fuel : nat -> n -> char list -> char list **)

let rec dec_N_fuel fuel n0 acc =
  match fuel with
  | O -> acc
  | S f ->
    let d = N.to_nat (N.modulo n0 (Npos (XO (XI (XO XH))))) in
    let acc' = (digit_char d)::acc in
    if N.eqb (N.div n0 (Npos (XO (XI (XO XH))))) N0
    then acc'
    else dec_N_fuel f (N.div n0 (Npos (XO (XI (XO XH))))) acc'

(** val dec_N : n -> char list **)

let dec_N n0 =
  dec_N_fuel (S (N.to_nat (N.size n0))) n0 []

(** val dec_nat : nat -> char list **)

let dec_nat n0 =
  dec_N (N.of_nat n0)

(** val is_digit : char -> bool **)

let is_digit c =
  let n0 = nat_of_ascii c in
  (&&)
    (Nat.leb (S (S (S (S (S (S (S (S (S (S (S (S (S (S (S (S (S (S (S (S (S
      (S (S (S (S (S (S (S (S (S (S (S (S (S (S (S (S (S (S (S (S (S (S (S (S
      (S (S (S O)))))))))))))))))))))))))))))))))))))))))))))))) n0)
    (Nat.leb n0 (S (S (S (S (S (S (S (S (S (S (S (S (S (S (S (S (S (S (S (S
      (S (S (S (S (S (S (S (S (S (S (S (S (S (S (S (S (S (S (S (S (S (S (S (S
      (S (S (S (S (S (S (S (S (S (S (S (S (S
      O))))))))))))))))))))))))))))))))))))))))))))))))))))))))))

(** val parse_N_acc : char list -> n -> n option **)

let rec parse_N_acc s acc =
  match s with
  | [] -> Some acc
  | c::r ->
    if is_digit c
    then parse_N_acc r
           (N.add (N.mul acc (Npos (XO (XI (XO XH)))))
             (N.of_nat
               (sub (nat_of_ascii c) (S (S (S (S (S (S (S (S (S (S (S (S (S
                 (S (S (S (S (S (S (S (S (S (S (S (S (S (S (S (S (S (S (S (S
                 (S (S (S (S (S (S (S (S (S (S (S (S (S (S (S
                 O)))))))))))))))))))))))))))))))))))))))))))))))))))
    else None

(** val parse_N : char list -> n option **)

let parse_N s = match s with
| [] -> None
| _::_ -> parse_N_acc s N0

(** val parse_Z : char list -> z option **)

let parse_Z s = match s with
| [] -> option_map Z.of_N (parse_N s)
| a::r ->
  (* If this appears, you're using Ascii internals. Please don't *)
 (fun f c ->
  let n = Char.code c in
  let h i = (n land (1 lsl i)) <> 0 in
  f (h 0) (h 1) (h 2) (h 3) (h 4) (h 5) (h 6) (h 7))
    (fun b b0 b1 b2 b3 b4 b5 b6 ->
    if b
    then if b0
         then option_map Z.of_N (parse_N s)
         else if b1
              then if b2
                   then if b3
                        then option_map Z.of_N (parse_N s)
                        else if b4
                             then if b5
                                  then option_map Z.of_N (parse_N s)
                                  else if b6
                                       then option_map Z.of_N (parse_N s)
                                       else option_map (fun n0 ->
                                              Z.opp (Z.of_N n0)) (parse_N r)
                             else option_map Z.of_N (parse_N s)
                   else option_map Z.of_N (parse_N s)
              else option_map Z.of_N (parse_N s)
    else option_map Z.of_N (parse_N s))
    a

type sexp =
| SAtom of char list
| SList of sexp list

(** val s_strs : char list list -> sexp **)

let s_strs l =
  SList (map (fun x -> SAtom x) l)

(** val s_nat : nat -> sexp **)

let s_nat n0 =
  SAtom (dec_nat n0)

(** val s_bool : bool -> sexp **)

let s_bool b =
  SAtom
    (if b
     then 't'::('r'::('u'::('e'::[])))
     else 'f'::('a'::('l'::('s'::('e'::[])))))

(** val s_tag : char list -> sexp list -> sexp **)

let s_tag t l =
  SList ((SAtom t) :: l)

(** val s_err : err -> sexp **)

let s_err e =
  s_tag ('e'::('r'::('r'::('o'::('r'::[]))))) ((SAtom (err_name e)) :: [])

(** val s_result : ('a1 -> sexp) -> 'a1 result -> sexp **)

let s_result enc = function
| OK a -> s_tag ('o'::('k'::[])) ((enc a) :: [])
| Error e -> s_err e

(** val d_str : sexp -> char list option **)

let d_str = function
| SAtom a -> Some a
| SList _ -> None

(** val d_list : (sexp -> 'a1 option) -> sexp list -> 'a1 list option **)

let rec d_list d = function
| [] -> Some []
| x :: r ->
  (match d x with
   | Some a ->
     (match d_list d r with
      | Some r' -> Some (a :: r')
      | None -> None)
   | None -> None)

(** val d_strs : sexp -> char list list option **)

let d_strs = function
| SAtom _ -> None
| SList l -> d_list d_str l

(** val d_Z : sexp -> z option **)

let d_Z = function
| SAtom a -> parse_Z a
| SList _ -> None

(** val d_nat : sexp -> nat option **)

let d_nat s =
  option_map Z.to_nat (d_Z s)

(** val d_bool : sexp -> bool option **)

let d_bool = function
| SAtom s0 ->
  (match s0 with
   | [] -> None
   | a::s1 ->
     (* If this appears, you're using Ascii internals. Please don't *)
 (fun f c ->
  let n = Char.code c in
  let h i = (n land (1 lsl i)) <> 0 in
  f (h 0) (h 1) (h 2) (h 3) (h 4) (h 5) (h 6) (h 7))
       (fun b b0 b1 b2 b3 b4 b5 b6 ->
       if b
       then None
       else if b0
            then if b1
                 then if b2
                      then None
                      else if b3
                           then None
                           else if b4
                                then if b5
                                     then if b6
                                          then None
                                          else (match s1 with
                                                | [] -> None
                                                | a0::s2 ->
                                                  (* If this appears, you're using Ascii internals. Please don't *)
 (fun f c ->
  let n = Char.code c in
  let h i = (n land (1 lsl i)) <> 0 in
  f (h 0) (h 1) (h 2) (h 3) (h 4) (h 5) (h 6) (h 7))
                                                    (fun b7 b8 b9 b10 b11 b12 b13 b14 ->
                                                    if b7
                                                    then if b8
                                                         then None
                                                         else if b9
                                                              then None
                                                              else if b10
                                                                   then None
                                                                   else 
                                                                    if b11
                                                                    then None
                                                                    else 
                                                                    if b12
                                                                    then 
                                                                    if b13
                                                                    then 
                                                                    if b14
                                                                    then None
                                                                    else 
                                                                    (match s2 with
                                                                    | [] ->
                                                                    None
                                                                    | a1::s3 ->
                                                                    (* If this appears, you're using Ascii internals. Please don't *)
 (fun f c ->
  let n = Char.code c in
  let h i = (n land (1 lsl i)) <> 0 in
  f (h 0) (h 1) (h 2) (h 3) (h 4) (h 5) (h 6) (h 7))
                                                                    (fun b15 b16 b17 b18 b19 b20 b21 b22 ->
                                                                    if b15
                                                                    then None
                                                                    else 
                                                                    if b16
                                                                    then None
                                                                    else 
                                                                    if b17
                                                                    then 
                                                                    if b18
                                                                    then 
                                                                    if b19
                                                                    then None
                                                                    else 
                                                                    if b20
                                                                    then 
                                                                    if b21
                                                                    then 
                                                                    if b22
                                                                    then None
                                                                    else 
                                                                    (match s3 with
                                                                    | [] ->
                                                                    None
                                                                    | a2::s4 ->
                                                                    (* If this appears, you're using Ascii internals. Please don't *)
 (fun f c ->
  let n = Char.code c in
  let h i = (n land (1 lsl i)) <> 0 in
  f (h 0) (h 1) (h 2) (h 3) (h 4) (h 5) (h 6) (h 7))
                                                                    (fun b23 b24 b25 b26 b27 b28 b29 b30 ->
                                                                    if b23
                                                                    then 
                                                                    if b24
                                                                    then 
                                                                    if b25
                                                                    then None
                                                                    else 
                                                                    if b26
                                                                    then None
                                                                    else 
                                                                    if b27
                                                                    then 
                                                                    if b28
                                                                    then 
                                                                    if b29
                                                                    then 
                                                                    if b30
                                                                    then None
                                                                    else 
                                                                    (match s4 with
                                                                    | [] ->
                                                                    None
                                                                    | a3::s5 ->
                                                                    (* If this appears, you're using Ascii internals. Please don't *)
 (fun f c ->
  let n = Char.code c in
  let h i = (n land (1 lsl i)) <> 0 in
  f (h 0) (h 1) (h 2) (h 3) (h 4) (h 5) (h 6) (h 7))
                                                                    (fun b31 b32 b33 b34 b35 b36 b37 b38 ->
                                                                    if b31
                                                                    then 
                                                                    if b32
                                                                    then None
                                                                    else 
                                                                    if b33
                                                                    then 
                                                                    if b34
                                                                    then None
                                                                    else 
                                                                    if b35
                                                                    then None
                                                                    else 
                                                                    if b36
                                                                    then 
                                                                    if b37
                                                                    then 
                                                                    if b38
                                                                    then None
                                                                    else 
                                                                    (match s5 with
                                                                    | [] ->
                                                                    Some false
                                                                    | _::_ ->
                                                                    None)
                                                                    else None
                                                                    else None
                                                                    else None
                                                                    else None)
                                                                    a3)
                                                                    else None
                                                                    else None
                                                                    else None
                                                                    else None
                                                                    else None)
                                                                    a2)
                                                                    else None
                                                                    else None
                                                                    else None
                                                                    else None)
                                                                    a1)
                                                                    else None
                                                                    else None
                                                    else None)
                                                    a0)
                                     else None
                                else None
                 else None
            else if b1
                 then if b2
                      then None
                      else if b3
                           then if b4
                                then if b5
                                     then if b6
                                          then None
                                          else (match s1 with
                                                | [] -> None
                                                | a0::s2 ->
                                                  (* If this appears, you're using Ascii internals. Please don't *)
 (fun f c ->
  let n = Char.code c in
  let h i = (n land (1 lsl i)) <> 0 in
  f (h 0) (h 1) (h 2) (h 3) (h 4) (h 5) (h 6) (h 7))
                                                    (fun b7 b8 b9 b10 b11 b12 b13 b14 ->
                                                    if b7
                                                    then None
                                                    else if b8
                                                         then if b9
                                                              then None
                                                              else if b10
                                                                   then None
                                                                   else 
                                                                    if b11
                                                                    then 
                                                                    if b12
                                                                    then 
                                                                    if b13
                                                                    then 
                                                                    if b14
                                                                    then None
                                                                    else 
                                                                    (match s2 with
                                                                    | [] ->
                                                                    None
                                                                    | a1::s3 ->
                                                                    (* If this appears, you're using Ascii internals. Please don't *)
 (fun f c ->
  let n = Char.code c in
  let h i = (n land (1 lsl i)) <> 0 in
  f (h 0) (h 1) (h 2) (h 3) (h 4) (h 5) (h 6) (h 7))
                                                                    (fun b15 b16 b17 b18 b19 b20 b21 b22 ->
                                                                    if b15
                                                                    then 
                                                                    if b16
                                                                    then None
                                                                    else 
                                                                    if b17
                                                                    then 
                                                                    if b18
                                                                    then None
                                                                    else 
                                                                    if b19
                                                                    then 
                                                                    if b20
                                                                    then 
                                                                    if b21
                                                                    then 
                                                                    if b22
                                                                    then None
                                                                    else 
                                                                    (match s3 with
                                                                    | [] ->
                                                                    None
                                                                    | a2::s4 ->
                                                                    (* If this appears, you're using Ascii internals. Please don't *)
 (fun f c ->
  let n = Char.code c in
  let h i = (n land (1 lsl i)) <> 0 in
  f (h 0) (h 1) (h 2) (h 3) (h 4) (h 5) (h 6) (h 7))
                                                                    (fun b23 b24 b25 b26 b27 b28 b29 b30 ->
                                                                    if b23
                                                                    then 
                                                                    if b24
                                                                    then None
                                                                    else 
                                                                    if b25
                                                                    then 
                                                                    if b26
                                                                    then None
                                                                    else 
                                                                    if b27
                                                                    then None
                                                                    else 
                                                                    if b28
                                                                    then 
                                                                    if b29
                                                                    then 
                                                                    if b30
                                                                    then None
                                                                    else 
                                                                    (match s4 with
                                                                    | [] ->
                                                                    Some true
                                                                    | _::_ ->
                                                                    None)
                                                                    else None
                                                                    else None
                                                                    else None
                                                                    else None)
                                                                    a2)
                                                                    else None
                                                                    else None
                                                                    else None
                                                                    else None
                                                                    else None)
                                                                    a1)
                                                                    else None
                                                                    else None
                                                                    else None
                                                         else None)
                                                    a0)
                                     else None
                                else None
                           else None
                 else None)
       a)
| SList _ -> None

(** val bad_input : sexp **)

let bad_input =
  s_tag ('b'::('a'::('d'::('-'::('i'::('n'::('p'::('u'::('t'::[]))))))))) []

type jblock = { jb_name : char list; jb_script : char list list;
                jb_deps : char list list }

type entry = char list * (char list list * char list list)

type table = entry list

(** val tget :
    char list -> table -> (char list list * char list list) option **)

let rec tget n0 = function
| [] -> None
| e :: r -> let (k, v) = e in if eqb0 n0 k then Some v else tget n0 r

(** val textend : char list -> char list list -> table -> table **)

let rec textend n0 ds = function
| [] -> []
| e :: r ->
  let (k, p) = e in
  let (s, d) = p in
  if eqb0 n0 k
  then (k, (s, (app d ds))) :: r
  else (k, (s, d)) :: (textend n0 ds r)

(** val step1 : table -> jblock -> table result **)

let step1 t b =
  match tget b.jb_name t with
  | Some p ->
    let (s0, _) = p in
    if list_str_eqb b.jb_script s0
    then OK (textend b.jb_name b.jb_deps t)
    else Error ErrValue
  | None -> OK (app t ((b.jb_name, (b.jb_script, b.jb_deps)) :: []))

(** val phase1 : jblock list -> table -> table result **)

let rec phase1 bs t =
  match bs with
  | [] -> OK t
  | b :: r -> (match step1 t b with
               | OK t' -> phase1 r t'
               | Error e -> Error e)

(** val has_key : char list -> table -> bool **)

let has_key n0 t =
  match tget n0 t with
  | Some _ -> true
  | None -> false

(** val deps_present : table -> bool **)

let deps_present t =
  forallb (fun e -> forallb (fun d -> has_key d t) (snd (snd e))) t

(** val one_pass :
    table -> char list list -> char list list -> bool -> (char list
    list * char list list) * bool **)

let rec one_pass rest seen out emitted =
  match rest with
  | [] -> ((seen, out), emitted)
  | e :: r ->
    let (n0, p) = e in
    let (scr, ds) = p in
    if (&&) (negb (mem_str n0 seen)) (forallb (fun d -> mem_str d seen) ds)
    then one_pass r (app seen (n0 :: [])) (app out scr) true
    else one_pass r seen out emitted

(** val emit_loop :
    nat -> table -> char list list -> char list list -> char list list result **)

let rec emit_loop fuel t seen out =
  if Nat.ltb (length seen) (length t)
  then (match fuel with
        | O -> Error ErrOutOfFuel
        | S f ->
          let (p, b) = one_pass t seen out false in
          let (seen', out') = p in
          if b then emit_loop f t seen' out' else Error ErrValue)
  else OK out

(** val gen : jblock list -> char list list result **)

let gen bs =
  match phase1 bs [] with
  | OK t ->
    if deps_present t
    then emit_loop (S (length t)) t [] []
    else Error ErrValue
  | Error e -> Error e

(** val d_jblock : sexp -> jblock option **)

let d_jblock = function
| SAtom _ -> None
| SList l ->
  (match l with
   | [] -> None
   | s0 :: l0 ->
     (match s0 with
      | SAtom n0 ->
        (match l0 with
         | [] -> None
         | sc :: l1 ->
           (match l1 with
            | [] -> None
            | dp :: l2 ->
              (match l2 with
               | [] ->
                 (match d_strs sc with
                  | Some sc' ->
                    (match d_strs dp with
                     | Some dp' ->
                       Some { jb_name = n0; jb_script = sc'; jb_deps = dp' }
                     | None -> None)
                  | None -> None)
               | _ :: _ -> None)))
      | SList _ -> None))

(** val run_gen : sexp -> sexp **)

let run_gen = function
| SAtom _ -> bad_input
| SList l ->
  (match d_list d_jblock l with
   | Some bs -> s_result s_strs (gen bs)
   | None -> bad_input)

type mrow = { m_py : char list; m_cpp : char list; m_inc : char list list;
              m_ret : char list }

type menv = { e_rows : mrow list; e_module : char list list;
              e_builtins : (char list * char list) list }

(** val lookup_row : char list -> mrow list -> mrow option **)

let rec lookup_row k = function
| [] -> None
| r :: rest ->
  (match lookup_row k rest with
   | Some r' -> Some r'
   | None -> if eqb0 k r.m_py then Some r else None)

(** val assoc :
    char list -> (char list * char list) list -> char list option **)

let rec assoc k = function
| [] -> None
| p :: r -> let (a, b) = p in if eqb0 k a then Some b else assoc k r

type resolution =
| RName of char list
| RCrash

(** val resolve : menv -> char list -> resolution **)

let resolve e n0 =
  if mem_str n0 e.e_module
  then RCrash
  else (match assoc n0 e.e_builtins with
        | Some m ->
          (match m with
           | [] -> RName (append m (append ('.'::[]) n0))
           | a::s ->
             (* If this appears, you're using Ascii internals. Please don't *)
 (fun f c ->
  let n = Char.code c in
  let h i = (n land (1 lsl i)) <> 0 in
  f (h 0) (h 1) (h 2) (h 3) (h 4) (h 5) (h 6) (h 7))
               (fun b b0 b1 b2 b3 b4 b5 b6 ->
               if b
               then if b0
                    then RName (append m (append ('.'::[]) n0))
                    else if b1
                         then if b2
                              then if b3
                                   then RName (append m (append ('.'::[]) n0))
                                   else if b4
                                        then if b5
                                             then RName
                                                    (append m
                                                      (append ('.'::[]) n0))
                                             else if b6
                                                  then RName
                                                         (append m
                                                           (append ('.'::[])
                                                             n0))
                                                  else (match s with
                                                        | [] -> RCrash
                                                        | _::_ ->
                                                          RName
                                                            (append m
                                                              (append
                                                                ('.'::[]) n0)))
                                        else RName
                                               (append m
                                                 (append ('.'::[]) n0))
                              else RName (append m (append ('.'::[]) n0))
                         else RName (append m (append ('.'::[]) n0))
               else RName (append m (append ('.'::[]) n0)))
               a)
        | None -> RName n0)

(** val find_row : menv -> char list -> mrow option **)

let find_row e n0 =
  match resolve e n0 with
  | RName q -> lookup_row q e.e_rows
  | RCrash -> None

(** val acceptable : char list -> char list -> bool **)

let acceptable n0 cpp =
  (||)
    ((||) (eqb0 cpp (append ('s'::('t'::('d'::(':'::(':'::[]))))) n0))
      ((&&) (eqb0 n0 ('l'::('n'::[])))
        (eqb0 cpp ('s'::('t'::('d'::(':'::(':'::('l'::('o'::('g'::[])))))))))))
    ((&&) (eqb0 n0 ('a'::('b'::('s'::[]))))
      ((||)
        (eqb0 cpp
          ('s'::('t'::('d'::(':'::(':'::('f'::('a'::('b'::('s'::[]))))))))))
        (eqb0 cpp ('s'::('t'::('d'::(':'::(':'::('a'::('b'::('s'::[])))))))))))

(** val cmath_sig : (char list * (nat * bool)) list **)

let cmath_sig =
  (('s'::('i'::('n'::[]))), ((S O), false)) :: ((('c'::('o'::('s'::[]))), ((S
    O), false)) :: ((('t'::('a'::('n'::[]))), ((S O),
    false)) :: ((('a'::('c'::('o'::('s'::[])))), ((S O),
    false)) :: ((('a'::('s'::('i'::('n'::[])))), ((S O),
    false)) :: ((('a'::('t'::('a'::('n'::[])))), ((S O),
    false)) :: ((('a'::('t'::('a'::('n'::('2'::[]))))), ((S (S O)),
    false)) :: ((('s'::('i'::('n'::('h'::[])))), ((S O),
    false)) :: ((('c'::('o'::('s'::('h'::[])))), ((S O),
    false)) :: ((('t'::('a'::('n'::('h'::[])))), ((S O),
    false)) :: ((('a'::('s'::('i'::('n'::('h'::[]))))), ((S O),
    false)) :: ((('a'::('c'::('o'::('s'::('h'::[]))))), ((S O),
    false)) :: ((('a'::('t'::('a'::('n'::('h'::[]))))), ((S O),
    false)) :: ((('e'::('x'::('p'::[]))), ((S O),
    false)) :: ((('l'::('d'::('e'::('x'::('p'::[]))))), ((S (S O)),
    false)) :: ((('l'::('o'::('g'::[]))), ((S O),
    false)) :: ((('l'::('n'::[])), ((S O),
    false)) :: ((('l'::('o'::('g'::('1'::('0'::[]))))), ((S O),
    false)) :: ((('e'::('x'::('p'::('2'::[])))), ((S O),
    false)) :: ((('e'::('x'::('p'::('m'::('1'::[]))))), ((S O),
    false)) :: ((('i'::('l'::('o'::('g'::('b'::[]))))), ((S O),
    false)) :: ((('l'::('o'::('g'::('1'::('p'::[]))))), ((S O),
    false)) :: ((('l'::('o'::('g'::('2'::[])))), ((S O),
    false)) :: ((('s'::('c'::('a'::('l'::('b'::('n'::[])))))), ((S (S O)),
    false)) :: ((('s'::('c'::('a'::('l'::('b'::('l'::('n'::[]))))))), ((S (S
    O)), false)) :: ((('p'::('o'::('w'::[]))), ((S (S O)),
    false)) :: ((('s'::('q'::('r'::('t'::[])))), ((S O),
    false)) :: ((('c'::('b'::('r'::('t'::[])))), ((S O),
    false)) :: ((('h'::('y'::('p'::('o'::('t'::[]))))), ((S (S O)),
    false)) :: ((('e'::('r'::('f'::[]))), ((S O),
    false)) :: ((('e'::('r'::('f'::('c'::[])))), ((S O),
    false)) :: ((('t'::('g'::('a'::('m'::('m'::('a'::[])))))), ((S O),
    false)) :: ((('l'::('g'::('a'::('m'::('m'::('a'::[])))))), ((S O),
    false)) :: ((('c'::('e'::('i'::('l'::[])))), ((S O),
    false)) :: ((('f'::('l'::('o'::('o'::('r'::[]))))), ((S O),
    false)) :: ((('f'::('m'::('o'::('d'::[])))), ((S (S O)),
    false)) :: ((('t'::('r'::('u'::('n'::('c'::[]))))), ((S O),
    false)) :: ((('r'::('o'::('u'::('n'::('d'::[]))))), ((S O),
    false)) :: ((('r'::('i'::('n'::('t'::[])))), ((S O),
    false)) :: ((('n'::('e'::('a'::('r'::('b'::('y'::('i'::('n'::('t'::[]))))))))),
    ((S O),
    false)) :: ((('r'::('e'::('m'::('a'::('i'::('n'::('d'::('e'::('r'::[]))))))))),
    ((S (S O)), false)) :: ((('r'::('e'::('m'::('q'::('u'::('o'::[])))))),
    ((S (S (S O))),
    true)) :: ((('c'::('o'::('p'::('y'::('s'::('i'::('g'::('n'::[])))))))),
    ((S (S O)), false)) :: ((('n'::('a'::('n'::[]))), ((S O),
    false)) :: ((('n'::('e'::('x'::('t'::('a'::('f'::('t'::('e'::('r'::[]))))))))),
    ((S (S O)),
    false)) :: ((('n'::('e'::('x'::('t'::('t'::('o'::('w'::('a'::('r'::('d'::[])))))))))),
    ((S (S O)), false)) :: ((('f'::('d'::('i'::('m'::[])))), ((S (S O)),
    false)) :: ((('f'::('m'::('a'::('x'::[])))), ((S (S O)),
    false)) :: ((('f'::('m'::('i'::('n'::[])))), ((S (S O)),
    false)) :: ((('f'::('a'::('b'::('s'::[])))), ((S O),
    false)) :: ((('a'::('b'::('s'::[]))), ((S O),
    false)) :: ((('f'::('m'::('a'::[]))), ((S (S (S O))),
    false)) :: [])))))))))))))))))))))))))))))))))))))))))))))))))))

(** val sig_of :
    char list -> (char list * (nat * bool)) list -> (nat * bool) option **)

let rec sig_of n0 = function
| [] -> None
| p :: r -> let (a, b) = p in if eqb0 n0 a then Some b else sig_of n0 r

(** val callable_from_query : char list -> bool **)

let callable_from_query n0 =
  match sig_of n0 cmath_sig with
  | Some p -> let (_, b) = p in if b then false else true
  | None -> false

(** val doc_ok : menv -> char list -> bool **)

let doc_ok e n0 =
  match find_row e n0 with
  | Some r ->
    (&&)
      ((&&)
        ((&&) (acceptable n0 r.m_cpp)
          (mem_str ('c'::('m'::('a'::('t'::('h'::[]))))) r.m_inc))
        (eqb0 r.m_ret ('d'::('o'::('u'::('b'::('l'::('e'::[]))))))))
      (callable_from_query n0)
  | None -> false

(** val s_row : mrow -> sexp **)

let s_row r =
  SList ((SAtom r.m_py) :: ((SAtom r.m_cpp) :: ((s_strs r.m_inc) :: ((SAtom
    r.m_ret) :: []))))

(** val audit : menv -> char list list -> sexp **)

let audit e doc =
  SList
    (map (fun n0 -> SList ((SAtom
      n0) :: ((match resolve e n0 with
               | RName q -> SAtom q
               | RCrash ->
                 SAtom ('<'::('c'::('r'::('a'::('s'::('h'::('>'::[])))))))) :: ((
      match find_row e n0 with
      | Some r -> s_row r
      | None -> SList []) :: ((s_bool (doc_ok e n0)) :: ((match sig_of n0
                                                                  cmath_sig with
                                                          | Some p0 ->
                                                            let (k, p) = p0 in
                                                            SList
                                                            ((s_nat k) :: (
                                                            (s_bool p) :: []))
                                                          | None -> SList []) :: []))))))
      doc)

(** val math_rows : mrow list **)

let math_rows =
  { m_py = ('s'::('i'::('n'::[]))); m_cpp =
    ('s'::('t'::('d'::(':'::(':'::('s'::('i'::('n'::[])))))))); m_inc =
    (('c'::('m'::('a'::('t'::('h'::[]))))) :: []); m_ret =
    ('d'::('o'::('u'::('b'::('l'::('e'::[])))))) } :: ({ m_py =
    ('c'::('o'::('s'::[]))); m_cpp =
    ('s'::('t'::('d'::(':'::(':'::('c'::('o'::('s'::[])))))))); m_inc =
    (('c'::('m'::('a'::('t'::('h'::[]))))) :: []); m_ret =
    ('d'::('o'::('u'::('b'::('l'::('e'::[])))))) } :: ({ m_py =
    ('t'::('a'::('n'::[]))); m_cpp =
    ('s'::('t'::('d'::(':'::(':'::('t'::('a'::('n'::[])))))))); m_inc =
    (('c'::('m'::('a'::('t'::('h'::[]))))) :: []); m_ret =
    ('d'::('o'::('u'::('b'::('l'::('e'::[])))))) } :: ({ m_py =
    ('a'::('c'::('o'::('s'::[])))); m_cpp =
    ('s'::('t'::('d'::(':'::(':'::('a'::('c'::('o'::('s'::[])))))))));
    m_inc = (('c'::('m'::('a'::('t'::('h'::[]))))) :: []); m_ret =
    ('d'::('o'::('u'::('b'::('l'::('e'::[])))))) } :: ({ m_py =
    ('a'::('s'::('i'::('n'::[])))); m_cpp =
    ('s'::('t'::('d'::(':'::(':'::('a'::('s'::('i'::('n'::[])))))))));
    m_inc = (('c'::('m'::('a'::('t'::('h'::[]))))) :: []); m_ret =
    ('d'::('o'::('u'::('b'::('l'::('e'::[])))))) } :: ({ m_py =
    ('a'::('t'::('a'::('n'::[])))); m_cpp =
    ('s'::('t'::('d'::(':'::(':'::('a'::('t'::('a'::('n'::[])))))))));
    m_inc = (('c'::('m'::('a'::('t'::('h'::[]))))) :: []); m_ret =
    ('d'::('o'::('u'::('b'::('l'::('e'::[])))))) } :: ({ m_py =
    ('a'::('t'::('a'::('n'::('2'::[]))))); m_cpp =
    ('s'::('t'::('d'::(':'::(':'::('a'::('t'::('a'::('n'::('2'::[]))))))))));
    m_inc = (('c'::('m'::('a'::('t'::('h'::[]))))) :: []); m_ret =
    ('d'::('o'::('u'::('b'::('l'::('e'::[])))))) } :: ({ m_py =
    ('s'::('i'::('n'::('h'::[])))); m_cpp =
    ('s'::('t'::('d'::(':'::(':'::('s'::('i'::('n'::('h'::[])))))))));
    m_inc = (('c'::('m'::('a'::('t'::('h'::[]))))) :: []); m_ret =
    ('d'::('o'::('u'::('b'::('l'::('e'::[])))))) } :: ({ m_py =
    ('c'::('o'::('s'::('h'::[])))); m_cpp =
    ('s'::('t'::('d'::(':'::(':'::('c'::('o'::('s'::('h'::[])))))))));
    m_inc = (('c'::('m'::('a'::('t'::('h'::[]))))) :: []); m_ret =
    ('d'::('o'::('u'::('b'::('l'::('e'::[])))))) } :: ({ m_py =
    ('t'::('a'::('n'::('h'::[])))); m_cpp =
    ('s'::('t'::('d'::(':'::(':'::('t'::('a'::('n'::('h'::[])))))))));
    m_inc = (('c'::('m'::('a'::('t'::('h'::[]))))) :: []); m_ret =
    ('d'::('o'::('u'::('b'::('l'::('e'::[])))))) } :: ({ m_py =
    ('a'::('s'::('i'::('n'::('h'::[]))))); m_cpp =
    ('s'::('t'::('d'::(':'::(':'::('a'::('s'::('i'::('n'::('h'::[]))))))))));
    m_inc = (('c'::('m'::('a'::('t'::('h'::[]))))) :: []); m_ret =
    ('d'::('o'::('u'::('b'::('l'::('e'::[])))))) } :: ({ m_py =
    ('a'::('c'::('o'::('s'::('h'::[]))))); m_cpp =
    ('s'::('t'::('d'::(':'::(':'::('a'::('c'::('o'::('s'::('h'::[]))))))))));
    m_inc = (('c'::('m'::('a'::('t'::('h'::[]))))) :: []); m_ret =
    ('d'::('o'::('u'::('b'::('l'::('e'::[])))))) } :: ({ m_py =
    ('a'::('t'::('a'::('n'::('h'::[]))))); m_cpp =
    ('s'::('t'::('d'::(':'::(':'::('a'::('t'::('a'::('n'::('h'::[]))))))))));
    m_inc = (('c'::('m'::('a'::('t'::('h'::[]))))) :: []); m_ret =
    ('d'::('o'::('u'::('b'::('l'::('e'::[])))))) } :: ({ m_py =
    ('e'::('x'::('p'::[]))); m_cpp =
    ('s'::('t'::('d'::(':'::(':'::('e'::('x'::('p'::[])))))))); m_inc =
    (('c'::('m'::('a'::('t'::('h'::[]))))) :: []); m_ret =
    ('d'::('o'::('u'::('b'::('l'::('e'::[])))))) } :: ({ m_py =
    ('l'::('d'::('e'::('x'::('p'::[]))))); m_cpp =
    ('s'::('t'::('d'::(':'::(':'::('l'::('d'::('e'::('x'::('p'::[]))))))))));
    m_inc = (('c'::('m'::('a'::('t'::('h'::[]))))) :: []); m_ret =
    ('d'::('o'::('u'::('b'::('l'::('e'::[])))))) } :: ({ m_py =
    ('l'::('o'::('g'::[]))); m_cpp =
    ('s'::('t'::('d'::(':'::(':'::('l'::('o'::('g'::[])))))))); m_inc =
    (('c'::('m'::('a'::('t'::('h'::[]))))) :: []); m_ret =
    ('d'::('o'::('u'::('b'::('l'::('e'::[])))))) } :: ({ m_py =
    ('l'::('n'::[])); m_cpp =
    ('s'::('t'::('d'::(':'::(':'::('l'::('o'::('g'::[])))))))); m_inc =
    (('c'::('m'::('a'::('t'::('h'::[]))))) :: []); m_ret =
    ('d'::('o'::('u'::('b'::('l'::('e'::[])))))) } :: ({ m_py =
    ('l'::('o'::('g'::('1'::('0'::[]))))); m_cpp =
    ('s'::('t'::('d'::(':'::(':'::('l'::('o'::('g'::('1'::('0'::[]))))))))));
    m_inc = (('c'::('m'::('a'::('t'::('h'::[]))))) :: []); m_ret =
    ('d'::('o'::('u'::('b'::('l'::('e'::[])))))) } :: ({ m_py =
    ('e'::('x'::('p'::('2'::[])))); m_cpp =
    ('s'::('t'::('d'::(':'::(':'::('e'::('x'::('p'::('2'::[])))))))));
    m_inc = (('c'::('m'::('a'::('t'::('h'::[]))))) :: []); m_ret =
    ('d'::('o'::('u'::('b'::('l'::('e'::[])))))) } :: ({ m_py =
    ('e'::('x'::('p'::('m'::('1'::[]))))); m_cpp =
    ('s'::('t'::('d'::(':'::(':'::('e'::('x'::('p'::('m'::('1'::[]))))))))));
    m_inc = (('c'::('m'::('a'::('t'::('h'::[]))))) :: []); m_ret =
    ('d'::('o'::('u'::('b'::('l'::('e'::[])))))) } :: ({ m_py =
    ('i'::('l'::('o'::('g'::('b'::[]))))); m_cpp =
    ('s'::('t'::('d'::(':'::(':'::('i'::('l'::('o'::('g'::('b'::[]))))))))));
    m_inc = (('c'::('m'::('a'::('t'::('h'::[]))))) :: []); m_ret =
    ('d'::('o'::('u'::('b'::('l'::('e'::[])))))) } :: ({ m_py =
    ('l'::('o'::('g'::('1'::('p'::[]))))); m_cpp =
    ('s'::('t'::('d'::(':'::(':'::('l'::('o'::('g'::('1'::('p'::[]))))))))));
    m_inc = (('c'::('m'::('a'::('t'::('h'::[]))))) :: []); m_ret =
    ('d'::('o'::('u'::('b'::('l'::('e'::[])))))) } :: ({ m_py =
    ('l'::('o'::('g'::('2'::[])))); m_cpp =
    ('s'::('t'::('d'::(':'::(':'::('l'::('o'::('g'::('2'::[])))))))));
    m_inc = (('c'::('m'::('a'::('t'::('h'::[]))))) :: []); m_ret =
    ('d'::('o'::('u'::('b'::('l'::('e'::[])))))) } :: ({ m_py =
    ('s'::('c'::('a'::('l'::('b'::('n'::[])))))); m_cpp =
    ('s'::('t'::('d'::(':'::(':'::('s'::('c'::('a'::('l'::('b'::('n'::[])))))))))));
    m_inc = (('c'::('m'::('a'::('t'::('h'::[]))))) :: []); m_ret =
    ('d'::('o'::('u'::('b'::('l'::('e'::[])))))) } :: ({ m_py =
    ('s'::('c'::('a'::('l'::('b'::('l'::('n'::[]))))))); m_cpp =
    ('s'::('t'::('d'::(':'::(':'::('s'::('c'::('a'::('l'::('b'::('l'::('n'::[]))))))))))));
    m_inc = (('c'::('m'::('a'::('t'::('h'::[]))))) :: []); m_ret =
    ('d'::('o'::('u'::('b'::('l'::('e'::[])))))) } :: ({ m_py =
    ('p'::('o'::('w'::[]))); m_cpp =
    ('s'::('t'::('d'::(':'::(':'::('p'::('o'::('w'::[])))))))); m_inc =
    (('c'::('m'::('a'::('t'::('h'::[]))))) :: []); m_ret =
    ('d'::('o'::('u'::('b'::('l'::('e'::[])))))) } :: ({ m_py =
    ('s'::('q'::('r'::('t'::[])))); m_cpp =
    ('s'::('t'::('d'::(':'::(':'::('s'::('q'::('r'::('t'::[])))))))));
    m_inc = (('c'::('m'::('a'::('t'::('h'::[]))))) :: []); m_ret =
    ('d'::('o'::('u'::('b'::('l'::('e'::[])))))) } :: ({ m_py =
    ('c'::('b'::('r'::('t'::[])))); m_cpp =
    ('s'::('t'::('d'::(':'::(':'::('c'::('b'::('r'::('t'::[])))))))));
    m_inc = (('c'::('m'::('a'::('t'::('h'::[]))))) :: []); m_ret =
    ('d'::('o'::('u'::('b'::('l'::('e'::[])))))) } :: ({ m_py =
    ('h'::('y'::('p'::('o'::('t'::[]))))); m_cpp =
    ('s'::('t'::('d'::(':'::(':'::('h'::('y'::('p'::('o'::('t'::[]))))))))));
    m_inc = (('c'::('m'::('a'::('t'::('h'::[]))))) :: []); m_ret =
    ('d'::('o'::('u'::('b'::('l'::('e'::[])))))) } :: ({ m_py =
    ('e'::('r'::('f'::[]))); m_cpp =
    ('s'::('t'::('d'::(':'::(':'::('e'::('r'::('f'::[])))))))); m_inc =
    (('c'::('m'::('a'::('t'::('h'::[]))))) :: []); m_ret =
    ('d'::('o'::('u'::('b'::('l'::('e'::[])))))) } :: ({ m_py =
    ('e'::('r'::('f'::('c'::[])))); m_cpp =
    ('s'::('t'::('d'::(':'::(':'::('e'::('r'::('f'::('c'::[])))))))));
    m_inc = (('c'::('m'::('a'::('t'::('h'::[]))))) :: []); m_ret =
    ('d'::('o'::('u'::('b'::('l'::('e'::[])))))) } :: ({ m_py =
    ('t'::('g'::('a'::('m'::('m'::('a'::[])))))); m_cpp =
    ('s'::('t'::('d'::(':'::(':'::('t'::('g'::('a'::('m'::('m'::('a'::[])))))))))));
    m_inc = (('c'::('m'::('a'::('t'::('h'::[]))))) :: []); m_ret =
    ('d'::('o'::('u'::('b'::('l'::('e'::[])))))) } :: ({ m_py =
    ('l'::('g'::('a'::('m'::('m'::('a'::[])))))); m_cpp =
    ('s'::('t'::('d'::(':'::(':'::('l'::('g'::('a'::('m'::('m'::('a'::[])))))))))));
    m_inc = (('c'::('m'::('a'::('t'::('h'::[]))))) :: []); m_ret =
    ('d'::('o'::('u'::('b'::('l'::('e'::[])))))) } :: ({ m_py =
    ('c'::('e'::('i'::('l'::[])))); m_cpp =
    ('s'::('t'::('d'::(':'::(':'::('c'::('e'::('i'::('l'::[])))))))));
    m_inc = (('c'::('m'::('a'::('t'::('h'::[]))))) :: []); m_ret =
    ('d'::('o'::('u'::('b'::('l'::('e'::[])))))) } :: ({ m_py =
    ('f'::('l'::('o'::('o'::('r'::[]))))); m_cpp =
    ('s'::('t'::('d'::(':'::(':'::('f'::('l'::('o'::('o'::('r'::[]))))))))));
    m_inc = (('c'::('m'::('a'::('t'::('h'::[]))))) :: []); m_ret =
    ('d'::('o'::('u'::('b'::('l'::('e'::[])))))) } :: ({ m_py =
    ('f'::('m'::('o'::('d'::[])))); m_cpp =
    ('s'::('t'::('d'::(':'::(':'::('f'::('m'::('o'::('d'::[])))))))));
    m_inc = (('c'::('m'::('a'::('t'::('h'::[]))))) :: []); m_ret =
    ('d'::('o'::('u'::('b'::('l'::('e'::[])))))) } :: ({ m_py =
    ('t'::('r'::('u'::('n'::('c'::[]))))); m_cpp =
    ('s'::('t'::('d'::(':'::(':'::('t'::('r'::('u'::('n'::('c'::[]))))))))));
    m_inc = (('c'::('m'::('a'::('t'::('h'::[]))))) :: []); m_ret =
    ('d'::('o'::('u'::('b'::('l'::('e'::[])))))) } :: ({ m_py =
    ('r'::('o'::('u'::('n'::('d'::[]))))); m_cpp =
    ('s'::('t'::('d'::(':'::(':'::('r'::('o'::('u'::('n'::('d'::[]))))))))));
    m_inc = (('c'::('m'::('a'::('t'::('h'::[]))))) :: []); m_ret =
    ('d'::('o'::('u'::('b'::('l'::('e'::[])))))) } :: ({ m_py =
    ('r'::('i'::('n'::('t'::[])))); m_cpp =
    ('s'::('t'::('d'::(':'::(':'::('r'::('i'::('n'::('t'::[])))))))));
    m_inc = (('c'::('m'::('a'::('t'::('h'::[]))))) :: []); m_ret =
    ('d'::('o'::('u'::('b'::('l'::('e'::[])))))) } :: ({ m_py =
    ('n'::('e'::('a'::('r'::('b'::('y'::('i'::('n'::('t'::[])))))))));
    m_cpp =
    ('s'::('t'::('d'::(':'::(':'::('n'::('e'::('a'::('r'::('b'::('y'::('i'::('n'::('t'::[]))))))))))))));
    m_inc = (('c'::('m'::('a'::('t'::('h'::[]))))) :: []); m_ret =
    ('d'::('o'::('u'::('b'::('l'::('e'::[])))))) } :: ({ m_py =
    ('r'::('e'::('m'::('a'::('i'::('n'::('d'::('e'::('r'::[])))))))));
    m_cpp =
    ('s'::('t'::('d'::(':'::(':'::('r'::('e'::('m'::('a'::('i'::('n'::('d'::('e'::('r'::[]))))))))))))));
    m_inc = (('c'::('m'::('a'::('t'::('h'::[]))))) :: []); m_ret =
    ('d'::('o'::('u'::('b'::('l'::('e'::[])))))) } :: ({ m_py =
    ('r'::('e'::('m'::('q'::('u'::('o'::[])))))); m_cpp =
    ('s'::('t'::('d'::(':'::(':'::('r'::('e'::('m'::('q'::('u'::('o'::[])))))))))));
    m_inc = (('c'::('m'::('a'::('t'::('h'::[]))))) :: []); m_ret =
    ('d'::('o'::('u'::('b'::('l'::('e'::[])))))) } :: ({ m_py =
    ('c'::('o'::('p'::('y'::('s'::('i'::('g'::('n'::[])))))))); m_cpp =
    ('s'::('t'::('d'::(':'::(':'::('c'::('o'::('p'::('y'::('s'::('i'::('g'::('n'::[])))))))))))));
    m_inc = (('c'::('m'::('a'::('t'::('h'::[]))))) :: []); m_ret =
    ('d'::('o'::('u'::('b'::('l'::('e'::[])))))) } :: ({ m_py =
    ('n'::('a'::('n'::[]))); m_cpp =
    ('s'::('t'::('d'::(':'::(':'::('n'::('a'::('n'::[])))))))); m_inc =
    (('c'::('m'::('a'::('t'::('h'::[]))))) :: []); m_ret =
    ('d'::('o'::('u'::('b'::('l'::('e'::[])))))) } :: ({ m_py =
    ('n'::('e'::('x'::('t'::('a'::('f'::('t'::('e'::('r'::[])))))))));
    m_cpp =
    ('s'::('t'::('d'::(':'::(':'::('n'::('e'::('x'::('t'::('a'::('f'::('t'::('e'::('r'::[]))))))))))))));
    m_inc = (('c'::('m'::('a'::('t'::('h'::[]))))) :: []); m_ret =
    ('d'::('o'::('u'::('b'::('l'::('e'::[])))))) } :: ({ m_py =
    ('n'::('e'::('x'::('t'::('t'::('o'::('w'::('a'::('r'::('d'::[]))))))))));
    m_cpp =
    ('s'::('t'::('d'::(':'::(':'::('n'::('e'::('x'::('t'::('t'::('o'::('w'::('a'::('r'::('d'::[])))))))))))))));
    m_inc = (('c'::('m'::('a'::('t'::('h'::[]))))) :: []); m_ret =
    ('d'::('o'::('u'::('b'::('l'::('e'::[])))))) } :: ({ m_py =
    ('f'::('d'::('i'::('m'::[])))); m_cpp =
    ('s'::('t'::('d'::(':'::(':'::('f'::('d'::('i'::('m'::[])))))))));
    m_inc = (('c'::('m'::('a'::('t'::('h'::[]))))) :: []); m_ret =
    ('d'::('o'::('u'::('b'::('l'::('e'::[])))))) } :: ({ m_py =
    ('f'::('m'::('a'::('x'::[])))); m_cpp =
    ('s'::('t'::('d'::(':'::(':'::('f'::('m'::('a'::('x'::[])))))))));
    m_inc = (('c'::('m'::('a'::('t'::('h'::[]))))) :: []); m_ret =
    ('d'::('o'::('u'::('b'::('l'::('e'::[])))))) } :: ({ m_py =
    ('f'::('m'::('i'::('n'::[])))); m_cpp =
    ('s'::('t'::('d'::(':'::(':'::('f'::('m'::('i'::('n'::[])))))))));
    m_inc = (('c'::('m'::('a'::('t'::('h'::[]))))) :: []); m_ret =
    ('d'::('o'::('u'::('b'::('l'::('e'::[])))))) } :: ({ m_py =
    ('f'::('a'::('b'::('s'::[])))); m_cpp =
    ('s'::('t'::('d'::(':'::(':'::('f'::('a'::('b'::('s'::[])))))))));
    m_inc = (('c'::('m'::('a'::('t'::('h'::[]))))) :: []); m_ret =
    ('d'::('o'::('u'::('b'::('l'::('e'::[])))))) } :: ({ m_py =
    ('a'::('b'::('s'::[]))); m_cpp =
    ('s'::('t'::('d'::(':'::(':'::('f'::('a'::('b'::('s'::[])))))))));
    m_inc = (('c'::('m'::('a'::('t'::('h'::[]))))) :: []); m_ret =
    ('d'::('o'::('u'::('b'::('l'::('e'::[])))))) } :: ({ m_py =
    ('f'::('m'::('a'::[]))); m_cpp =
    ('s'::('t'::('d'::(':'::(':'::('f'::('m'::('a'::[])))))))); m_inc =
    (('c'::('m'::('a'::('t'::('h'::[]))))) :: []); m_ret =
    ('d'::('o'::('u'::('b'::('l'::('e'::[])))))) } :: ({ m_py =
    ('b'::('u'::('i'::('l'::('t'::('i'::('n'::('s'::('.'::('a'::('b'::('s'::[]))))))))))));
    m_cpp = ('s'::('t'::('d'::(':'::(':'::('a'::('b'::('s'::[]))))))));
    m_inc = (('c'::('m'::('a'::('t'::('h'::[]))))) :: []); m_ret =
    ('d'::('o'::('u'::('b'::('l'::('e'::[])))))) } :: ({ m_py =
    ('b'::('u'::('i'::('l'::('t'::('i'::('n'::('s'::('.'::('p'::('o'::('w'::[]))))))))))));
    m_cpp = ('s'::('t'::('d'::(':'::(':'::('p'::('o'::('w'::[]))))))));
    m_inc = (('c'::('m'::('a'::('t'::('h'::[]))))) :: []); m_ret =
    ('d'::('o'::('u'::('b'::('l'::('e'::[])))))) } :: ({ m_py =
    ('b'::('u'::('i'::('l'::('t'::('i'::('n'::('s'::('.'::('r'::('o'::('u'::('n'::('d'::[]))))))))))))));
    m_cpp =
    ('s'::('t'::('d'::(':'::(':'::('r'::('o'::('u'::('n'::('d'::[]))))))))));
    m_inc = (('c'::('m'::('a'::('t'::('h'::[]))))) :: []); m_ret =
    ('d'::('o'::('u'::('b'::('l'::('e'::[])))))) } :: []))))))))))))))))))))))))))))))))))))))))))))))))))))))

(** val module_names : char list list **)

let module_names =
  ('a'::('s'::('t'::[]))) :: (('n'::('a'::('m'::('e'::('d'::('t'::('u'::('p'::('l'::('e'::[])))))))))) :: (('F'::('u'::('n'::('c'::('t'::('i'::('o'::('n'::('A'::('S'::('T'::[]))))))))))) :: (('f'::('i'::('n'::('d'::('_'::('k'::('n'::('o'::('w'::('n'::('_'::('f'::('u'::('n'::('c'::('t'::('i'::('o'::('n'::('s'::[])))))))))))))))))))) :: (('a'::('d'::('d'::('_'::('f'::('u'::('n'::('c'::('t'::('i'::('o'::('n'::('_'::('m'::('a'::('p'::('p'::('i'::('n'::('g'::[])))))))))))))))))))) :: (('f'::('u'::('n'::('c'::('t'::('i'::('o'::('n'::('s'::('_'::('t'::('o'::('_'::('r'::('e'::('p'::('l'::('a'::('c'::('e'::[])))))))))))))))))))) :: (('c'::('p'::('p'::('_'::('f'::('u'::('n'::('c'::('t'::('i'::('o'::('n'::[])))))))))))) :: []))))))

(** val builtin_names : (char list * char list) list **)

let builtin_names =
  (('A'::('r'::('i'::('t'::('h'::('m'::('e'::('t'::('i'::('c'::('E'::('r'::('r'::('o'::('r'::[]))))))))))))))),
    ('b'::('u'::('i'::('l'::('t'::('i'::('n'::('s'::[]))))))))) :: ((('A'::('s'::('s'::('e'::('r'::('t'::('i'::('o'::('n'::('E'::('r'::('r'::('o'::('r'::[])))))))))))))),
    ('b'::('u'::('i'::('l'::('t'::('i'::('n'::('s'::[]))))))))) :: ((('A'::('t'::('t'::('r'::('i'::('b'::('u'::('t'::('e'::('E'::('r'::('r'::('o'::('r'::[])))))))))))))),
    ('b'::('u'::('i'::('l'::('t'::('i'::('n'::('s'::[]))))))))) :: ((('B'::('a'::('s'::('e'::('E'::('x'::('c'::('e'::('p'::('t'::('i'::('o'::('n'::[]))))))))))))),
    ('b'::('u'::('i'::('l'::('t'::('i'::('n'::('s'::[]))))))))) :: ((('B'::('a'::('s'::('e'::('E'::('x'::('c'::('e'::('p'::('t'::('i'::('o'::('n'::('G'::('r'::('o'::('u'::('p'::[])))))))))))))))))),
    ('b'::('u'::('i'::('l'::('t'::('i'::('n'::('s'::[]))))))))) :: ((('B'::('l'::('o'::('c'::('k'::('i'::('n'::('g'::('I'::('O'::('E'::('r'::('r'::('o'::('r'::[]))))))))))))))),
    ('b'::('u'::('i'::('l'::('t'::('i'::('n'::('s'::[]))))))))) :: ((('B'::('r'::('o'::('k'::('e'::('n'::('P'::('i'::('p'::('e'::('E'::('r'::('r'::('o'::('r'::[]))))))))))))))),
    ('b'::('u'::('i'::('l'::('t'::('i'::('n'::('s'::[]))))))))) :: ((('B'::('u'::('f'::('f'::('e'::('r'::('E'::('r'::('r'::('o'::('r'::[]))))))))))),
    ('b'::('u'::('i'::('l'::('t'::('i'::('n'::('s'::[]))))))))) :: ((('B'::('y'::('t'::('e'::('s'::('W'::('a'::('r'::('n'::('i'::('n'::('g'::[])))))))))))),
    ('b'::('u'::('i'::('l'::('t'::('i'::('n'::('s'::[]))))))))) :: ((('C'::('h'::('i'::('l'::('d'::('P'::('r'::('o'::('c'::('e'::('s'::('s'::('E'::('r'::('r'::('o'::('r'::[]))))))))))))))))),
    ('b'::('u'::('i'::('l'::('t'::('i'::('n'::('s'::[]))))))))) :: ((('C'::('o'::('n'::('n'::('e'::('c'::('t'::('i'::('o'::('n'::('A'::('b'::('o'::('r'::('t'::('e'::('d'::('E'::('r'::('r'::('o'::('r'::[])))))))))))))))))))))),
    ('b'::('u'::('i'::('l'::('t'::('i'::('n'::('s'::[]))))))))) :: ((('C'::('o'::('n'::('n'::('e'::('c'::('t'::('i'::('o'::('n'::('E'::('r'::('r'::('o'::('r'::[]))))))))))))))),
    ('b'::('u'::('i'::('l'::('t'::('i'::('n'::('s'::[]))))))))) :: ((('C'::('o'::('n'::('n'::('e'::('c'::('t'::('i'::('o'::('n'::('R'::('e'::('f'::('u'::('s'::('e'::('d'::('E'::('r'::('r'::('o'::('r'::[])))))))))))))))))))))),
    ('b'::('u'::('i'::('l'::('t'::('i'::('n'::('s'::[]))))))))) :: ((('C'::('o'::('n'::('n'::('e'::('c'::('t'::('i'::('o'::('n'::('R'::('e'::('s'::('e'::('t'::('E'::('r'::('r'::('o'::('r'::[])))))))))))))))))))),
    ('b'::('u'::('i'::('l'::('t'::('i'::('n'::('s'::[]))))))))) :: ((('D'::('e'::('p'::('r'::('e'::('c'::('a'::('t'::('i'::('o'::('n'::('W'::('a'::('r'::('n'::('i'::('n'::('g'::[])))))))))))))))))),
    ('b'::('u'::('i'::('l'::('t'::('i'::('n'::('s'::[]))))))))) :: ((('E'::('O'::('F'::('E'::('r'::('r'::('o'::('r'::[])))))))),
    ('b'::('u'::('i'::('l'::('t'::('i'::('n'::('s'::[]))))))))) :: ((('E'::('l'::('l'::('i'::('p'::('s'::('i'::('s'::[])))))))),
    ('-'::[])) :: ((('E'::('n'::('c'::('o'::('d'::('i'::('n'::('g'::('W'::('a'::('r'::('n'::('i'::('n'::('g'::[]))))))))))))))),
    ('b'::('u'::('i'::('l'::('t'::('i'::('n'::('s'::[]))))))))) :: ((('E'::('n'::('v'::('i'::('r'::('o'::('n'::('m'::('e'::('n'::('t'::('E'::('r'::('r'::('o'::('r'::[])))))))))))))))),
    ('b'::('u'::('i'::('l'::('t'::('i'::('n'::('s'::[]))))))))) :: ((('E'::('x'::('c'::('e'::('p'::('t'::('i'::('o'::('n'::[]))))))))),
    ('b'::('u'::('i'::('l'::('t'::('i'::('n'::('s'::[]))))))))) :: ((('E'::('x'::('c'::('e'::('p'::('t'::('i'::('o'::('n'::('G'::('r'::('o'::('u'::('p'::[])))))))))))))),
    ('b'::('u'::('i'::('l'::('t'::('i'::('n'::('s'::[]))))))))) :: ((('F'::('a'::('l'::('s'::('e'::[]))))),
    ('-'::[])) :: ((('F'::('i'::('l'::('e'::('E'::('x'::('i'::('s'::('t'::('s'::('E'::('r'::('r'::('o'::('r'::[]))))))))))))))),
    ('b'::('u'::('i'::('l'::('t'::('i'::('n'::('s'::[]))))))))) :: ((('F'::('i'::('l'::('e'::('N'::('o'::('t'::('F'::('o'::('u'::('n'::('d'::('E'::('r'::('r'::('o'::('r'::[]))))))))))))))))),
    ('b'::('u'::('i'::('l'::('t'::('i'::('n'::('s'::[]))))))))) :: ((('F'::('l'::('o'::('a'::('t'::('i'::('n'::('g'::('P'::('o'::('i'::('n'::('t'::('E'::('r'::('r'::('o'::('r'::[])))))))))))))))))),
    ('b'::('u'::('i'::('l'::('t'::('i'::('n'::('s'::[]))))))))) :: ((('F'::('u'::('t'::('u'::('r'::('e'::('W'::('a'::('r'::('n'::('i'::('n'::('g'::[]))))))))))))),
    ('b'::('u'::('i'::('l'::('t'::('i'::('n'::('s'::[]))))))))) :: ((('G'::('e'::('n'::('e'::('r'::('a'::('t'::('o'::('r'::('E'::('x'::('i'::('t'::[]))))))))))))),
    ('b'::('u'::('i'::('l'::('t'::('i'::('n'::('s'::[]))))))))) :: ((('I'::('O'::('E'::('r'::('r'::('o'::('r'::[]))))))),
    ('b'::('u'::('i'::('l'::('t'::('i'::('n'::('s'::[]))))))))) :: ((('I'::('m'::('p'::('o'::('r'::('t'::('E'::('r'::('r'::('o'::('r'::[]))))))))))),
    ('b'::('u'::('i'::('l'::('t'::('i'::('n'::('s'::[]))))))))) :: ((('I'::('m'::('p'::('o'::('r'::('t'::('W'::('a'::('r'::('n'::('i'::('n'::('g'::[]))))))))))))),
    ('b'::('u'::('i'::('l'::('t'::('i'::('n'::('s'::[]))))))))) :: ((('I'::('n'::('d'::('e'::('n'::('t'::('a'::('t'::('i'::('o'::('n'::('E'::('r'::('r'::('o'::('r'::[])))))))))))))))),
    ('b'::('u'::('i'::('l'::('t'::('i'::('n'::('s'::[]))))))))) :: ((('I'::('n'::('d'::('e'::('x'::('E'::('r'::('r'::('o'::('r'::[])))))))))),
    ('b'::('u'::('i'::('l'::('t'::('i'::('n'::('s'::[]))))))))) :: ((('I'::('n'::('t'::('e'::('r'::('r'::('u'::('p'::('t'::('e'::('d'::('E'::('r'::('r'::('o'::('r'::[])))))))))))))))),
    ('b'::('u'::('i'::('l'::('t'::('i'::('n'::('s'::[]))))))))) :: ((('I'::('s'::('A'::('D'::('i'::('r'::('e'::('c'::('t'::('o'::('r'::('y'::('E'::('r'::('r'::('o'::('r'::[]))))))))))))))))),
    ('b'::('u'::('i'::('l'::('t'::('i'::('n'::('s'::[]))))))))) :: ((('K'::('e'::('y'::('E'::('r'::('r'::('o'::('r'::[])))))))),
    ('b'::('u'::('i'::('l'::('t'::('i'::('n'::('s'::[]))))))))) :: ((('K'::('e'::('y'::('b'::('o'::('a'::('r'::('d'::('I'::('n'::('t'::('e'::('r'::('r'::('u'::('p'::('t'::[]))))))))))))))))),
    ('b'::('u'::('i'::('l'::('t'::('i'::('n'::('s'::[]))))))))) :: ((('L'::('o'::('o'::('k'::('u'::('p'::('E'::('r'::('r'::('o'::('r'::[]))))))))))),
    ('b'::('u'::('i'::('l'::('t'::('i'::('n'::('s'::[]))))))))) :: ((('M'::('e'::('m'::('o'::('r'::('y'::('E'::('r'::('r'::('o'::('r'::[]))))))))))),
    ('b'::('u'::('i'::('l'::('t'::('i'::('n'::('s'::[]))))))))) :: ((('M'::('o'::('d'::('u'::('l'::('e'::('N'::('o'::('t'::('F'::('o'::('u'::('n'::('d'::('E'::('r'::('r'::('o'::('r'::[]))))))))))))))))))),
    ('b'::('u'::('i'::('l'::('t'::('i'::('n'::('s'::[]))))))))) :: ((('N'::('a'::('m'::('e'::('E'::('r'::('r'::('o'::('r'::[]))))))))),
    ('b'::('u'::('i'::('l'::('t'::('i'::('n'::('s'::[]))))))))) :: ((('N'::('o'::('n'::('e'::[])))),
    ('-'::[])) :: ((('N'::('o'::('t'::('A'::('D'::('i'::('r'::('e'::('c'::('t'::('o'::('r'::('y'::('E'::('r'::('r'::('o'::('r'::[])))))))))))))))))),
    ('b'::('u'::('i'::('l'::('t'::('i'::('n'::('s'::[]))))))))) :: ((('N'::('o'::('t'::('I'::('m'::('p'::('l'::('e'::('m'::('e'::('n'::('t'::('e'::('d'::[])))))))))))))),
    ('-'::[])) :: ((('N'::('o'::('t'::('I'::('m'::('p'::('l'::('e'::('m'::('e'::('n'::('t'::('e'::('d'::('E'::('r'::('r'::('o'::('r'::[]))))))))))))))))))),
    ('b'::('u'::('i'::('l'::('t'::('i'::('n'::('s'::[]))))))))) :: ((('O'::('S'::('E'::('r'::('r'::('o'::('r'::[]))))))),
    ('b'::('u'::('i'::('l'::('t'::('i'::('n'::('s'::[]))))))))) :: ((('O'::('v'::('e'::('r'::('f'::('l'::('o'::('w'::('E'::('r'::('r'::('o'::('r'::[]))))))))))))),
    ('b'::('u'::('i'::('l'::('t'::('i'::('n'::('s'::[]))))))))) :: ((('P'::('e'::('n'::('d'::('i'::('n'::('g'::('D'::('e'::('p'::('r'::('e'::('c'::('a'::('t'::('i'::('o'::('n'::('W'::('a'::('r'::('n'::('i'::('n'::('g'::[]))))))))))))))))))))))))),
    ('b'::('u'::('i'::('l'::('t'::('i'::('n'::('s'::[]))))))))) :: ((('P'::('e'::('r'::('m'::('i'::('s'::('s'::('i'::('o'::('n'::('E'::('r'::('r'::('o'::('r'::[]))))))))))))))),
    ('b'::('u'::('i'::('l'::('t'::('i'::('n'::('s'::[]))))))))) :: ((('P'::('r'::('o'::('c'::('e'::('s'::('s'::('L'::('o'::('o'::('k'::('u'::('p'::('E'::('r'::('r'::('o'::('r'::[])))))))))))))))))),
    ('b'::('u'::('i'::('l'::('t'::('i'::('n'::('s'::[]))))))))) :: ((('R'::('e'::('c'::('u'::('r'::('s'::('i'::('o'::('n'::('E'::('r'::('r'::('o'::('r'::[])))))))))))))),
    ('b'::('u'::('i'::('l'::('t'::('i'::('n'::('s'::[]))))))))) :: ((('R'::('e'::('f'::('e'::('r'::('e'::('n'::('c'::('e'::('E'::('r'::('r'::('o'::('r'::[])))))))))))))),
    ('b'::('u'::('i'::('l'::('t'::('i'::('n'::('s'::[]))))))))) :: ((('R'::('e'::('s'::('o'::('u'::('r'::('c'::('e'::('W'::('a'::('r'::('n'::('i'::('n'::('g'::[]))))))))))))))),
    ('b'::('u'::('i'::('l'::('t'::('i'::('n'::('s'::[]))))))))) :: ((('R'::('u'::('n'::('t'::('i'::('m'::('e'::('E'::('r'::('r'::('o'::('r'::[])))))))))))),
    ('b'::('u'::('i'::('l'::('t'::('i'::('n'::('s'::[]))))))))) :: ((('R'::('u'::('n'::('t'::('i'::('m'::('e'::('W'::('a'::('r'::('n'::('i'::('n'::('g'::[])))))))))))))),
    ('b'::('u'::('i'::('l'::('t'::('i'::('n'::('s'::[]))))))))) :: ((('S'::('t'::('o'::('p'::('A'::('s'::('y'::('n'::('c'::('I'::('t'::('e'::('r'::('a'::('t'::('i'::('o'::('n'::[])))))))))))))))))),
    ('b'::('u'::('i'::('l'::('t'::('i'::('n'::('s'::[]))))))))) :: ((('S'::('t'::('o'::('p'::('I'::('t'::('e'::('r'::('a'::('t'::('i'::('o'::('n'::[]))))))))))))),
    ('b'::('u'::('i'::('l'::('t'::('i'::('n'::('s'::[]))))))))) :: ((('S'::('y'::('n'::('t'::('a'::('x'::('E'::('r'::('r'::('o'::('r'::[]))))))))))),
    ('b'::('u'::('i'::('l'::('t'::('i'::('n'::('s'::[]))))))))) :: ((('S'::('y'::('n'::('t'::('a'::('x'::('W'::('a'::('r'::('n'::('i'::('n'::('g'::[]))))))))))))),
    ('b'::('u'::('i'::('l'::('t'::('i'::('n'::('s'::[]))))))))) :: ((('S'::('y'::('s'::('t'::('e'::('m'::('E'::('r'::('r'::('o'::('r'::[]))))))))))),
    ('b'::('u'::('i'::('l'::('t'::('i'::('n'::('s'::[]))))))))) :: ((('S'::('y'::('s'::('t'::('e'::('m'::('E'::('x'::('i'::('t'::[])))))))))),
    ('b'::('u'::('i'::('l'::('t'::('i'::('n'::('s'::[]))))))))) :: ((('T'::('a'::('b'::('E'::('r'::('r'::('o'::('r'::[])))))))),
    ('b'::('u'::('i'::('l'::('t'::('i'::('n'::('s'::[]))))))))) :: ((('T'::('i'::('m'::('e'::('o'::('u'::('t'::('E'::('r'::('r'::('o'::('r'::[])))))))))))),
    ('b'::('u'::('i'::('l'::('t'::('i'::('n'::('s'::[]))))))))) :: ((('T'::('r'::('u'::('e'::[])))),
    ('-'::[])) :: ((('T'::('y'::('p'::('e'::('E'::('r'::('r'::('o'::('r'::[]))))))))),
    ('b'::('u'::('i'::('l'::('t'::('i'::('n'::('s'::[]))))))))) :: ((('U'::('n'::('b'::('o'::('u'::('n'::('d'::('L'::('o'::('c'::('a'::('l'::('E'::('r'::('r'::('o'::('r'::[]))))))))))))))))),
    ('b'::('u'::('i'::('l'::('t'::('i'::('n'::('s'::[]))))))))) :: ((('U'::('n'::('i'::('c'::('o'::('d'::('e'::('D'::('e'::('c'::('o'::('d'::('e'::('E'::('r'::('r'::('o'::('r'::[])))))))))))))))))),
    ('b'::('u'::('i'::('l'::('t'::('i'::('n'::('s'::[]))))))))) :: ((('U'::('n'::('i'::('c'::('o'::('d'::('e'::('E'::('n'::('c'::('o'::('d'::('e'::('E'::('r'::('r'::('o'::('r'::[])))))))))))))))))),
    ('b'::('u'::('i'::('l'::('t'::('i'::('n'::('s'::[]))))))))) :: ((('U'::('n'::('i'::('c'::('o'::('d'::('e'::('E'::('r'::('r'::('o'::('r'::[])))))))))))),
    ('b'::('u'::('i'::('l'::('t'::('i'::('n'::('s'::[]))))))))) :: ((('U'::('n'::('i'::('c'::('o'::('d'::('e'::('T'::('r'::('a'::('n'::('s'::('l'::('a'::('t'::('e'::('E'::('r'::('r'::('o'::('r'::[]))))))))))))))))))))),
    ('b'::('u'::('i'::('l'::('t'::('i'::('n'::('s'::[]))))))))) :: ((('U'::('n'::('i'::('c'::('o'::('d'::('e'::('W'::('a'::('r'::('n'::('i'::('n'::('g'::[])))))))))))))),
    ('b'::('u'::('i'::('l'::('t'::('i'::('n'::('s'::[]))))))))) :: ((('U'::('s'::('e'::('r'::('W'::('a'::('r'::('n'::('i'::('n'::('g'::[]))))))))))),
    ('b'::('u'::('i'::('l'::('t'::('i'::('n'::('s'::[]))))))))) :: ((('V'::('a'::('l'::('u'::('e'::('E'::('r'::('r'::('o'::('r'::[])))))))))),
    ('b'::('u'::('i'::('l'::('t'::('i'::('n'::('s'::[]))))))))) :: ((('W'::('a'::('r'::('n'::('i'::('n'::('g'::[]))))))),
    ('b'::('u'::('i'::('l'::('t'::('i'::('n'::('s'::[]))))))))) :: ((('Z'::('e'::('r'::('o'::('D'::('i'::('v'::('i'::('s'::('i'::('o'::('n'::('E'::('r'::('r'::('o'::('r'::[]))))))))))))))))),
    ('b'::('u'::('i'::('l'::('t'::('i'::('n'::('s'::[]))))))))) :: ((('_'::('_'::('b'::('u'::('i'::('l'::('d'::('_'::('c'::('l'::('a'::('s'::('s'::('_'::('_'::[]))))))))))))))),
    ('b'::('u'::('i'::('l'::('t'::('i'::('n'::('s'::[]))))))))) :: ((('_'::('_'::('d'::('e'::('b'::('u'::('g'::('_'::('_'::[]))))))))),
    ('-'::[])) :: ((('_'::('_'::('d'::('o'::('c'::('_'::('_'::[]))))))),
    ('-'::[])) :: ((('_'::('_'::('i'::('m'::('p'::('o'::('r'::('t'::('_'::('_'::[])))))))))),
    ('b'::('u'::('i'::('l'::('t'::('i'::('n'::('s'::[]))))))))) :: ((('_'::('_'::('l'::('o'::('a'::('d'::('e'::('r'::('_'::('_'::[])))))))))),
    ('_'::('f'::('r'::('o'::('z'::('e'::('n'::('_'::('i'::('m'::('p'::('o'::('r'::('t'::('l'::('i'::('b'::[])))))))))))))))))) :: ((('_'::('_'::('n'::('a'::('m'::('e'::('_'::('_'::[])))))))),
    ('-'::[])) :: ((('_'::('_'::('p'::('a'::('c'::('k'::('a'::('g'::('e'::('_'::('_'::[]))))))))))),
    ('-'::[])) :: ((('_'::('_'::('s'::('p'::('e'::('c'::('_'::('_'::[])))))))),
    ('_'::('f'::('r'::('o'::('z'::('e'::('n'::('_'::('i'::('m'::('p'::('o'::('r'::('t'::('l'::('i'::('b'::[])))))))))))))))))) :: ((('a'::('b'::('s'::[]))),
    ('b'::('u'::('i'::('l'::('t'::('i'::('n'::('s'::[]))))))))) :: ((('a'::('i'::('t'::('e'::('r'::[]))))),
    ('b'::('u'::('i'::('l'::('t'::('i'::('n'::('s'::[]))))))))) :: ((('a'::('l'::('l'::[]))),
    ('b'::('u'::('i'::('l'::('t'::('i'::('n'::('s'::[]))))))))) :: ((('a'::('n'::('e'::('x'::('t'::[]))))),
    ('b'::('u'::('i'::('l'::('t'::('i'::('n'::('s'::[]))))))))) :: ((('a'::('n'::('y'::[]))),
    ('b'::('u'::('i'::('l'::('t'::('i'::('n'::('s'::[]))))))))) :: ((('a'::('s'::('c'::('i'::('i'::[]))))),
    ('b'::('u'::('i'::('l'::('t'::('i'::('n'::('s'::[]))))))))) :: ((('b'::('i'::('n'::[]))),
    ('b'::('u'::('i'::('l'::('t'::('i'::('n'::('s'::[]))))))))) :: ((('b'::('o'::('o'::('l'::[])))),
    ('b'::('u'::('i'::('l'::('t'::('i'::('n'::('s'::[]))))))))) :: ((('b'::('r'::('e'::('a'::('k'::('p'::('o'::('i'::('n'::('t'::[])))))))))),
    ('b'::('u'::('i'::('l'::('t'::('i'::('n'::('s'::[]))))))))) :: ((('b'::('y'::('t'::('e'::('a'::('r'::('r'::('a'::('y'::[]))))))))),
    ('b'::('u'::('i'::('l'::('t'::('i'::('n'::('s'::[]))))))))) :: ((('b'::('y'::('t'::('e'::('s'::[]))))),
    ('b'::('u'::('i'::('l'::('t'::('i'::('n'::('s'::[]))))))))) :: ((('c'::('a'::('l'::('l'::('a'::('b'::('l'::('e'::[])))))))),
    ('b'::('u'::('i'::('l'::('t'::('i'::('n'::('s'::[]))))))))) :: ((('c'::('h'::('r'::[]))),
    ('b'::('u'::('i'::('l'::('t'::('i'::('n'::('s'::[]))))))))) :: ((('c'::('l'::('a'::('s'::('s'::('m'::('e'::('t'::('h'::('o'::('d'::[]))))))))))),
    ('b'::('u'::('i'::('l'::('t'::('i'::('n'::('s'::[]))))))))) :: ((('c'::('o'::('m'::('p'::('i'::('l'::('e'::[]))))))),
    ('b'::('u'::('i'::('l'::('t'::('i'::('n'::('s'::[]))))))))) :: ((('c'::('o'::('m'::('p'::('l'::('e'::('x'::[]))))))),
    ('b'::('u'::('i'::('l'::('t'::('i'::('n'::('s'::[]))))))))) :: ((('c'::('o'::('p'::('y'::('r'::('i'::('g'::('h'::('t'::[]))))))))),
    ('_'::('s'::('i'::('t'::('e'::('b'::('u'::('i'::('l'::('t'::('i'::('n'::('s'::[])))))))))))))) :: ((('c'::('r'::('e'::('d'::('i'::('t'::('s'::[]))))))),
    ('_'::('s'::('i'::('t'::('e'::('b'::('u'::('i'::('l'::('t'::('i'::('n'::('s'::[])))))))))))))) :: ((('d'::('e'::('l'::('a'::('t'::('t'::('r'::[]))))))),
    ('b'::('u'::('i'::('l'::('t'::('i'::('n'::('s'::[]))))))))) :: ((('d'::('i'::('c'::('t'::[])))),
    ('b'::('u'::('i'::('l'::('t'::('i'::('n'::('s'::[]))))))))) :: ((('d'::('i'::('r'::[]))),
    ('b'::('u'::('i'::('l'::('t'::('i'::('n'::('s'::[]))))))))) :: ((('d'::('i'::('v'::('m'::('o'::('d'::[])))))),
    ('b'::('u'::('i'::('l'::('t'::('i'::('n'::('s'::[]))))))))) :: ((('e'::('n'::('u'::('m'::('e'::('r'::('a'::('t'::('e'::[]))))))))),
    ('b'::('u'::('i'::('l'::('t'::('i'::('n'::('s'::[]))))))))) :: ((('e'::('v'::('a'::('l'::[])))),
    ('b'::('u'::('i'::('l'::('t'::('i'::('n'::('s'::[]))))))))) :: ((('e'::('x'::('e'::('c'::[])))),
    ('b'::('u'::('i'::('l'::('t'::('i'::('n'::('s'::[]))))))))) :: ((('e'::('x'::('i'::('t'::[])))),
    ('_'::('s'::('i'::('t'::('e'::('b'::('u'::('i'::('l'::('t'::('i'::('n'::('s'::[])))))))))))))) :: ((('f'::('i'::('l'::('t'::('e'::('r'::[])))))),
    ('b'::('u'::('i'::('l'::('t'::('i'::('n'::('s'::[]))))))))) :: ((('f'::('l'::('o'::('a'::('t'::[]))))),
    ('b'::('u'::('i'::('l'::('t'::('i'::('n'::('s'::[]))))))))) :: ((('f'::('o'::('r'::('m'::('a'::('t'::[])))))),
    ('b'::('u'::('i'::('l'::('t'::('i'::('n'::('s'::[]))))))))) :: ((('f'::('r'::('o'::('z'::('e'::('n'::('s'::('e'::('t'::[]))))))))),
    ('b'::('u'::('i'::('l'::('t'::('i'::('n'::('s'::[]))))))))) :: ((('g'::('e'::('t'::('a'::('t'::('t'::('r'::[]))))))),
    ('b'::('u'::('i'::('l'::('t'::('i'::('n'::('s'::[]))))))))) :: ((('g'::('l'::('o'::('b'::('a'::('l'::('s'::[]))))))),
    ('b'::('u'::('i'::('l'::('t'::('i'::('n'::('s'::[]))))))))) :: ((('h'::('a'::('s'::('a'::('t'::('t'::('r'::[]))))))),
    ('b'::('u'::('i'::('l'::('t'::('i'::('n'::('s'::[]))))))))) :: ((('h'::('a'::('s'::('h'::[])))),
    ('b'::('u'::('i'::('l'::('t'::('i'::('n'::('s'::[]))))))))) :: ((('h'::('e'::('l'::('p'::[])))),
    ('_'::('s'::('i'::('t'::('e'::('b'::('u'::('i'::('l'::('t'::('i'::('n'::('s'::[])))))))))))))) :: ((('h'::('e'::('x'::[]))),
    ('b'::('u'::('i'::('l'::('t'::('i'::('n'::('s'::[]))))))))) :: ((('i'::('d'::[])),
    ('b'::('u'::('i'::('l'::('t'::('i'::('n'::('s'::[]))))))))) :: ((('i'::('n'::('p'::('u'::('t'::[]))))),
    ('b'::('u'::('i'::('l'::('t'::('i'::('n'::('s'::[]))))))))) :: ((('i'::('n'::('t'::[]))),
    ('b'::('u'::('i'::('l'::('t'::('i'::('n'::('s'::[]))))))))) :: ((('i'::('s'::('i'::('n'::('s'::('t'::('a'::('n'::('c'::('e'::[])))))))))),
    ('b'::('u'::('i'::('l'::('t'::('i'::('n'::('s'::[]))))))))) :: ((('i'::('s'::('s'::('u'::('b'::('c'::('l'::('a'::('s'::('s'::[])))))))))),
    ('b'::('u'::('i'::('l'::('t'::('i'::('n'::('s'::[]))))))))) :: ((('i'::('t'::('e'::('r'::[])))),
    ('b'::('u'::('i'::('l'::('t'::('i'::('n'::('s'::[]))))))))) :: ((('l'::('e'::('n'::[]))),
    ('b'::('u'::('i'::('l'::('t'::('i'::('n'::('s'::[]))))))))) :: ((('l'::('i'::('c'::('e'::('n'::('s'::('e'::[]))))))),
    ('_'::('s'::('i'::('t'::('e'::('b'::('u'::('i'::('l'::('t'::('i'::('n'::('s'::[])))))))))))))) :: ((('l'::('i'::('s'::('t'::[])))),
    ('b'::('u'::('i'::('l'::('t'::('i'::('n'::('s'::[]))))))))) :: ((('l'::('o'::('c'::('a'::('l'::('s'::[])))))),
    ('b'::('u'::('i'::('l'::('t'::('i'::('n'::('s'::[]))))))))) :: ((('m'::('a'::('p'::[]))),
    ('b'::('u'::('i'::('l'::('t'::('i'::('n'::('s'::[]))))))))) :: ((('m'::('a'::('x'::[]))),
    ('b'::('u'::('i'::('l'::('t'::('i'::('n'::('s'::[]))))))))) :: ((('m'::('e'::('m'::('o'::('r'::('y'::('v'::('i'::('e'::('w'::[])))))))))),
    ('b'::('u'::('i'::('l'::('t'::('i'::('n'::('s'::[]))))))))) :: ((('m'::('i'::('n'::[]))),
    ('b'::('u'::('i'::('l'::('t'::('i'::('n'::('s'::[]))))))))) :: ((('n'::('e'::('x'::('t'::[])))),
    ('b'::('u'::('i'::('l'::('t'::('i'::('n'::('s'::[]))))))))) :: ((('o'::('b'::('j'::('e'::('c'::('t'::[])))))),
    ('b'::('u'::('i'::('l'::('t'::('i'::('n'::('s'::[]))))))))) :: ((('o'::('c'::('t'::[]))),
    ('b'::('u'::('i'::('l'::('t'::('i'::('n'::('s'::[]))))))))) :: ((('o'::('p'::('e'::('n'::[])))),
    ('_'::('i'::('o'::[])))) :: ((('o'::('r'::('d'::[]))),
    ('b'::('u'::('i'::('l'::('t'::('i'::('n'::('s'::[]))))))))) :: ((('p'::('o'::('w'::[]))),
    ('b'::('u'::('i'::('l'::('t'::('i'::('n'::('s'::[]))))))))) :: ((('p'::('r'::('i'::('n'::('t'::[]))))),
    ('b'::('u'::('i'::('l'::('t'::('i'::('n'::('s'::[]))))))))) :: ((('p'::('r'::('o'::('p'::('e'::('r'::('t'::('y'::[])))))))),
    ('b'::('u'::('i'::('l'::('t'::('i'::('n'::('s'::[]))))))))) :: ((('q'::('u'::('i'::('t'::[])))),
    ('_'::('s'::('i'::('t'::('e'::('b'::('u'::('i'::('l'::('t'::('i'::('n'::('s'::[])))))))))))))) :: ((('r'::('a'::('n'::('g'::('e'::[]))))),
    ('b'::('u'::('i'::('l'::('t'::('i'::('n'::('s'::[]))))))))) :: ((('r'::('e'::('p'::('r'::[])))),
    ('b'::('u'::('i'::('l'::('t'::('i'::('n'::('s'::[]))))))))) :: ((('r'::('e'::('v'::('e'::('r'::('s'::('e'::('d'::[])))))))),
    ('b'::('u'::('i'::('l'::('t'::('i'::('n'::('s'::[]))))))))) :: ((('r'::('o'::('u'::('n'::('d'::[]))))),
    ('b'::('u'::('i'::('l'::('t'::('i'::('n'::('s'::[]))))))))) :: ((('s'::('e'::('t'::[]))),
    ('b'::('u'::('i'::('l'::('t'::('i'::('n'::('s'::[]))))))))) :: ((('s'::('e'::('t'::('a'::('t'::('t'::('r'::[]))))))),
    ('b'::('u'::('i'::('l'::('t'::('i'::('n'::('s'::[]))))))))) :: ((('s'::('l'::('i'::('c'::('e'::[]))))),
    ('b'::('u'::('i'::('l'::('t'::('i'::('n'::('s'::[]))))))))) :: ((('s'::('o'::('r'::('t'::('e'::('d'::[])))))),
    ('b'::('u'::('i'::('l'::('t'::('i'::('n'::('s'::[]))))))))) :: ((('s'::('t'::('a'::('t'::('i'::('c'::('m'::('e'::('t'::('h'::('o'::('d'::[])))))))))))),
    ('b'::('u'::('i'::('l'::('t'::('i'::('n'::('s'::[]))))))))) :: ((('s'::('t'::('r'::[]))),
    ('b'::('u'::('i'::('l'::('t'::('i'::('n'::('s'::[]))))))))) :: ((('s'::('u'::('m'::[]))),
    ('b'::('u'::('i'::('l'::('t'::('i'::('n'::('s'::[]))))))))) :: ((('s'::('u'::('p'::('e'::('r'::[]))))),
    ('b'::('u'::('i'::('l'::('t'::('i'::('n'::('s'::[]))))))))) :: ((('t'::('u'::('p'::('l'::('e'::[]))))),
    ('b'::('u'::('i'::('l'::('t'::('i'::('n'::('s'::[]))))))))) :: ((('t'::('y'::('p'::('e'::[])))),
    ('b'::('u'::('i'::('l'::('t'::('i'::('n'::('s'::[]))))))))) :: ((('v'::('a'::('r'::('s'::[])))),
    ('b'::('u'::('i'::('l'::('t'::('i'::('n'::('s'::[]))))))))) :: ((('z'::('i'::('p'::[]))),
    ('b'::('u'::('i'::('l'::('t'::('i'::('n'::('s'::[]))))))))) :: []))))))))))))))))))))))))))))))))))))))))))))))))))))))))))))))))))))))))))))))))))))))))))))))))))))))))))))))))))))))))))))))))))))))))))))))))))))))))))))

(** val documented : char list list **)

let documented =
  ('s'::('i'::('n'::[]))) :: (('c'::('o'::('s'::[]))) :: (('t'::('a'::('n'::[]))) :: (('a'::('c'::('o'::('s'::[])))) :: (('a'::('s'::('i'::('n'::[])))) :: (('a'::('t'::('a'::('n'::[])))) :: (('a'::('t'::('a'::('n'::('2'::[]))))) :: (('s'::('i'::('n'::('h'::[])))) :: (('c'::('o'::('s'::('h'::[])))) :: (('t'::('a'::('n'::('h'::[])))) :: (('a'::('s'::('i'::('n'::('h'::[]))))) :: (('a'::('c'::('o'::('s'::('h'::[]))))) :: (('a'::('t'::('a'::('n'::('h'::[]))))) :: (('e'::('x'::('p'::[]))) :: (('l'::('d'::('e'::('x'::('p'::[]))))) :: (('l'::('o'::('g'::[]))) :: (('l'::('n'::[])) :: (('l'::('o'::('g'::('1'::('0'::[]))))) :: (('e'::('x'::('p'::('2'::[])))) :: (('e'::('x'::('p'::('m'::('1'::[]))))) :: (('i'::('l'::('o'::('g'::('b'::[]))))) :: (('l'::('o'::('g'::('1'::('p'::[]))))) :: (('l'::('o'::('g'::('2'::[])))) :: (('s'::('c'::('a'::('l'::('b'::('n'::[])))))) :: (('s'::('c'::('a'::('l'::('b'::('l'::('n'::[]))))))) :: (('p'::('o'::('w'::[]))) :: (('s'::('q'::('r'::('t'::[])))) :: (('c'::('b'::('r'::('t'::[])))) :: (('h'::('y'::('p'::('o'::('t'::[]))))) :: (('e'::('r'::('f'::[]))) :: (('e'::('r'::('f'::('c'::[])))) :: (('t'::('g'::('a'::('m'::('m'::('a'::[])))))) :: (('l'::('g'::('a'::('m'::('m'::('a'::[])))))) :: (('c'::('e'::('i'::('l'::[])))) :: (('f'::('l'::('o'::('o'::('r'::[]))))) :: (('f'::('m'::('o'::('d'::[])))) :: (('t'::('r'::('u'::('n'::('c'::[]))))) :: (('r'::('o'::('u'::('n'::('d'::[]))))) :: (('r'::('i'::('n'::('t'::[])))) :: (('n'::('e'::('a'::('r'::('b'::('y'::('i'::('n'::('t'::[]))))))))) :: (('r'::('e'::('m'::('a'::('i'::('n'::('d'::('e'::('r'::[]))))))))) :: (('r'::('e'::('m'::('q'::('u'::('o'::[])))))) :: (('c'::('o'::('p'::('y'::('s'::('i'::('g'::('n'::[])))))))) :: (('n'::('a'::('n'::[]))) :: (('n'::('e'::('x'::('t'::('a'::('f'::('t'::('e'::('r'::[]))))))))) :: (('n'::('e'::('x'::('t'::('t'::('o'::('w'::('a'::('r'::('d'::[])))))))))) :: (('f'::('d'::('i'::('m'::[])))) :: (('f'::('m'::('a'::('x'::[])))) :: (('f'::('m'::('i'::('n'::[])))) :: (('f'::('a'::('b'::('s'::[])))) :: (('a'::('b'::('s'::[]))) :: (('f'::('m'::('a'::[]))) :: [])))))))))))))))))))))))))))))))))))))))))))))))))))

(** val math_env : menv **)

let math_env =
  { e_rows = math_rows; e_module = module_names; e_builtins = builtin_names }

type wpart =
| WLit of char list
| WVar of bool * char list

type word = wpart list

type test =
| TFileF of word
| TFileE of word
| TFileD of word
| TStrZ of word
| TEq of word * word
| TNe of word * word
| TPrefix of word * char list
| TArgsLeft

type cmd =
| CAssign of char list * word
| CScriptDir of char list
| CPwdTo of char list
| CSetE
| CSetX
| CShiftOpt
| CExit of nat
| CEcho of word list * word option
| CCd of word
| CSource of word
| CExport of char list * word
| CEval of char list * char list * cmd
| CHeredoc of word * char list
| CRun of word list
| CIf of branches * cmds
| CGetopts of char list * char list * arms
and cmds =
| CNil
| CCons of cmd * cmds
and branches =
| BNil
| BCons of test * cmds * branches
and arms =
| ANil
| ACons of char list * cmds * arms

(** val capp : cmds -> cmds -> cmds **)

let rec capp a b =
  match a with
  | CNil -> b
  | CCons (c, r) -> CCons (c, (capp r b))

(** val prefix_strip : char list -> char list -> char list option **)

let rec prefix_strip p s =
  match p with
  | [] -> Some s
  | a::p' ->
    (match s with
     | [] -> None
     | b::s' -> if (=) a b then prefix_strip p' s' else None)

(** val split_sub :
    char list -> char list -> (char list * char list) option **)

let rec split_sub sep s =
  match prefix_strip sep s with
  | Some r -> Some ([], r)
  | None ->
    (match s with
     | [] -> None
     | c::s' ->
       (match split_sub sep s' with
        | Some p -> let (a, b) = p in Some ((c::a), b)
        | None -> None))

(** val strip_suffix : char list -> char list -> char list option **)

let rec strip_suffix suf s =
  if eqb0 s suf
  then Some []
  else (match s with
        | [] -> None
        | c::r -> option_map (fun x -> c::x) (strip_suffix suf r))

(** val ends_slash : char list -> bool **)

let rec ends_slash = function
| [] -> false
| c::r -> (match r with
           | [] -> (=) c '/'
           | _::_ -> ends_slash r)

(** val starts_slash : char list -> bool **)

let starts_slash = function
| [] -> false
| c::_ -> (=) c '/'

(** val has_slash : char list -> bool **)

let rec has_slash = function
| [] -> false
| c::r -> if (=) c '/' then true else has_slash r

type path = char list list

(** val split_slash : char list -> char list list **)

let rec split_slash = function
| [] -> [] :: []
| c::r ->
  let l = split_slash r in
  if (=) c '/'
  then [] :: l
  else (match l with
        | [] -> (c::[]) :: []
        | h :: t -> (c::h) :: t)

(** val norm_step : path -> char list -> path **)

let norm_step acc comp =
  if eqb0 comp []
  then acc
  else if eqb0 comp ('.'::[])
       then acc
       else if eqb0 comp ('.'::('.'::[]))
            then removelast acc
            else app acc (comp :: [])

(** val resolve0 : path -> char list -> path option **)

let resolve0 cwd0 s =
  if eqb0 s []
  then None
  else Some
         (fold_left norm_step (split_slash s)
           (if starts_slash s then [] else cwd0))

(** val path_str : path -> char list **)

let path_str p = match p with
| [] -> '/'::[]
| _ :: _ -> concat_str (map (fun c -> append ('/'::[]) c) p)

(** val basename : path -> char list **)

let basename p =
  last p []

(** val is_prefix : path -> path -> bool **)

let rec is_prefix p q =
  match p with
  | [] -> true
  | a :: p' ->
    (match q with
     | [] -> false
     | b :: q' -> (&&) (eqb0 a b) (is_prefix p' q'))

type node =
| Dir
| File of char list

type fs = (path * node option) list

(** val fs_lookup : fs -> path -> node option **)

let rec fs_lookup f p =
  match f with
  | [] -> None
  | p0 :: r ->
    let (k, v) = p0 in if list_str_eqb k p then v else fs_lookup r p

(** val fs_get : fs -> path -> node option **)

let fs_get f p = match p with
| [] -> Some Dir
| _ :: _ -> fs_lookup f p

(** val fs_set : fs -> path -> node option -> fs **)

let rec fs_set f p v =
  match f with
  | [] -> (p, v) :: []
  | p0 :: r ->
    let (k, w) = p0 in
    if list_str_eqb k p then (k, v) :: r else (k, w) :: (fs_set r p v)

(** val fs_rm_tree : fs -> path -> fs **)

let fs_rm_tree f p =
  map (fun kv -> if is_prefix p (fst kv) then ((fst kv), None) else kv) f

(** val is_dir : fs -> path -> bool **)

let is_dir f p =
  match fs_get f p with
  | Some n0 -> (match n0 with
                | Dir -> true
                | File _ -> false)
  | None -> false

(** val is_file : fs -> path -> bool **)

let is_file f p =
  match fs_get f p with
  | Some n0 -> (match n0 with
                | Dir -> false
                | File _ -> true)
  | None -> false

(** val exists_ : fs -> path -> bool **)

let exists_ f p =
  match fs_get f p with
  | Some _ -> true
  | None -> false

(** val file_content : fs -> path -> char list option **)

let file_content f p =
  match fs_get f p with
  | Some n0 -> (match n0 with
                | Dir -> None
                | File c -> Some c)
  | None -> None

(** val write_file : fs -> path -> char list -> fs option **)

let write_file f p c =
  match p with
  | [] -> None
  | _ :: _ ->
    if is_dir f p
    then None
    else if is_dir f (removelast p)
         then Some (fs_set f p (Some (File c)))
         else None

(** val mkdir_at : fs -> path -> fs option **)

let mkdir_at f p =
  if exists_ f p
  then None
  else if is_dir f (removelast p) then Some (fs_set f p (Some Dir)) else None

type state = { vars : (char list * char list) list;
               exported : char list list; cwd : path; fsys : fs;
               pos : char list list; optind : nat; errexit : bool;
               last0 : nat; steps : nat; tlog : char list list list;
               unmodelled : bool; scriptdir : path }

(** val upd_vars : state -> (char list * char list) list -> state **)

let upd_vars st v =
  { vars = v; exported = st.exported; cwd = st.cwd; fsys = st.fsys; pos =
    st.pos; optind = st.optind; errexit = st.errexit; last0 = st.last0;
    steps = st.steps; tlog = st.tlog; unmodelled = st.unmodelled; scriptdir =
    st.scriptdir }

(** val upd_exported : state -> char list list -> state **)

let upd_exported st v =
  { vars = st.vars; exported = v; cwd = st.cwd; fsys = st.fsys; pos = st.pos;
    optind = st.optind; errexit = st.errexit; last0 = st.last0; steps =
    st.steps; tlog = st.tlog; unmodelled = st.unmodelled; scriptdir =
    st.scriptdir }

(** val upd_cwd : state -> path -> state **)

let upd_cwd st v =
  { vars = st.vars; exported = st.exported; cwd = v; fsys = st.fsys; pos =
    st.pos; optind = st.optind; errexit = st.errexit; last0 = st.last0;
    steps = st.steps; tlog = st.tlog; unmodelled = st.unmodelled; scriptdir =
    st.scriptdir }

(** val upd_fs : state -> fs -> state **)

let upd_fs st v =
  { vars = st.vars; exported = st.exported; cwd = st.cwd; fsys = v; pos =
    st.pos; optind = st.optind; errexit = st.errexit; last0 = st.last0;
    steps = st.steps; tlog = st.tlog; unmodelled = st.unmodelled; scriptdir =
    st.scriptdir }

(** val upd_pos : state -> char list list -> state **)

let upd_pos st v =
  { vars = st.vars; exported = st.exported; cwd = st.cwd; fsys = st.fsys;
    pos = v; optind = st.optind; errexit = st.errexit; last0 = st.last0;
    steps = st.steps; tlog = st.tlog; unmodelled = st.unmodelled; scriptdir =
    st.scriptdir }

(** val upd_optind : state -> nat -> state **)

let upd_optind st v =
  { vars = st.vars; exported = st.exported; cwd = st.cwd; fsys = st.fsys;
    pos = st.pos; optind = v; errexit = st.errexit; last0 = st.last0; steps =
    st.steps; tlog = st.tlog; unmodelled = st.unmodelled; scriptdir =
    st.scriptdir }

(** val upd_errexit : state -> bool -> state **)

let upd_errexit st v =
  { vars = st.vars; exported = st.exported; cwd = st.cwd; fsys = st.fsys;
    pos = st.pos; optind = st.optind; errexit = v; last0 = st.last0; steps =
    st.steps; tlog = st.tlog; unmodelled = st.unmodelled; scriptdir =
    st.scriptdir }

(** val upd_last : state -> nat -> state **)

let upd_last st v =
  { vars = st.vars; exported = st.exported; cwd = st.cwd; fsys = st.fsys;
    pos = st.pos; optind = st.optind; errexit = st.errexit; last0 = v;
    steps = st.steps; tlog = st.tlog; unmodelled = st.unmodelled; scriptdir =
    st.scriptdir }

(** val mark_unmodelled : state -> state **)

let mark_unmodelled st =
  { vars = st.vars; exported = st.exported; cwd = st.cwd; fsys = st.fsys;
    pos = st.pos; optind = st.optind; errexit = st.errexit; last0 = st.last0;
    steps = st.steps; tlog = st.tlog; unmodelled = true; scriptdir =
    st.scriptdir }

(** val take_step : state -> char list list -> state **)

let take_step st entry0 =
  { vars = st.vars; exported = st.exported; cwd = st.cwd; fsys = st.fsys;
    pos = st.pos; optind = st.optind; errexit = st.errexit; last0 = st.last0;
    steps = (S st.steps); tlog =
    (app st.tlog (((path_str st.cwd) :: entry0) :: [])); unmodelled =
    st.unmodelled; scriptdir = st.scriptdir }

(** val assoc_get :
    (char list * char list) list -> char list -> char list option **)

let rec assoc_get l k =
  match l with
  | [] -> None
  | p :: r -> let (a, b) = p in if eqb0 a k then Some b else assoc_get r k

(** val assoc_set :
    (char list * char list) list -> char list -> char list ->
    (char list * char list) list **)

let rec assoc_set l k v =
  match l with
  | [] -> (k, v) :: []
  | p :: r ->
    let (a, b) = p in
    if eqb0 a k then (a, v) :: r else (a, b) :: (assoc_set r k v)

(** val set_var : state -> char list -> char list -> state **)

let set_var st k v =
  upd_vars st (assoc_set st.vars k v)

(** val get_var : state -> char list -> char list **)

let get_var st k =
  if eqb0 k ('#'::[])
  then dec_nat (length st.pos)
  else if eqb0 k ('@'::[])
       then join_str (' '::[]) st.pos
       else if eqb0 k ('1'::[])
            then nth O st.pos []
            else (match assoc_get st.vars k with
                  | Some v -> v
                  | None -> [])

(** val get_env : state -> char list -> char list **)

let get_env st k =
  if mem_str k st.exported then get_var st k else []

(** val expand_part : state -> wpart -> char list * bool **)

let expand_part st = function
| WLit s -> (s, true)
| WVar (q, v) -> ((get_var st v), q)

(** val expand_str : state -> word -> char list **)

let expand_str st w =
  join_str [] (map (fun p -> fst (expand_part st p)) w)

(** val expand_word : state -> word -> char list list **)

let expand_word st w =
  if existsb (fun p -> snd (expand_part st p)) w
  then (expand_str st w) :: []
  else (match expand_str st w with
        | [] -> []
        | a::s0 -> (a::s0) :: [])

(** val expand_words : state -> word list -> char list list **)

let expand_words st ws =
  flat_map (expand_word st) ws

(** val one_path : state -> word -> path option option **)

let one_path st w =
  match expand_word st w with
  | [] -> None
  | s :: l -> (match l with
               | [] -> Some (resolve0 st.cwd s)
               | _ :: _ -> None)

(** val eval_test : state -> test -> bool option **)

let eval_test st t =
  let file_test = fun w k ->
    match one_path st w with
    | Some o ->
      (match o with
       | Some p -> Some (k st.fsys p)
       | None -> Some false)
    | None -> None
  in
  (match t with
   | TFileF w -> file_test w is_file
   | TFileE w -> file_test w exists_
   | TFileD w -> file_test w is_dir
   | TStrZ w ->
     (match expand_word st w with
      | [] -> Some true
      | s :: l -> (match l with
                   | [] -> Some (eqb0 s [])
                   | _ :: _ -> None))
   | TEq (a, b) ->
     (match expand_word st a with
      | [] -> None
      | x :: l ->
        (match l with
         | [] ->
           (match expand_word st b with
            | [] -> None
            | y :: l0 ->
              (match l0 with
               | [] -> Some (eqb0 x y)
               | _ :: _ -> None))
         | _ :: _ -> None))
   | TNe (a, b) ->
     (match expand_word st a with
      | [] -> None
      | x :: l ->
        (match l with
         | [] ->
           (match expand_word st b with
            | [] -> None
            | y :: l0 ->
              (match l0 with
               | [] -> Some (negb (eqb0 x y))
               | _ :: _ -> None))
         | _ :: _ -> None))
   | TPrefix (a, p) ->
     Some
       (match prefix_strip p (expand_str st a) with
        | Some _ -> true
        | None -> false)
   | TArgsLeft -> Some (match st.pos with
                        | [] -> false
                        | _ :: _ -> true))

type gev =
| GOpt of char list * char list
| GBad

(** val opt_kind : char list -> char -> bool option **)

let rec opt_kind os c =
  match os with
  | [] -> None
  | a::r ->
    if (=) a c
    then if (=) c ':'
         then None
         else Some (match r with
                    | [] -> false
                    | b::_ -> (=) b ':')
    else opt_kind r c

(** val scan_chars : char list -> char list -> gev list * char list option **)

let rec scan_chars os = function
| [] -> ([], None)
| c::r ->
  (match opt_kind os c with
   | Some b ->
     if b
     then (match r with
           | [] -> ([], (Some (c::[])))
           | _::_ -> (((GOpt ((c::[]), r)) :: []), None))
     else let (e, p) = scan_chars os r in (((GOpt ((c::[]), [])) :: e), p)
   | None -> let (e, p) = scan_chars os r in ((GBad :: e), p))

(** val getopts_events : char list -> char list list -> gev list * nat **)

let rec getopts_events os = function
| [] -> ([], O)
| w :: rest ->
  (match w with
   | [] -> ([], O)
   | a::cs ->
     (* If this appears, you're using Ascii internals. Please don't *)
 (fun f c ->
  let n = Char.code c in
  let h i = (n land (1 lsl i)) <> 0 in
  f (h 0) (h 1) (h 2) (h 3) (h 4) (h 5) (h 6) (h 7))
       (fun b b0 b1 b2 b3 b4 b5 b6 ->
       if b
       then if b0
            then ([], O)
            else if b1
                 then if b2
                      then if b3
                           then ([], O)
                           else if b4
                                then if b5
                                     then ([], O)
                                     else if b6
                                          then ([], O)
                                          else (match cs with
                                                | [] -> ([], O)
                                                | a0::s ->
                                                  (* If this appears, you're using Ascii internals. Please don't *)
 (fun f c ->
  let n = Char.code c in
  let h i = (n land (1 lsl i)) <> 0 in
  f (h 0) (h 1) (h 2) (h 3) (h 4) (h 5) (h 6) (h 7))
                                                    (fun b7 b8 b9 b10 b11 b12 b13 b14 ->
                                                    if b7
                                                    then if b8
                                                         then let (evs, pend) =
                                                                scan_chars os
                                                                  cs
                                                              in
                                                              (match pend with
                                                               | Some c ->
                                                                 (match rest with
                                                                  | [] ->
                                                                    ((app evs
                                                                    (GBad :: [])),
                                                                    (S O))
                                                                  | a1 :: rest' ->
                                                                    let (
                                                                    e2, n0) =
                                                                    getopts_events
                                                                    os rest'
                                                                    in
                                                                    (
                                                                    (app evs
                                                                    ((GOpt
                                                                    (c,
                                                                    a1)) :: e2)),
                                                                    (S (S
                                                                    n0))))
                                                               | None ->
                                                                 let (
                                                                   e2, n0) =
                                                                   getopts_events
                                                                    os rest
                                                                 in
                                                                 ((app evs e2),
                                                                 (S n0)))
                                                         else if b9
                                                              then if b10
                                                                   then 
                                                                    if b11
                                                                    then 
                                                                    let (
                                                                    evs, pend) =
                                                                    scan_chars
                                                                    os cs
                                                                    in
                                                                    (
                                                                    match pend with
                                                                    | Some c ->
                                                                    (match rest with
                                                                    | [] ->
                                                                    ((app evs
                                                                    (GBad :: [])),
                                                                    (S O))
                                                                    | a1 :: rest' ->
                                                                    let (
                                                                    e2, n0) =
                                                                    getopts_events
                                                                    os rest'
                                                                    in
                                                                    (
                                                                    (app evs
                                                                    ((GOpt
                                                                    (c,
                                                                    a1)) :: e2)),
                                                                    (S (S
                                                                    n0))))
                                                                    | None ->
                                                                    let (
                                                                    e2, n0) =
                                                                    getopts_events
                                                                    os rest
                                                                    in
                                                                    (
                                                                    (app evs
                                                                    e2), (S
                                                                    n0)))
                                                                    else 
                                                                    if b12
                                                                    then 
                                                                    if b13
                                                                    then 
                                                                    let (
                                                                    evs, pend) =
                                                                    scan_chars
                                                                    os cs
                                                                    in
                                                                    (
                                                                    match pend with
                                                                    | Some c ->
                                                                    (match rest with
                                                                    | [] ->
                                                                    ((app evs
                                                                    (GBad :: [])),
                                                                    (S O))
                                                                    | a1 :: rest' ->
                                                                    let (
                                                                    e2, n0) =
                                                                    getopts_events
                                                                    os rest'
                                                                    in
                                                                    (
                                                                    (app evs
                                                                    ((GOpt
                                                                    (c,
                                                                    a1)) :: e2)),
                                                                    (S (S
                                                                    n0))))
                                                                    | None ->
                                                                    let (
                                                                    e2, n0) =
                                                                    getopts_events
                                                                    os rest
                                                                    in
                                                                    (
                                                                    (app evs
                                                                    e2), (S
                                                                    n0)))
                                                                    else 
                                                                    if b14
                                                                    then 
                                                                    let (
                                                                    evs, pend) =
                                                                    scan_chars
                                                                    os cs
                                                                    in
                                                                    (
                                                                    match pend with
                                                                    | Some c ->
                                                                    (match rest with
                                                                    | [] ->
                                                                    ((app evs
                                                                    (GBad :: [])),
                                                                    (S O))
                                                                    | a1 :: rest' ->
                                                                    let (
                                                                    e2, n0) =
                                                                    getopts_events
                                                                    os rest'
                                                                    in
                                                                    (
                                                                    (app evs
                                                                    ((GOpt
                                                                    (c,
                                                                    a1)) :: e2)),
                                                                    (S (S
                                                                    n0))))
                                                                    | None ->
                                                                    let (
                                                                    e2, n0) =
                                                                    getopts_events
                                                                    os rest
                                                                    in
                                                                    (
                                                                    (app evs
                                                                    e2), (S
                                                                    n0)))
                                                                    else 
                                                                    (match s with
                                                                    | [] ->
                                                                    ([], (S
                                                                    O))
                                                                    | _::_ ->
                                                                    let (
                                                                    evs, pend) =
                                                                    scan_chars
                                                                    os cs
                                                                    in
                                                                    (
                                                                    match pend with
                                                                    | Some c ->
                                                                    (match rest with
                                                                    | [] ->
                                                                    ((app evs
                                                                    (GBad :: [])),
                                                                    (S O))
                                                                    | a1 :: rest' ->
                                                                    let (
                                                                    e2, n0) =
                                                                    getopts_events
                                                                    os rest'
                                                                    in
                                                                    (
                                                                    (app evs
                                                                    ((GOpt
                                                                    (c,
                                                                    a1)) :: e2)),
                                                                    (S (S
                                                                    n0))))
                                                                    | None ->
                                                                    let (
                                                                    e2, n0) =
                                                                    getopts_events
                                                                    os rest
                                                                    in
                                                                    (
                                                                    (app evs
                                                                    e2), (S
                                                                    n0))))
                                                                    else 
                                                                    let (
                                                                    evs, pend) =
                                                                    scan_chars
                                                                    os cs
                                                                    in
                                                                    (
                                                                    match pend with
                                                                    | Some c ->
                                                                    (match rest with
                                                                    | [] ->
                                                                    ((app evs
                                                                    (GBad :: [])),
                                                                    (S O))
                                                                    | a1 :: rest' ->
                                                                    let (
                                                                    e2, n0) =
                                                                    getopts_events
                                                                    os rest'
                                                                    in
                                                                    (
                                                                    (app evs
                                                                    ((GOpt
                                                                    (c,
                                                                    a1)) :: e2)),
                                                                    (S (S
                                                                    n0))))
                                                                    | None ->
                                                                    let (
                                                                    e2, n0) =
                                                                    getopts_events
                                                                    os rest
                                                                    in
                                                                    (
                                                                    (app evs
                                                                    e2), (S
                                                                    n0)))
                                                                   else 
                                                                    let (
                                                                    evs, pend) =
                                                                    scan_chars
                                                                    os cs
                                                                    in
                                                                    (
                                                                    match pend with
                                                                    | Some c ->
                                                                    (match rest with
                                                                    | [] ->
                                                                    ((app evs
                                                                    (GBad :: [])),
                                                                    (S O))
                                                                    | a1 :: rest' ->
                                                                    let (
                                                                    e2, n0) =
                                                                    getopts_events
                                                                    os rest'
                                                                    in
                                                                    (
                                                                    (app evs
                                                                    ((GOpt
                                                                    (c,
                                                                    a1)) :: e2)),
                                                                    (S (S
                                                                    n0))))
                                                                    | None ->
                                                                    let (
                                                                    e2, n0) =
                                                                    getopts_events
                                                                    os rest
                                                                    in
                                                                    (
                                                                    (app evs
                                                                    e2), (S
                                                                    n0)))
                                                              else let (
                                                                    evs, pend) =
                                                                    scan_chars
                                                                    os cs
                                                                   in
                                                                   (match pend with
                                                                    | Some c ->
                                                                    (match rest with
                                                                    | [] ->
                                                                    ((app evs
                                                                    (GBad :: [])),
                                                                    (S O))
                                                                    | a1 :: rest' ->
                                                                    let (
                                                                    e2, n0) =
                                                                    getopts_events
                                                                    os rest'
                                                                    in
                                                                    (
                                                                    (app evs
                                                                    ((GOpt
                                                                    (c,
                                                                    a1)) :: e2)),
                                                                    (S (S
                                                                    n0))))
                                                                    | None ->
                                                                    let (
                                                                    e2, n0) =
                                                                    getopts_events
                                                                    os rest
                                                                    in
                                                                    (
                                                                    (app evs
                                                                    e2), (S
                                                                    n0)))
                                                    else let (evs, pend) =
                                                           scan_chars os cs
                                                         in
                                                         (match pend with
                                                          | Some c ->
                                                            (match rest with
                                                             | [] ->
                                                               ((app evs
                                                                  (GBad :: [])),
                                                                 (S O))
                                                             | a1 :: rest' ->
                                                               let (e2, n0) =
                                                                 getopts_events
                                                                   os rest'
                                                               in
                                                               ((app evs
                                                                  ((GOpt (c,
                                                                  a1)) :: e2)),
                                                               (S (S n0))))
                                                          | None ->
                                                            let (e2, n0) =
                                                              getopts_events
                                                                os rest
                                                            in
                                                            ((app evs e2), (S
                                                            n0))))
                                                    a0)
                                else ([], O)
                      else ([], O)
                 else ([], O)
       else ([], O))
       a)

(** val pat_match : char list -> char list -> bool **)

let pat_match p c =
  if eqb0 p ('?'::[])
  then (match c with
        | [] -> false
        | _::s -> (match s with
                   | [] -> true
                   | _::_ -> false))
  else eqb0 p c

(** val sourced_release : char list **)

let sourced_release =
  '.'::(' '::('/'::('s'::('t'::('u'::('b'::('s'::('/'::('s'::('r'::('c'::('_'::('r'::('e'::('l'::('e'::('a'::('s'::('e'::('.'::('s'::('h'::('\n'::[])))))))))))))))))))))))

(** val sourced_setup : char list **)

let sourced_setup =
  '.'::(' '::('/'::('s'::('t'::('u'::('b'::('s'::('/'::('s'::('r'::('c'::('_'::('s'::('e'::('t'::('u'::('p'::('.'::('s'::('h'::('\n'::[])))))))))))))))))))))

(** val sourced_entry : char list **)

let sourced_entry =
  '.'::(' '::('/'::('s'::('t'::('u'::('b'::('s'::('/'::('s'::('r'::('c'::('_'::('e'::('n'::('t'::('r'::('y'::('.'::('s'::('h'::('\n'::[])))))))))))))))))))))

(** val nl : char list **)

let nl =
  '\n'::[]

(** val job_output : char list -> char list -> char list **)

let job_output nonce input =
  append ('O'::('U'::('T'::(' '::[])))) (append nonce (append nl input))

(** val converted : char list -> char list **)

let converted c =
  append ('R'::('O'::('O'::('T'::(' '::[]))))) c

(** val opt_or : 'a1 option -> 'a1 -> 'a1 **)

let opt_or o d =
  match o with
  | Some a -> a
  | None -> d

type outcome =
| Cont of state
| Exit of nat * state

(** val finish : state -> nat -> outcome **)

let finish st status =
  let st' = upd_last st status in
  (match status with
   | O -> Cont st'
   | S _ -> if st.errexit then Exit (status, st') else Cont st')

(** val unmod : state -> outcome **)

let unmod st =
  Exit ((S (S (S (S (S (S (S (S (S (S (S (S (S (S (S (S (S (S (S (S (S (S (S
    (S (S (S (S (S (S (S (S (S (S (S (S (S (S (S (S (S (S (S (S (S (S (S (S
    (S (S (S (S (S (S (S (S (S (S (S (S (S (S (S (S (S (S (S (S (S (S (S (S
    (S (S (S (S (S (S (S (S (S (S (S (S (S (S (S (S (S (S (S (S (S (S (S (S
    (S (S (S (S (S (S (S (S (S (S (S (S (S (S (S (S (S (S (S (S (S (S (S (S
    (S (S (S (S (S (S (S (S (S (S (S (S (S (S (S (S (S (S (S (S (S (S (S (S
    (S (S (S (S (S (S (S (S (S (S (S (S (S (S (S (S (S (S (S (S (S (S (S (S
    (S (S (S (S (S (S (S (S (S (S (S (S (S (S (S (S (S (S (S (S (S (S (S (S
    (S (S (S (S (S (S (S (S (S (S (S (S (S (S (S (S (S (S (S (S (S (S (S (S
    (S (S (S (S (S (S (S (S (S (S (S (S (S (S (S (S (S (S (S (S (S (S (S (S
    (S (S (S (S (S (S (S (S (S (S (S (S (S (S (S (S
    O))))))))))))))))))))))))))))))))))))))))))))))))))))))))))))))))))))))))))))))))))))))))))))))))))))))))))))))))))))))))))))))))))))))))))))))))))))))))))))))))))))))))))))))))))))))))))))))))))))))))))))))))))))))))))))))))))))))))))))))))))))))))))))))),
    (mark_unmodelled st))

(** val res : state -> char list -> path option **)

let res st p =
  resolve0 st.cwd p

(** val cp_effect : state -> char list -> char list -> fs option **)

let cp_effect st a b =
  match res st a with
  | Some src ->
    (match res st b with
     | Some dst ->
       (match file_content st.fsys src with
        | Some c ->
          let target =
            if is_dir st.fsys dst
            then Some (app dst ((basename src) :: []))
            else if ends_slash b then None else Some dst
          in
          (match target with
           | Some t ->
             if list_str_eqb t src then None else write_file st.fsys t c
           | None -> None)
        | None -> None)
     | None -> None)
  | None -> None

(** val is_file_s : state -> char list -> bool **)

let is_file_s st p =
  match res st p with
  | Some q -> is_file st.fsys q
  | None -> false

(** val is_dir_s : state -> char list -> bool **)

let is_dir_s st p =
  match res st p with
  | Some q -> is_dir st.fsys q
  | None -> false

(** val exists_s : state -> char list -> bool **)

let exists_s st p =
  match res st p with
  | Some q -> exists_ st.fsys q
  | None -> false

(** val content_s : state -> char list -> char list **)

let content_s st p =
  match res st p with
  | Some q -> opt_or (file_content st.fsys q) []
  | None -> []

(** val write_s : state -> fs -> char list -> char list -> fs option **)

let write_s st f p c =
  match res st p with
  | Some q -> write_file f q c
  | None -> None

(** val mkdir_s : state -> fs -> char list -> fs option **)

let mkdir_s st f p =
  match res st p with
  | Some q -> mkdir_at f q
  | None -> None

(** val obind : 'a1 option -> ('a1 -> 'a2 option) -> 'a2 option **)

let obind o f =
  match o with
  | Some a -> f a
  | None -> None

type tool_res =
| TOk of fs
| TFail
| TUnmodelled

(** val of_opt : fs option -> tool_res **)

let of_opt = function
| Some f -> TOk f
| None -> TFail

(** val known_tools : char list list **)

let known_tools =
  ('m'::('k'::('d'::('i'::('r'::[]))))) :: (('c'::('p'::[])) :: (('c'::('h'::('m'::('o'::('d'::[]))))) :: (('r'::('m'::[])) :: (('c'::('m'::('a'::('k'::('e'::[]))))) :: (('m'::('a'::('k'::('e'::[])))) :: (('p'::('y'::('t'::('h'::('o'::('n'::[])))))) :: (('s'::('u'::('d'::('o'::[])))) :: (('m'::('k'::('e'::('d'::('a'::('n'::('l'::('z'::('r'::[]))))))))) :: (('s'::('c'::('r'::('a'::('m'::[]))))) :: (('c'::('m'::('s'::('R'::('u'::('n'::[])))))) :: (('r'::('o'::('o'::('t'::[])))) :: (('x'::('r'::('d'::('c'::('p'::[]))))) :: []))))))))))))

(** val tool_effect :
    char list -> state -> char list -> char list list -> tool_res **)

let tool_effect nonce st name args =
  let f = st.fsys in
  if eqb0 name ('m'::('k'::('d'::('i'::('r'::[])))))
  then (match args with
        | [] -> TUnmodelled
        | d :: l ->
          (match l with
           | [] ->
             (match prefix_strip ('-'::[]) d with
              | Some _ -> TUnmodelled
              | None -> of_opt (mkdir_s st f d))
           | _ :: _ -> TUnmodelled))
  else if eqb0 name ('c'::('p'::[]))
       then (match args with
             | [] -> TUnmodelled
             | a :: l ->
               (match l with
                | [] -> TFail
                | b :: l0 ->
                  (match l0 with
                   | [] ->
                     (match prefix_strip ('-'::[]) a with
                      | Some _ -> TUnmodelled
                      | None -> of_opt (cp_effect st a b))
                   | _ :: _ -> TUnmodelled)))
       else if eqb0 name ('c'::('h'::('m'::('o'::('d'::[])))))
            then (match args with
                  | [] -> TUnmodelled
                  | _ :: l ->
                    (match l with
                     | [] -> TUnmodelled
                     | p :: l0 ->
                       (match l0 with
                        | [] -> if exists_s st p then TOk f else TFail
                        | _ :: _ -> TUnmodelled)))
            else if eqb0 name ('r'::('m'::[]))
                 then (match args with
                       | [] -> TUnmodelled
                       | s :: l ->
                         (match s with
                          | [] -> TUnmodelled
                          | a::s0 ->
                            (* If this appears, you're using Ascii internals. Please don't *)
 (fun f c ->
  let n = Char.code c in
  let h i = (n land (1 lsl i)) <> 0 in
  f (h 0) (h 1) (h 2) (h 3) (h 4) (h 5) (h 6) (h 7))
                              (fun b b0 b1 b2 b3 b4 b5 b6 ->
                              if b
                              then if b0
                                   then TUnmodelled
                                   else if b1
                                        then if b2
                                             then if b3
                                                  then TUnmodelled
                                                  else if b4
                                                       then if b5
                                                            then TUnmodelled
                                                            else if b6
                                                                 then 
                                                                   TUnmodelled
                                                                 else 
                                                                   (match s0 with
                                                                    | [] ->
                                                                    TUnmodelled
                                                                    | a0::s1 ->
                                                                    (* If this appears, you're using Ascii internals. Please don't *)
 (fun f c ->
  let n = Char.code c in
  let h i = (n land (1 lsl i)) <> 0 in
  f (h 0) (h 1) (h 2) (h 3) (h 4) (h 5) (h 6) (h 7))
                                                                    (fun b7 b8 b9 b10 b11 b12 b13 b14 ->
                                                                    if b7
                                                                    then 
                                                                    TUnmodelled
                                                                    else 
                                                                    if b8
                                                                    then 
                                                                    if b9
                                                                    then 
                                                                    TUnmodelled
                                                                    else 
                                                                    if b10
                                                                    then 
                                                                    TUnmodelled
                                                                    else 
                                                                    if b11
                                                                    then 
                                                                    if b12
                                                                    then 
                                                                    if b13
                                                                    then 
                                                                    if b14
                                                                    then 
                                                                    TUnmodelled
                                                                    else 
                                                                    (match s1 with
                                                                    | [] ->
                                                                    TUnmodelled
                                                                    | a1::s2 ->
                                                                    (* If this appears, you're using Ascii internals. Please don't *)
 (fun f c ->
  let n = Char.code c in
  let h i = (n land (1 lsl i)) <> 0 in
  f (h 0) (h 1) (h 2) (h 3) (h 4) (h 5) (h 6) (h 7))
                                                                    (fun b15 b16 b17 b18 b19 b20 b21 b22 ->
                                                                    if b15
                                                                    then 
                                                                    TUnmodelled
                                                                    else 
                                                                    if b16
                                                                    then 
                                                                    if b17
                                                                    then 
                                                                    if b18
                                                                    then 
                                                                    TUnmodelled
                                                                    else 
                                                                    if b19
                                                                    then 
                                                                    TUnmodelled
                                                                    else 
                                                                    if b20
                                                                    then 
                                                                    if b21
                                                                    then 
                                                                    if b22
                                                                    then 
                                                                    TUnmodelled
                                                                    else 
                                                                    (match s2 with
                                                                    | [] ->
                                                                    (match l with
                                                                    | [] ->
                                                                    TUnmodelled
                                                                    | d :: l0 ->
                                                                    (match l0 with
                                                                    | [] ->
                                                                    (match 
                                                                    res st d with
                                                                    | Some q ->
                                                                    TOk
                                                                    (fs_rm_tree
                                                                    f q)
                                                                    | None ->
                                                                    TOk f)
                                                                    | _ :: _ ->
                                                                    TUnmodelled))
                                                                    | _::_ ->
                                                                    TUnmodelled)
                                                                    else 
                                                                    TUnmodelled
                                                                    else 
                                                                    TUnmodelled
                                                                    else 
                                                                    TUnmodelled
                                                                    else 
                                                                    TUnmodelled)
                                                                    a1)
                                                                    else 
                                                                    TUnmodelled
                                                                    else 
                                                                    TUnmodelled
                                                                    else 
                                                                    TUnmodelled
                                                                    else 
                                                                    TUnmodelled)
                                                                    a0)
                                                       else TUnmodelled
                                             else TUnmodelled
                                        else TUnmodelled
                              else TUnmodelled)
                              a))
                 else if eqb0 name ('c'::('m'::('a'::('k'::('e'::[])))))
                      then (match args with
                            | [] -> TFail
                            | src :: l ->
                              (match l with
                               | [] ->
                                 if is_file_s st
                                      (append src
                                        ('/'::('C'::('M'::('a'::('k'::('e'::('L'::('i'::('s'::('t'::('s'::('.'::('t'::('x'::('t'::[]))))))))))))))))
                                 then of_opt
                                        (obind
                                          (if is_dir_s st
                                                ('x'::('8'::('6'::('_'::('6'::('4'::[]))))))
                                           then Some f
                                           else mkdir_s st f
                                                  ('x'::('8'::('6'::('_'::('6'::('4'::[])))))))
                                          (fun f1 ->
                                          obind
                                            (write_s st f1
                                              ('x'::('8'::('6'::('_'::('6'::('4'::('/'::('s'::('e'::('t'::('u'::('p'::('.'::('s'::('h'::[])))))))))))))))
                                              sourced_setup) (fun f2 ->
                                            write_s st f2
                                              ('M'::('a'::('k'::('e'::('f'::('i'::('l'::('e'::[]))))))))
                                              (append
                                                ('G'::('E'::('N'::(' '::('c'::('m'::('a'::('k'::('e'::[])))))))))
                                                nl))))
                                 else TFail
                               | _ :: _ -> TFail))
                      else if eqb0 name ('m'::('a'::('k'::('e'::[]))))
                           then (match args with
                                 | [] ->
                                   if is_file_s st
                                        ('M'::('a'::('k'::('e'::('f'::('i'::('l'::('e'::[]))))))))
                                   then of_opt
                                          (write_s st f
                                            ('b'::('u'::('i'::('l'::('t'::[])))))
                                            (append
                                              ('G'::('E'::('N'::(' '::('b'::('u'::('i'::('l'::('d'::[])))))))))
                                              nl))
                                   else TFail
                                 | _ :: _ -> TFail)
                           else if eqb0 name
                                     ('p'::('y'::('t'::('h'::('o'::('n'::[]))))))
                                then (match args with
                                      | [] -> TFail
                                      | script2 :: l ->
                                        (match l with
                                         | [] -> TFail
                                         | sub0 :: l0 ->
                                           (match l0 with
                                            | [] ->
                                              (match prefix_strip
                                                       ('-'::('-'::('s'::('u'::('b'::('m'::('i'::('s'::('s'::('i'::('o'::('n'::('-'::('d'::('i'::('r'::('='::[])))))))))))))))))
                                                       sub0 with
                                               | Some d ->
                                                 if (&&)
                                                      ((&&)
                                                        ((&&)
                                                          (is_file_s st
                                                            script2)
                                                          (is_file_s st
                                                            ('b'::('u'::('i'::('l'::('t'::[])))))))
                                                        (is_file_s st
                                                          ('f'::('i'::('l'::('e'::('l'::('i'::('s'::('t'::('.'::('t'::('x'::('t'::[]))))))))))))))
                                                      (negb (exists_s st d))
                                                 then of_opt
                                                        (obind
                                                          (mkdir_s st f d)
                                                          (fun f1 ->
                                                          obind
                                                            (mkdir_s st f1
                                                              (append d
                                                                ('/'::('d'::('a'::('t'::('a'::('-'::('A'::('N'::('A'::('L'::('Y'::('S'::('I'::('S'::[]))))))))))))))))
                                                            (fun f2 ->
                                                            write_s st f2
                                                              (append d
                                                                ('/'::('d'::('a'::('t'::('a'::('-'::('A'::('N'::('A'::('L'::('Y'::('S'::('I'::('S'::('/'::('A'::('N'::('A'::('L'::('Y'::('S'::('I'::('S'::('.'::('r'::('o'::('o'::('t'::[])))))))))))))))))))))))))))))
                                                              (job_output
                                                                nonce
                                                                (content_s st
                                                                  ('f'::('i'::('l'::('e'::('l'::('i'::('s'::('t'::('.'::('t'::('x'::('t'::[])))))))))))))))))
                                                 else TFail
                                               | None -> TFail)
                                            | _ :: _ -> TFail)))
                                else if eqb0 name
                                          ('s'::('u'::('d'::('o'::[]))))
                                     then (match args with
                                           | [] -> TFail
                                           | _ :: l ->
                                             (match l with
                                              | [] -> TFail
                                              | _ :: l0 ->
                                                (match l0 with
                                                 | [] -> TFail
                                                 | _ :: l1 ->
                                                   (match l1 with
                                                    | [] -> TFail
                                                    | d :: l2 ->
                                                      (match l2 with
                                                       | [] ->
                                                         if exists_s st d
                                                         then TOk f
                                                         else TFail
                                                       | _ :: _ -> TFail)))))
                                     else if eqb0 name
                                               ('m'::('k'::('e'::('d'::('a'::('n'::('l'::('z'::('r'::[])))))))))
                                          then (match args with
                                                | [] -> TFail
                                                | n0 :: l ->
                                                  (match l with
                                                   | [] ->
                                                     if exists_s st n0
                                                     then TFail
                                                     else of_opt
                                                            (obind
                                                              (mkdir_s st f
                                                                n0)
                                                              (fun f1 ->
                                                              obind
                                                                (mkdir_s st
                                                                  f1
                                                                  (append n0
                                                                    ('/'::('s'::('r'::('c'::[]))))))
                                                                (fun f2 ->
                                                                obind
                                                                  (mkdir_s st
                                                                    f2
                                                                    (append
                                                                    n0
                                                                    ('/'::('p'::('l'::('u'::('g'::('i'::('n'::('s'::[]))))))))))
                                                                  (fun f3 ->
                                                                  mkdir_s st
                                                                    f3
                                                                    (append
                                                                    n0
                                                                    ('/'::('p'::('y'::('t'::('h'::('o'::('n'::[]))))))))))))
                                                   | _ :: _ -> TFail))
                                          else if eqb0 name
                                                    ('s'::('c'::('r'::('a'::('m'::[])))))
                                               then if (||)
                                                         (is_file_s st
                                                           ('s'::('r'::('c'::('/'::('A'::('n'::('a'::('l'::('y'::('z'::('e'::('r'::('.'::('c'::('c'::[]))))))))))))))))
                                                         (is_file_s st
                                                           ('p'::('l'::('u'::('g'::('i'::('n'::('s'::('/'::('A'::('n'::('a'::('l'::('y'::('z'::('e'::('r'::('.'::('c'::('c'::[]))))))))))))))))))))
                                                    then of_opt
                                                           (write_s st f
                                                             ('b'::('u'::('i'::('l'::('t'::[])))))
                                                             (append
                                                               ('G'::('E'::('N'::(' '::('b'::('u'::('i'::('l'::('d'::[])))))))))
                                                               nl))
                                                    else TFail
                                               else if eqb0 name
                                                         ('c'::('m'::('s'::('R'::('u'::('n'::[]))))))
                                                    then (match args with
                                                          | [] -> TFail
                                                          | cfg :: l ->
                                                            (match l with
                                                             | [] ->
                                                               let out =
                                                                 get_env st
                                                                   ('C'::('M'::('S'::('_'::('O'::('U'::('T'::('P'::('U'::('T'::('_'::('F'::('I'::('L'::('E'::[])))))))))))))))
                                                               in
                                                               if (&&)
                                                                    ((&&)
                                                                    ((&&)
                                                                    (is_file_s
                                                                    st cfg)
                                                                    (is_file_s
                                                                    st
                                                                    ('b'::('u'::('i'::('l'::('t'::[])))))))
                                                                    (is_file_s
                                                                    st
                                                                    ('f'::('i'::('l'::('e'::('l'::('i'::('s'::('t'::('.'::('t'::('x'::('t'::[]))))))))))))))
                                                                    (negb
                                                                    (eqb0 out
                                                                    []))
                                                               then of_opt
                                                                    (write_s
                                                                    st f
                                                                    (append
                                                                    ('.'::('/'::[]))
                                                                    out)
                                                                    (job_output
                                                                    nonce
                                                                    (content_s
                                                                    st
                                                                    ('f'::('i'::('l'::('e'::('l'::('i'::('s'::('t'::('.'::('t'::('x'::('t'::[])))))))))))))))
                                                               else TFail
                                                             | _ :: _ -> TFail))
                                                    else if eqb0 name
                                                              ('r'::('o'::('o'::('t'::[]))))
                                                         then (match args with
                                                               | [] -> TFail
                                                               | _ :: l ->
                                                                 (match l with
                                                                  | [] ->
                                                                    TFail
                                                                  | _ :: l0 ->
                                                                    (match l0 with
                                                                    | [] ->
                                                                    TFail
                                                                    | _ :: l1 ->
                                                                    (match l1 with
                                                                    | [] ->
                                                                    TFail
                                                                    | a :: l2 ->
                                                                    (match l2 with
                                                                    | [] ->
                                                                    (match 
                                                                    split_sub
                                                                    ('('::('"'::[]))
                                                                    a with
                                                                    | Some p ->
                                                                    let (
                                                                    macro,
                                                                    rest) = p
                                                                    in
                                                                    (
                                                                    match 
                                                                    split_sub
                                                                    ('"'::(','::('"'::[])))
                                                                    rest with
                                                                    | Some p0 ->
                                                                    let (
                                                                    inp, out') =
                                                                    p0
                                                                    in
                                                                    (
                                                                    match 
                                                                    strip_suffix
                                                                    ('"'::(')'::[]))
                                                                    out' with
                                                                    | Some out ->
                                                                    if 
                                                                    (&&)
                                                                    ((&&)
                                                                    (is_file_s
                                                                    st macro)
                                                                    (is_file_s
                                                                    st inp))
                                                                    (negb
                                                                    (is_dir_s
                                                                    st out))
                                                                    then 
                                                                    of_opt
                                                                    (write_s
                                                                    st f out
                                                                    (converted
                                                                    (content_s
                                                                    st inp)))
                                                                    else TFail
                                                                    | None ->
                                                                    TFail)
                                                                    | None ->
                                                                    TFail)
                                                                    | None ->
                                                                    TFail)
                                                                    | _ :: _ ->
                                                                    TFail)))))
                                                         else if eqb0 name
                                                                   ('x'::('r'::('d'::('c'::('p'::[])))))
                                                              then TFail
                                                              else TUnmodelled

(** val run_tool :
    (nat -> bool) -> char list -> state -> char list list -> outcome **)

let run_tool oracle nonce st argv = match argv with
| [] -> finish st O
| name :: args ->
  if negb (mem_str name known_tools)
  then unmod st
  else let st1 = take_step st argv in
       if oracle st.steps
       then finish st1 (S O)
       else (match tool_effect nonce st name args with
             | TOk f -> finish (upd_fs st1 f) O
             | TFail -> finish st1 (S O)
             | TUnmodelled -> unmod st1)

(** val run_source : (nat -> bool) -> state -> word -> outcome **)

let run_source oracle st w =
  match expand_word st w with
  | [] -> unmod st
  | s :: l ->
    (match l with
     | [] ->
       if negb (has_slash s)
       then unmod st
       else (match res st s with
             | Some p ->
               (match fs_get st.fsys p with
                | Some n0 ->
                  (match n0 with
                   | Dir -> finish st (S O)
                   | File c ->
                     let go = fun tag eff ->
                       let st1 = take_step st (tag :: []) in
                       if oracle st.steps
                       then finish st1 (S O)
                       else finish (eff st1) O
                     in
                     if eqb0 c sourced_release
                     then go
                            ('s'::('o'::('u'::('r'::('c'::('e'::(':'::('r'::('e'::('l'::('e'::('a'::('s'::('e'::[]))))))))))))))
                            (fun s1 ->
                            upd_exported
                              (set_var s1
                                ('A'::('n'::('a'::('l'::('y'::('s'::('i'::('s'::('B'::('a'::('s'::('e'::('E'::('x'::('t'::('e'::('r'::('n'::('a'::('l'::('s'::('_'::('P'::('L'::('A'::('T'::('F'::('O'::('R'::('M'::[]))))))))))))))))))))))))))))))
                                ('x'::('8'::('6'::('_'::('6'::('4'::[])))))))
                              (('A'::('n'::('a'::('l'::('y'::('s'::('i'::('s'::('B'::('a'::('s'::('e'::('E'::('x'::('t'::('e'::('r'::('n'::('a'::('l'::('s'::('_'::('P'::('L'::('A'::('T'::('F'::('O'::('R'::('M'::[])))))))))))))))))))))))))))))) :: s1.exported))
                     else if eqb0 c sourced_setup
                          then go
                                 ('s'::('o'::('u'::('r'::('c'::('e'::(':'::('s'::('e'::('t'::('u'::('p'::[]))))))))))))
                                 (fun s1 -> s1)
                          else if eqb0 c sourced_entry
                               then go
                                      ('s'::('o'::('u'::('r'::('c'::('e'::(':'::('e'::('n'::('t'::('r'::('y'::[]))))))))))))
                                      (fun s1 ->
                                      upd_exported
                                        (set_var s1
                                          ('C'::('V'::('S'::('R'::('O'::('O'::('T'::[])))))))
                                          ('c'::('m'::('s'::[]))))
                                        (('C'::('V'::('S'::('R'::('O'::('O'::('T'::[]))))))) :: s1.exported))
                               else unmod st)
                | None -> finish st (S O))
             | None -> finish st (S O))
     | _ :: _ -> unmod st)

(** val run_events :
    char list -> (char list -> (state -> outcome) option) -> gev list ->
    state -> outcome **)

let rec run_events var body evs st =
  match evs with
  | [] -> Cont st
  | e :: r ->
    let ca = match e with
             | GOpt (c, a) -> (c, a)
             | GBad -> (('?'::[]), []) in
    let st1 =
      set_var (set_var st var (fst ca))
        ('O'::('P'::('T'::('A'::('R'::('G'::[])))))) (snd ca)
    in
    (match body (fst ca) with
     | Some f ->
       (match f st1 with
        | Cont st2 -> run_events var body r st2
        | Exit (code, st0) -> Exit (code, st0))
     | None -> run_events var body r st1)

(** val exec_cmds : (nat -> bool) -> char list -> cmds -> state -> outcome **)

let exec_cmds oracle nonce =
  let rec exec_cmd c st =
    match c with
    | CAssign (v, w) -> finish (set_var st v (expand_str st w)) O
    | CScriptDir v -> finish (set_var st v (path_str st.scriptdir)) O
    | CPwdTo v -> finish (set_var st v (path_str st.cwd)) O
    | CSetE -> finish (upd_errexit st true) O
    | CSetX -> finish st O
    | CShiftOpt -> finish (upd_pos st (skipn st.optind st.pos)) O
    | CExit n0 -> Exit (n0, st)
    | CEcho (ws, redir) ->
      (match redir with
       | Some t ->
         (match expand_word st t with
          | [] -> finish st (S O)
          | s :: l ->
            (match l with
             | [] ->
               (match write_s st st.fsys s
                        (append (join_str (' '::[]) (expand_words st ws)) nl) with
                | Some f -> finish (upd_fs st f) O
                | None -> finish st (S O))
             | _ :: _ -> finish st (S O)))
       | None -> finish st O)
    | CCd w ->
      (match expand_word st w with
       | [] -> unmod st
       | s :: l ->
         (match l with
          | [] ->
            (match res st s with
             | Some p ->
               if is_dir st.fsys p
               then finish (upd_cwd st p) O
               else finish st (S O)
             | None -> unmod st)
          | _ :: _ -> unmod st))
    | CSource w -> run_source oracle st w
    | CExport (v, w) ->
      finish
        (upd_exported (set_var st v (expand_str st w)) (v :: st.exported)) O
    | CEval (v, lit, c') ->
      if eqb0 (get_var st v) lit then exec_cmd c' st else unmod st
    | CHeredoc (target, body) ->
      (match expand_word st target with
       | [] -> finish st (S O)
       | s :: l ->
         (match l with
          | [] ->
            (match write_s st st.fsys s [] with
             | Some f0 ->
               let st1 =
                 take_step (upd_fs st f0) (('c'::('a'::('t'::[]))) :: [])
               in
               if oracle st.steps
               then finish st1 (S O)
               else finish (upd_fs st1 (opt_or (write_s st f0 s body) f0)) O
             | None -> finish st (S O))
          | _ :: _ -> finish st (S O)))
    | CRun ws -> run_tool oracle nonce st (expand_words st ws)
    | CIf (b, e) -> exec_branches b (exec_cmds0 e) st
    | CGetopts (os, var, a) ->
      let st0 =
        set_var (set_var st var [])
          ('O'::('P'::('T'::('A'::('R'::('G'::[])))))) []
      in
      let ge = getopts_events os st.pos in
      (match run_events var (exec_arms a) (fst ge) st0 with
       | Cont st1 -> finish (upd_optind st1 (snd ge)) O
       | Exit (code, st1) -> Exit (code, st1))
  and exec_cmds0 l st =
    match l with
    | CNil -> Cont st
    | CCons (c, r) ->
      (match exec_cmd c st with
       | Cont st1 -> exec_cmds0 r st1
       | Exit (code, st0) -> Exit (code, st0))
  and exec_branches b els st =
    match b with
    | BNil -> els (upd_last st O)
    | BCons (t, body, r) ->
      (match eval_test st t with
       | Some b0 ->
         if b0
         then exec_cmds0 body (upd_last st O)
         else exec_branches r els st
       | None -> unmod st)
  and exec_arms a c =
    match a with
    | ANil -> None
    | ACons (p, body, r) ->
      if pat_match p c then Some (exec_cmds0 body) else exec_arms r c
  in exec_cmds0

type result0 = { r_exit : nat; r_st : state }

(** val run_script :
    (nat -> bool) -> char list -> cmds -> state -> result0 **)

let run_script oracle nonce s st0 =
  match exec_cmds oracle nonce s st0 with
  | Cont st -> { r_exit = st.last0; r_st = st }
  | Exit (c, st) -> { r_exit = c; r_st = st }

type config = { cf_fl_dir : bool; cf_fl_local : bool; cf_release : bool;
                cf_entry : bool; cf_calib : bool; cf_cvsroot : bool }

(** val default_filelist : char list **)

let default_filelist =
  append
    ('/'::('d'::('a'::('t'::('a'::('/'::('a'::('.'::('r'::('o'::('o'::('t'::[]))))))))))))
    nl

(** val pkg_content : char list -> char list **)

let pkg_content name =
  append ('P'::('K'::('G'::(' '::[])))) (append name nl)

(** val opt_if : bool -> 'a1 -> 'a1 option **)

let opt_if b a =
  if b then Some a else None

(** val init_fs : char list list -> path list -> config -> fs **)

let init_fs pkg slots c =
  app (((('s'::('c'::('r'::('i'::('p'::('t'::('s'::[]))))))) :: []), (Some
    Dir)) :: [])
    (app
      (map (fun n0 ->
        ((('s'::('c'::('r'::('i'::('p'::('t'::('s'::[]))))))) :: (n0 :: [])),
        (Some (File (pkg_content n0))))) pkg)
      (app
        (((('s'::('c'::('r'::('i'::('p'::('t'::('s'::[]))))))) :: (('f'::('i'::('l'::('e'::('l'::('i'::('s'::('t'::('.'::('t'::('x'::('t'::[])))))))))))) :: [])),
        (opt_if c.cf_fl_dir (File default_filelist))) :: (((('w'::('o'::('r'::('k'::[])))) :: []),
        (Some
        Dir)) :: (((('w'::('o'::('r'::('k'::[])))) :: (('f'::('i'::('l'::('e'::('l'::('i'::('s'::('t'::('.'::('t'::('x'::('t'::[])))))))))))) :: [])),
        (opt_if c.cf_fl_local (File default_filelist))) :: (((('r'::('e'::('s'::('u'::('l'::('t'::('s'::[]))))))) :: []),
        (Some Dir)) :: (((('o'::('u'::('t'::('2'::[])))) :: []), (Some
        Dir)) :: (((('h'::('o'::('m'::('e'::[])))) :: []), (Some
        Dir)) :: (((('h'::('o'::('m'::('e'::[])))) :: (('a'::('t'::('l'::('a'::('s'::[]))))) :: [])),
        (Some
        Dir)) :: (((('h'::('o'::('m'::('e'::[])))) :: (('a'::('t'::('l'::('a'::('s'::[]))))) :: (('r'::('e'::('l'::('e'::('a'::('s'::('e'::('_'::('s'::('e'::('t'::('u'::('p'::('.'::('s'::('h'::[])))))))))))))))) :: []))),
        (opt_if c.cf_release (File sourced_release))) :: (((('o'::('p'::('t'::[]))) :: []),
        (Some
        Dir)) :: (((('o'::('p'::('t'::[]))) :: (('c'::('m'::('s'::[]))) :: [])),
        (Some
        Dir)) :: (((('o'::('p'::('t'::[]))) :: (('c'::('m'::('s'::[]))) :: (('e'::('n'::('t'::('r'::('y'::('p'::('o'::('i'::('n'::('t'::('.'::('s'::('h'::[]))))))))))))) :: []))),
        (opt_if c.cf_entry (File sourced_entry))) :: (((('x'::('a'::('o'::('d'::('_'::('c'::('a'::('l'::('i'::('b'::('r'::('a'::('t'::('i'::('o'::('n'::('_'::('c'::('a'::('c'::('h'::('e'::[])))))))))))))))))))))) :: []),
        (opt_if c.cf_calib Dir)) :: []))))))))))))
        (map (fun p -> (p, None)) slots)))

(** val init_state : config -> fs -> char list list -> state **)

let init_state c f args =
  { vars = ((('C'::('V'::('S'::('R'::('O'::('O'::('T'::[]))))))),
    (if c.cf_cvsroot then 'p'::('r'::('e'::('s'::('e'::('t'::[]))))) else [])) :: []);
    exported = (('C'::('V'::('S'::('R'::('O'::('O'::('T'::[]))))))) :: []);
    cwd = (('w'::('o'::('r'::('k'::[])))) :: []); fsys = f; pos = args;
    optind = O; errexit = false; last0 = O; steps = O; tlog = [];
    unmodelled = false; scriptdir =
    (('s'::('c'::('r'::('i'::('p'::('t'::('s'::[]))))))) :: []) }

(** val invoke :
    cmds -> config -> fs -> char list list -> (nat -> bool) -> char list ->
    result0 **)

let invoke s c f args oracle nonce =
  run_script oracle nonce s (init_state c f args)

type invocation = { i_args : char list list; i_oracle : (nat -> bool);
                    i_nonce : char list }

(** val run_history :
    cmds -> config -> fs -> invocation list -> result0 list **)

let rec run_history s c f = function
| [] -> []
| i :: r ->
  let x = invoke s c f i.i_args i.i_oracle i.i_nonce in
  x :: (run_history s c x.r_st.fsys r)

(** val dest_slots : path list **)

let dest_slots =
  (('r'::('e'::('s'::('u'::('l'::('t'::('s'::[]))))))) :: (('A'::('N'::('A'::('L'::('Y'::('S'::('I'::('S'::('.'::('r'::('o'::('o'::('t'::[]))))))))))))) :: [])) :: ((('o'::('u'::('t'::('2'::[])))) :: (('A'::('N'::('A'::('L'::('Y'::('S'::('I'::('S'::('.'::('r'::('o'::('o'::('t'::[]))))))))))))) :: [])) :: ((('o'::('u'::('t'::('2'::[])))) :: (('n'::('a'::('m'::('e'::('d'::('.'::('r'::('o'::('o'::('t'::[])))))))))) :: [])) :: []))

(** val run_dir_atlas : path **)

let run_dir_atlas =
  ('w'::('o'::('r'::('k'::[])))) :: (('r'::('e'::('l'::[]))) :: (('b'::('u'::('i'::('l'::('d'::[]))))) :: []))

(** val run_dir_cms : path **)

let run_dir_cms =
  ('w'::('o'::('r'::('k'::[])))) :: (('a'::('n'::('a'::('l'::('y'::('s'::('i'::('s'::[])))))))) :: (('A'::('n'::('a'::('l'::('y'::('z'::('e'::('r'::[])))))))) :: []))

(** val slots_atlas : path list **)

let slots_atlas =
  app dest_slots
    (map (fun x -> app run_dir_atlas x)
      ((('f'::('i'::('l'::('e'::('l'::('i'::('s'::('t'::('.'::('t'::('x'::('t'::[])))))))))))) :: []) :: ((('b'::('o'::('g'::('u'::('s'::[]))))) :: []) :: ((('b'::('o'::('g'::('u'::('s'::[]))))) :: (('d'::('a'::('t'::('a'::('-'::('A'::('N'::('A'::('L'::('Y'::('S'::('I'::('S'::[]))))))))))))) :: [])) :: ((('b'::('o'::('g'::('u'::('s'::[]))))) :: (('d'::('a'::('t'::('a'::('-'::('A'::('N'::('A'::('L'::('Y'::('S'::('I'::('S'::[]))))))))))))) :: (('A'::('N'::('A'::('L'::('Y'::('S'::('I'::('S'::('.'::('r'::('o'::('o'::('t'::[]))))))))))))) :: []))) :: ((('r'::('e'::('l'::('_'::('o'::('u'::('t'::('.'::('r'::('o'::('o'::('t'::[])))))))))))) :: []) :: []))))))

(** val slots_cms : path list **)

let slots_cms =
  app dest_slots
    (map (fun x -> app run_dir_cms x)
      ((('f'::('i'::('l'::('e'::('l'::('i'::('s'::('t'::('.'::('t'::('x'::('t'::[])))))))))))) :: []) :: ((('A'::('N'::('A'::('L'::('Y'::('S'::('I'::('S'::('.'::('r'::('o'::('o'::('t'::[]))))))))))))) :: []) :: ((('r'::('e'::('l'::('_'::('o'::('u'::('t'::('.'::('r'::('o'::('o'::('t'::[])))))))))))) :: []) :: []))))

(** val pkg_atlas : char list list **)

let pkg_atlas =
  ('q'::('u'::('e'::('r'::('y'::('.'::('h'::[]))))))) :: (('q'::('u'::('e'::('r'::('y'::('.'::('c'::('x'::('x'::[]))))))))) :: (('A'::('T'::('e'::('s'::('t'::('R'::('u'::('n'::('_'::('e'::('l'::('j'::('o'::('b'::('.'::('p'::('y'::[]))))))))))))))))) :: (('p'::('a'::('c'::('k'::('a'::('g'::('e'::('_'::('C'::('M'::('a'::('k'::('e'::('L'::('i'::('s'::('t'::('s'::('.'::('t'::('x'::('t'::[])))))))))))))))))))))) :: [])))

(** val pkg_cms : char list list **)

let pkg_cms =
  ('A'::('n'::('a'::('l'::('y'::('z'::('e'::('r'::('.'::('c'::('c'::[]))))))))))) :: (('a'::('n'::('a'::('l'::('y'::('z'::('e'::('r'::('_'::('c'::('f'::('g'::('.'::('p'::('y'::[]))))))))))))))) :: (('B'::('u'::('i'::('l'::('d'::('F'::('i'::('l'::('e'::('.'::('x'::('m'::('l'::[]))))))))))))) :: (('c'::('o'::('p'::('y'::('_'::('r'::('o'::('o'::('t'::('_'::('t'::('r'::('e'::('e'::('.'::('C'::[])))))))))))))))) :: [])))

(** val oracle_of : nat list -> nat -> bool **)

let oracle_of l i =
  existsb (Nat.eqb i) l

(** val d_config : sexp -> config option **)

let d_config = function
| SAtom _ -> None
| SList l ->
  (match l with
   | [] -> None
   | a0 :: l0 ->
     (match l0 with
      | [] -> None
      | a :: l1 ->
        (match l1 with
         | [] -> None
         | b :: l2 ->
           (match l2 with
            | [] -> None
            | c :: l3 ->
              (match l3 with
               | [] -> None
               | d :: l4 ->
                 (match l4 with
                  | [] -> None
                  | e :: l5 ->
                    (match l5 with
                     | [] ->
                       (match d_bool a0 with
                        | Some a0' ->
                          (match d_bool a with
                           | Some a' ->
                             (match d_bool b with
                              | Some b' ->
                                (match d_bool c with
                                 | Some c' ->
                                   (match d_bool d with
                                    | Some d' ->
                                      (match d_bool e with
                                       | Some e' ->
                                         Some { cf_fl_dir = a0';
                                           cf_fl_local = a'; cf_release = b';
                                           cf_entry = c'; cf_calib = d';
                                           cf_cvsroot = e' }
                                       | None -> None)
                                    | None -> None)
                                 | None -> None)
                              | None -> None)
                           | None -> None)
                        | None -> None)
                     | _ :: _ -> None)))))))

(** val d_inv : sexp -> invocation option **)

let d_inv = function
| SAtom _ -> None
| SList l ->
  (match l with
   | [] -> None
   | a :: l0 ->
     (match l0 with
      | [] -> None
      | s0 :: l1 ->
        (match s0 with
         | SAtom _ -> None
         | SList fl ->
           (match l1 with
            | [] -> None
            | n0 :: l2 ->
              (match l2 with
               | [] ->
                 (match d_strs a with
                  | Some a' ->
                    (match d_list d_nat fl with
                     | Some fl' ->
                       (match d_str n0 with
                        | Some n' ->
                          Some { i_args = a'; i_oracle = (oracle_of fl');
                            i_nonce = n' }
                        | None -> None)
                     | None -> None)
                  | None -> None)
               | _ :: _ -> None)))))

(** val d_stale : sexp -> (char list * char list) option **)

let d_stale = function
| SAtom _ -> None
| SList l ->
  (match l with
   | [] -> None
   | s0 :: l0 ->
     (match s0 with
      | SAtom p ->
        (match l0 with
         | [] -> None
         | s1 :: l1 ->
           (match s1 with
            | SAtom c -> (match l1 with
                          | [] -> Some (p, c)
                          | _ :: _ -> None)
            | SList _ -> None))
      | SList _ -> None))

(** val snap_dirs : char list list **)

let snap_dirs =
  ('s'::('c'::('r'::('i'::('p'::('t'::('s'::[]))))))) :: (('w'::('o'::('r'::('k'::[])))) :: (('r'::('e'::('s'::('u'::('l'::('t'::('s'::[]))))))) :: (('o'::('u'::('t'::('2'::[])))) :: [])))

(** val enc_fs : fs -> sexp **)

let enc_fs f =
  SList
    (flat_map (fun kv ->
      let (k, y) = kv in
      (match y with
       | Some n0 ->
         if mem_str (hd [] k) snap_dirs
         then (SList ((SAtom (path_str k)) :: ((SAtom
                (match n0 with
                 | Dir -> 'D'::[]
                 | File c -> append ('F'::[]) c)) :: []))) :: []
         else []
       | None -> [])) f)

(** val enc_result : result0 -> sexp **)

let enc_result r =
  SList ((s_nat r.r_exit) :: ((s_bool r.r_st.unmodelled) :: ((SList
    (map s_strs r.r_st.tlog)) :: ((enc_fs r.r_st.fsys) :: []))))

(** val add_stale : fs -> (char list * char list) list -> fs **)

let add_stale f l =
  fold_left (fun f' pc ->
    match resolve0 [] (fst pc) with
    | Some q -> fs_set f' q (Some (File (snd pc)))
    | None -> f') l f

(** val run_wire : cmds -> char list list -> path list -> sexp -> sexp **)

let run_wire s pkg slots = function
| SAtom _ -> bad_input
| SList l ->
  (match l with
   | [] -> bad_input
   | c :: l0 ->
     (match l0 with
      | [] -> bad_input
      | s0 :: l1 ->
        (match s0 with
         | SAtom _ -> bad_input
         | SList st ->
           (match l1 with
            | [] -> bad_input
            | s1 :: l2 ->
              (match s1 with
               | SAtom _ -> bad_input
               | SList h ->
                 (match l2 with
                  | [] ->
                    (match d_config c with
                     | Some c' ->
                       (match d_list d_stale st with
                        | Some st' ->
                          (match d_list d_inv h with
                           | Some h' ->
                             SList
                               (map enc_result
                                 (run_history s c'
                                   (add_stale (init_fs pkg slots c') st') h'))
                           | None -> bad_input)
                        | None -> bad_input)
                     | None -> bad_input)
                  | _ :: _ -> bad_input))))))

(** val run_getopts : sexp -> sexp **)

let run_getopts = function
| SAtom _ -> bad_input
| SList l ->
  (match l with
   | [] -> bad_input
   | s :: l0 ->
     (match s with
      | SAtom os ->
        (match l0 with
         | [] -> bad_input
         | a :: l1 ->
           (match l1 with
            | [] ->
              (match d_strs a with
               | Some a' ->
                 let ge = getopts_events os a' in
                 SList ((SList
                 (map (fun e ->
                   match e with
                   | GOpt (c, x) -> SList ((SAtom c) :: ((SAtom x) :: []))
                   | GBad -> SList ((SAtom ('?'::[])) :: ((SAtom []) :: [])))
                   (fst ge))) :: ((s_nat (snd ge)) :: []))
               | None -> bad_input)
            | _ :: _ -> bad_input))
      | SList _ -> bad_input))

(** val script_pre : cmds **)

let script_pre =
  CCons (CSetE, (CCons ((CAssign
    (('o'::('u'::('t'::('p'::('u'::('t'::('_'::('m'::('e'::('t'::('h'::('o'::('d'::[]))))))))))))),
    ((WLit ('c'::('p'::[]))) :: []))), (CCons ((CAssign
    (('o'::('u'::('t'::('p'::('u'::('t'::('_'::('d'::('i'::('r'::[])))))))))),
    ((WLit
    ('/'::('r'::('e'::('s'::('u'::('l'::('t'::('s'::[]))))))))) :: []))),
    (CCons ((CAssign
    (('i'::('n'::('p'::('u'::('t'::('_'::('m'::('e'::('t'::('h'::('o'::('d'::[])))))))))))),
    ((WLit
    ('f'::('i'::('l'::('e'::('l'::('i'::('s'::('t'::[]))))))))) :: []))),
    (CCons ((CAssign
    (('i'::('n'::('p'::('u'::('t'::('_'::('f'::('i'::('l'::('e'::[])))))))))),
    ((WLit []) :: []))), (CCons ((CAssign
    (('c'::('o'::('m'::('p'::('i'::('l'::('e'::[]))))))), ((WLit
    ('1'::[])) :: []))), (CCons ((CAssign (('r'::('u'::('n'::[]))), ((WLit
    ('1'::[])) :: []))), (CCons ((CAssign
    (('c'::('a'::('l'::('i'::('b'::('_'::('c'::('a'::('c'::('h'::('e'::[]))))))))))),
    ((WLit
    ('/'::('x'::('a'::('o'::('d'::('_'::('c'::('a'::('l'::('i'::('b'::('r'::('a'::('t'::('i'::('o'::('n'::('_'::('c'::('a'::('c'::('h'::('e'::[])))))))))))))))))))))))) :: []))),
    CNil)))))))))))))))

(** val script_os : char list **)

let script_os =
  'd'::(':'::('o'::(':'::('c'::('r'::[])))))

(** val script_var : char list **)

let script_var =
  'o'::('p'::('t'::[]))

(** val script_arms : arms **)

let script_arms =
  ACons (('d'::[]), (CCons ((CAssign
    (('i'::('n'::('p'::('u'::('t'::('_'::('m'::('e'::('t'::('h'::('o'::('d'::[])))))))))))),
    ((WLit ('c'::('m'::('d'::[])))) :: []))), (CCons ((CAssign
    (('i'::('n'::('p'::('u'::('t'::('_'::('f'::('i'::('l'::('e'::[])))))))))),
    ((WVar (false, ('O'::('P'::('T'::('A'::('R'::('G'::[])))))))) :: []))),
    CNil)))), (ACons (('c'::[]), (CCons ((CAssign (('r'::('u'::('n'::[]))),
    ((WLit ('0'::[])) :: []))), CNil)), (ACons (('r'::[]), (CCons ((CAssign
    (('c'::('o'::('m'::('p'::('i'::('l'::('e'::[]))))))), ((WLit
    ('0'::[])) :: []))), CNil)), (ACons (('o'::[]), (CCons ((CAssign
    (('o'::('u'::('t'::('p'::('u'::('t'::('_'::('d'::('i'::('r'::[])))))))))),
    ((WVar (false, ('O'::('P'::('T'::('A'::('R'::('G'::[])))))))) :: []))),
    CNil)), (ACons (('?'::[]), (CCons ((CExit (S (S (S (S (S (S (S (S (S (S
    O))))))))))), CNil)), ANil)))))))))

(** val script_rest_of : (nat -> char list) -> cmds **)

let script_rest_of hb =
  CCons (CShiftOpt, (CCons ((CIf ((BCons (TArgsLeft, (CCons ((CEcho ((((WLit
    ('E'::('x'::('t'::('r'::('a'::(' '::('a'::('r'::('g'::('u'::('m'::('e'::('n'::('t'::('s'::(' '::('o'::('n'::(' '::('t'::('h'::('e'::(' '::('c'::('o'::('m'::('m'::('a'::('n'::('d'::(' '::('l'::('i'::('n'::('e'::(' '::[]))))))))))))))))))))))))))))))))))))) :: ((WVar
    (true, ('@'::[]))) :: [])) :: []), None)), (CCons ((CExit (S O)),
    CNil)))), BNil)), CNil)), (CCons ((CIf ((BCons ((TFileF ((WLit
    ('/'::('h'::('o'::('m'::('e'::('/'::('a'::('t'::('l'::('a'::('s'::('/'::('r'::('e'::('l'::('e'::('a'::('s'::('e'::('_'::('s'::('e'::('t'::('u'::('p'::('.'::('s'::('h'::[]))))))))))))))))))))))))))))) :: [])),
    (CCons ((CSource ((WLit
    ('/'::('h'::('o'::('m'::('e'::('/'::('a'::('t'::('l'::('a'::('s'::('/'::('r'::('e'::('l'::('e'::('a'::('s'::('e'::('_'::('s'::('e'::('t'::('u'::('p'::('.'::('s'::('h'::[]))))))))))))))))))))))))))))) :: [])),
    CNil)), BNil)), (CCons ((CEcho ((((WLit
    ('/'::('h'::('o'::('m'::('e'::('/'::('a'::('t'::('l'::('a'::('s'::('/'::('r'::('e'::('l'::('e'::('a'::('s'::('e'::('_'::('s'::('e'::('t'::('u'::('p'::('.'::('s'::('h'::(' '::('n'::('o'::('t'::(' '::('f'::('o'::('u'::('n'::('d'::('.'::(' '::('S'::('k'::('i'::('p'::('p'::('i'::('n'::('g'::('.'::[])))))))))))))))))))))))))))))))))))))))))))))))))) :: []) :: []),
    None)), CNil)))), (CCons ((CScriptDir ('D'::('I'::('R'::[])))), (CCons
    ((CPwdTo ('l'::('o'::('c'::('a'::('l'::[])))))), (CCons ((CIf ((BCons
    ((TEq (((WVar (false,
    ('c'::('o'::('m'::('p'::('i'::('l'::('e'::[]))))))))) :: []), ((WLit
    ('1'::[])) :: []))), (CCons ((CRun (((WLit
    ('m'::('k'::('d'::('i'::('r'::[])))))) :: []) :: (((WLit
    ('r'::('e'::('l'::[])))) :: []) :: []))), (CCons ((CCd ((WLit
    ('r'::('e'::('l'::[])))) :: [])), (CCons ((CRun (((WLit
    ('m'::('k'::('d'::('i'::('r'::[])))))) :: []) :: (((WLit
    ('s'::('o'::('u'::('r'::('c'::('e'::[]))))))) :: []) :: []))), (CCons
    ((CRun (((WLit ('m'::('k'::('d'::('i'::('r'::[])))))) :: []) :: (((WLit
    ('b'::('u'::('i'::('l'::('d'::[])))))) :: []) :: []))), (CCons ((CRun
    (((WLit ('m'::('k'::('d'::('i'::('r'::[])))))) :: []) :: (((WLit
    ('r'::('u'::('n'::[])))) :: []) :: []))), (CCons ((CHeredoc (((WLit
    ('s'::('o'::('u'::('r'::('c'::('e'::('/'::('C'::('M'::('a'::('k'::('e'::('L'::('i'::('s'::('t'::('s'::('.'::('t'::('x'::('t'::[])))))))))))))))))))))) :: []),
    (hb O))), (CCons ((CCd ((WLit
    ('s'::('o'::('u'::('r'::('c'::('e'::[]))))))) :: [])), (CCons ((CRun
    (((WLit ('m'::('k'::('d'::('i'::('r'::[])))))) :: []) :: (((WLit
    ('a'::('n'::('a'::('l'::('y'::('s'::('i'::('s'::[]))))))))) :: []) :: []))),
    (CCons ((CRun (((WLit
    ('m'::('k'::('d'::('i'::('r'::[])))))) :: []) :: (((WLit
    ('a'::('n'::('a'::('l'::('y'::('s'::('i'::('s'::('/'::('a'::('n'::('a'::('l'::('y'::('s'::('i'::('s'::[])))))))))))))))))) :: []) :: []))),
    (CCons ((CRun (((WLit
    ('m'::('k'::('d'::('i'::('r'::[])))))) :: []) :: (((WLit
    ('a'::('n'::('a'::('l'::('y'::('s'::('i'::('s'::('/'::('R'::('o'::('o'::('t'::[])))))))))))))) :: []) :: []))),
    (CCons ((CRun (((WLit
    ('m'::('k'::('d'::('i'::('r'::[])))))) :: []) :: (((WLit
    ('a'::('n'::('a'::('l'::('y'::('s'::('i'::('s'::('/'::('s'::('r'::('c'::[]))))))))))))) :: []) :: []))),
    (CCons ((CRun (((WLit
    ('m'::('k'::('d'::('i'::('r'::[])))))) :: []) :: (((WLit
    ('a'::('n'::('a'::('l'::('y'::('s'::('i'::('s'::('/'::('s'::('r'::('c'::('/'::('c'::('o'::('m'::('p'::('o'::('n'::('e'::('n'::('t'::('s'::[])))))))))))))))))))))))) :: []) :: []))),
    (CCons ((CRun (((WLit
    ('m'::('k'::('d'::('i'::('r'::[])))))) :: []) :: (((WLit
    ('a'::('n'::('a'::('l'::('y'::('s'::('i'::('s'::('/'::('s'::('h'::('a'::('r'::('e'::[]))))))))))))))) :: []) :: []))),
    (CCons ((CRun (((WLit ('c'::('p'::[]))) :: []) :: (((WVar (false,
    ('D'::('I'::('R'::[]))))) :: ((WLit
    ('/'::('p'::('a'::('c'::('k'::('a'::('g'::('e'::('_'::('C'::('M'::('a'::('k'::('e'::('L'::('i'::('s'::('t'::('s'::('.'::('t'::('x'::('t'::[])))))))))))))))))))))))) :: [])) :: (((WLit
    ('a'::('n'::('a'::('l'::('y'::('s'::('i'::('s'::('/'::('C'::('M'::('a'::('k'::('e'::('L'::('i'::('s'::('t'::('s'::('.'::('t'::('x'::('t'::[])))))))))))))))))))))))) :: []) :: [])))),
    (CCons ((CRun (((WLit ('c'::('p'::[]))) :: []) :: (((WVar (false,
    ('D'::('I'::('R'::[]))))) :: ((WLit
    ('/'::('q'::('u'::('e'::('r'::('y'::('.'::('h'::[]))))))))) :: [])) :: (((WLit
    ('a'::('n'::('a'::('l'::('y'::('s'::('i'::('s'::('/'::('a'::('n'::('a'::('l'::('y'::('s'::('i'::('s'::[])))))))))))))))))) :: []) :: [])))),
    (CCons ((CRun (((WLit ('c'::('p'::[]))) :: []) :: (((WVar (false,
    ('D'::('I'::('R'::[]))))) :: ((WLit
    ('/'::('q'::('u'::('e'::('r'::('y'::('.'::('c'::('x'::('x'::[]))))))))))) :: [])) :: (((WLit
    ('a'::('n'::('a'::('l'::('y'::('s'::('i'::('s'::('/'::('R'::('o'::('o'::('t'::[])))))))))))))) :: []) :: [])))),
    (CCons ((CRun (((WLit ('c'::('p'::[]))) :: []) :: (((WVar (false,
    ('D'::('I'::('R'::[]))))) :: ((WLit
    ('/'::('A'::('T'::('e'::('s'::('t'::('R'::('u'::('n'::('_'::('e'::('l'::('j'::('o'::('b'::('.'::('p'::('y'::[]))))))))))))))))))) :: [])) :: (((WLit
    ('a'::('n'::('a'::('l'::('y'::('s'::('i'::('s'::('/'::('s'::('h'::('a'::('r'::('e'::[]))))))))))))))) :: []) :: [])))),
    (CCons ((CRun (((WLit
    ('c'::('h'::('m'::('o'::('d'::[])))))) :: []) :: (((WLit
    ('+'::('x'::[]))) :: []) :: (((WLit
    ('a'::('n'::('a'::('l'::('y'::('s'::('i'::('s'::('/'::('s'::('h'::('a'::('r'::('e'::('/'::('A'::('T'::('e'::('s'::('t'::('R'::('u'::('n'::('_'::('e'::('l'::('j'::('o'::('b'::('.'::('p'::('y'::[]))))))))))))))))))))))))))))))))) :: []) :: [])))),
    (CCons ((CHeredoc (((WLit
    ('a'::('n'::('a'::('l'::('y'::('s'::('i'::('s'::('/'::('a'::('n'::('a'::('l'::('y'::('s'::('i'::('s'::('/'::('q'::('u'::('e'::('r'::('y'::('D'::('i'::('c'::('t'::('.'::('h'::[])))))))))))))))))))))))))))))) :: []),
    (hb (S O)))), (CCons ((CHeredoc (((WLit
    ('a'::('n'::('a'::('l'::('y'::('s'::('i'::('s'::('/'::('a'::('n'::('a'::('l'::('y'::('s'::('i'::('s'::('/'::('s'::('e'::('l'::('e'::('c'::('t'::('i'::('o'::('n'::('.'::('x'::('m'::('l'::[])))))))))))))))))))))))))))))))) :: []),
    (hb (S (S O))))), (CCons ((CCd ((WLit
    ('.'::('.'::('/'::('b'::('u'::('i'::('l'::('d'::[]))))))))) :: [])),
    (CCons ((CRun (((WLit
    ('c'::('m'::('a'::('k'::('e'::[])))))) :: []) :: (((WLit
    ('.'::('.'::('/'::('s'::('o'::('u'::('r'::('c'::('e'::[])))))))))) :: []) :: []))),
    (CCons ((CRun (((WLit ('m'::('a'::('k'::('e'::[]))))) :: []) :: [])),
    CNil)))))))))))))))))))))))))))))))))))))))))))))), BNil)), (CCons ((CCd
    ((WLit
    ('r'::('e'::('l'::('/'::('b'::('u'::('i'::('l'::('d'::[])))))))))) :: [])),
    CNil)))), (CCons ((CIf ((BCons ((TEq (((WVar (false,
    ('r'::('u'::('n'::[]))))) :: []), ((WLit ('1'::[])) :: []))), (CCons
    ((CSource ((WVar (false,
    ('A'::('n'::('a'::('l'::('y'::('s'::('i'::('s'::('B'::('a'::('s'::('e'::('E'::('x'::('t'::('e'::('r'::('n'::('a'::('l'::('s'::('_'::('P'::('L'::('A'::('T'::('F'::('O'::('R'::('M'::[])))))))))))))))))))))))))))))))) :: ((WLit
    ('/'::('s'::('e'::('t'::('u'::('p'::('.'::('s'::('h'::[])))))))))) :: []))),
    (CCons ((CIf ((BCons ((TEq (((WVar (true,
    ('i'::('n'::('p'::('u'::('t'::('_'::('m'::('e'::('t'::('h'::('o'::('d'::[])))))))))))))) :: []),
    ((WLit
    ('f'::('i'::('l'::('e'::('l'::('i'::('s'::('t'::[]))))))))) :: []))),
    (CCons ((CIf ((BCons ((TFileE ((WVar (false,
    ('D'::('I'::('R'::[]))))) :: ((WLit
    ('/'::('f'::('i'::('l'::('e'::('l'::('i'::('s'::('t'::('.'::('t'::('x'::('t'::[])))))))))))))) :: []))),
    (CCons ((CRun (((WLit ('c'::('p'::[]))) :: []) :: (((WVar (false,
    ('D'::('I'::('R'::[]))))) :: ((WLit
    ('/'::('f'::('i'::('l'::('e'::('l'::('i'::('s'::('t'::('.'::('t'::('x'::('t'::[])))))))))))))) :: [])) :: (((WLit
    ('.'::[])) :: []) :: [])))), CNil)), BNil)), (CCons ((CRun (((WLit
    ('c'::('p'::[]))) :: []) :: (((WVar (false,
    ('l'::('o'::('c'::('a'::('l'::[]))))))) :: ((WLit
    ('/'::('f'::('i'::('l'::('e'::('l'::('i'::('s'::('t'::('.'::('t'::('x'::('t'::[])))))))))))))) :: [])) :: (((WLit
    ('.'::[])) :: []) :: [])))), CNil)))), CNil)), (BCons ((TEq (((WVar
    (true,
    ('i'::('n'::('p'::('u'::('t'::('_'::('m'::('e'::('t'::('h'::('o'::('d'::[])))))))))))))) :: []),
    ((WLit ('c'::('m'::('d'::[])))) :: []))), (CCons ((CEcho ((((WVar (true,
    ('i'::('n'::('p'::('u'::('t'::('_'::('f'::('i'::('l'::('e'::[])))))))))))) :: []) :: []),
    (Some ((WLit
    ('f'::('i'::('l'::('e'::('l'::('i'::('s'::('t'::('.'::('t'::('x'::('t'::[]))))))))))))) :: [])))),
    CNil)), BNil)))), CNil)), (CCons ((CIf ((BCons ((TFileE ((WLit
    ('.'::('/'::('b'::('o'::('g'::('u'::('s'::[])))))))) :: [])), (CCons
    ((CRun (((WLit ('r'::('m'::[]))) :: []) :: (((WLit
    ('-'::('r'::('f'::[])))) :: []) :: (((WLit
    ('b'::('o'::('g'::('u'::('s'::[])))))) :: []) :: [])))), CNil)), BNil)),
    CNil)), (CCons ((CIf ((BCons ((TFileE ((WVar (false,
    ('c'::('a'::('l'::('i'::('b'::('_'::('c'::('a'::('c'::('h'::('e'::[]))))))))))))) :: [])),
    (CCons ((CExport
    (('C'::('A'::('L'::('I'::('B'::('P'::('A'::('T'::('H'::[]))))))))),
    ((WVar (false,
    ('c'::('a'::('l'::('i'::('b'::('_'::('c'::('a'::('c'::('h'::('e'::[]))))))))))))) :: ((WLit
    (':'::[])) :: ((WVar (false,
    ('C'::('A'::('L'::('I'::('B'::('P'::('A'::('T'::('H'::[]))))))))))) :: []))))),
    (CCons ((CRun (((WLit ('s'::('u'::('d'::('o'::[]))))) :: []) :: (((WLit
    ('-'::('i'::[]))) :: []) :: (((WLit
    ('c'::('h'::('m'::('o'::('d'::[])))))) :: []) :: (((WLit
    ('a'::('+'::('w'::[])))) :: []) :: (((WVar (false,
    ('c'::('a'::('l'::('i'::('b'::('_'::('c'::('a'::('c'::('h'::('e'::[]))))))))))))) :: []) :: [])))))),
    (CCons ((CEcho ((((WLit
    ('U'::('s'::('i'::('n'::('g'::(' '::('c'::('a'::('l'::('i'::('b'::('r'::('a'::('t'::('i'::('o'::('n'::(' '::('c'::('a'::('c'::('h'::('e'::(':'::(' '::[])))))))))))))))))))))))))) :: ((WVar
    (true,
    ('c'::('a'::('l'::('i'::('b'::('_'::('c'::('a'::('c'::('h'::('e'::[]))))))))))))) :: [])) :: []),
    None)), (CCons ((CEcho ((((WLit
    ('U'::('p'::('d'::('a'::('t'::('e'::(' '::('c'::('a'::('l'::('i'::('b'::('r'::('a'::('t'::('i'::('o'::('n'::(' '::('s'::('o'::('u'::('r'::('c'::('e'::('s'::(':'::(' '::[]))))))))))))))))))))))))))))) :: ((WVar
    (true,
    ('C'::('A'::('L'::('I'::('B'::('P'::('A'::('T'::('H'::[]))))))))))) :: [])) :: []),
    None)), CNil)))))))), BNil)), CNil)), (CCons ((CRun (((WLit
    ('p'::('y'::('t'::('h'::('o'::('n'::[]))))))) :: []) :: (((WLit
    ('.'::('.'::('/'::('s'::('o'::('u'::('r'::('c'::('e'::('/'::('a'::('n'::('a'::('l'::('y'::('s'::('i'::('s'::('/'::('s'::('h'::('a'::('r'::('e'::('/'::('A'::('T'::('e'::('s'::('t'::('R'::('u'::('n'::('_'::('e'::('l'::('j'::('o'::('b'::('.'::('p'::('y'::[]))))))))))))))))))))))))))))))))))))))))))) :: []) :: (((WLit
    ('-'::('-'::('s'::('u'::('b'::('m'::('i'::('s'::('s'::('i'::('o'::('n'::('-'::('d'::('i'::('r'::('='::('b'::('o'::('g'::('u'::('s'::[]))))))))))))))))))))))) :: []) :: [])))),
    (CCons ((CIf ((BCons ((TEq (((WVar (false,
    ('o'::('u'::('t'::('p'::('u'::('t'::('_'::('m'::('e'::('t'::('h'::('o'::('d'::[]))))))))))))))) :: []),
    ((WLit ('c'::('p'::[]))) :: []))), (CCons ((CAssign
    (('c'::('m'::('d'::[]))), ((WLit ('c'::('p'::[]))) :: []))), (CCons
    ((CAssign
    (('d'::('e'::('s'::('t'::('i'::('n'::('a'::('t'::('i'::('o'::('n'::[]))))))))))),
    ((WVar (false,
    ('o'::('u'::('t'::('p'::('u'::('t'::('_'::('d'::('i'::('r'::[])))))))))))) :: []))),
    CNil)))), BNil)), (CCons ((CAssign
    (('d'::('e'::('s'::('t'::('i'::('n'::('a'::('t'::('i'::('o'::('n'::[]))))))))))),
    ((WVar (false, ('1'::[]))) :: []))), (CCons ((CAssign
    (('c'::('m'::('d'::[]))), ((WLit ('c'::('p'::[]))) :: []))), (CCons ((CIf
    ((BCons ((TPrefix (((WVar (false,
    ('d'::('e'::('s'::('t'::('i'::('n'::('a'::('t'::('i'::('o'::('n'::[]))))))))))))) :: []),
    ('r'::('o'::('o'::('t'::(':'::[]))))))), (CCons ((CAssign
    (('c'::('m'::('d'::[]))), ((WLit
    ('x'::('r'::('d'::('c'::('p'::[])))))) :: []))), CNil)), BNil)), CNil)),
    CNil)))))))), (CCons ((CRun (((WVar (false,
    ('c'::('m'::('d'::[]))))) :: []) :: (((WLit
    ('.'::('/'::('b'::('o'::('g'::('u'::('s'::('/'::('d'::('a'::('t'::('a'::('-'::('A'::('N'::('A'::('L'::('Y'::('S'::('I'::('S'::('/'::('A'::('N'::('A'::('L'::('Y'::('S'::('I'::('S'::('.'::('r'::('o'::('o'::('t'::[])))))))))))))))))))))))))))))))))))) :: []) :: (((WVar
    (false,
    ('d'::('e'::('s'::('t'::('i'::('n'::('a'::('t'::('i'::('o'::('n'::[]))))))))))))) :: []) :: [])))),
    CNil)))))))))))))), BNil)), CNil)), CNil)))))))))))))

(** val heredocs : char list list **)

let heredocs =
  ('#'::('\n'::('#'::(' '::('P'::('r'::('o'::('j'::('e'::('c'::('t'::(' '::('c'::('o'::('n'::('f'::('i'::('g'::('u'::('r'::('a'::('t'::('i'::('o'::('n'::(' '::('f'::('o'::('r'::(' '::('U'::('s'::('e'::('r'::('A'::('n'::('a'::('l'::('y'::('s'::('i'::('s'::('.'::('\n'::('#'::('\n'::('p'::('r'::('o'::('j'::('e'::('c'::('t'::('('::('f'::('u'::('n'::('c'::('_'::('a'::('d'::('l'::('_'::('n'::('t'::('u'::('p'::('l'::('e'::('r'::(')'::('\n'::('\n'::('#'::(' '::('S'::('e'::('t'::(' '::('t'::('h'::('e'::(' '::('m'::('i'::('n'::('i'::('m'::('u'::('m'::(' '::('r'::('e'::('q'::('u'::('i'::('r'::('e'::('d'::(' '::('C'::('M'::('a'::('k'::('e'::(' '::('v'::('e'::('r'::('s'::('i'::('o'::('n'::(':'::('\n'::('c'::('m'::('a'::('k'::('e'::('_'::('m'::('i'::('n'::('i'::('m'::('u'::('m'::('_'::('r'::('e'::('q'::('u'::('i'::('r'::('e'::('d'::('('::(' '::('V'::('E'::('R'::('S'::('I'::('O'::('N'::(' '::('3'::('.'::('4'::(' '::('F'::('A'::('T'::('A'::('L'::('_'::('E'::('R'::('R'::('O'::('R'::(' '::(')'::('\n'::('\n'::('#'::(' '::('T'::('r'::('y'::(' '::('t'::('o'::(' '::('f'::('i'::('g'::('u'::('r'::('e'::(' '::('o'::('u'::('t'::(' '::('w'::('h'::('a'::('t'::(' '::('p'::('r'::('o'::('j'::('e'::('c'::('t'::(' '::('i'::('s'::(' '::('o'::('u'::('r'::(' '::('p'::('a'::('r'::('e'::('n'::('t'::('.'::(' '::('J'::('u'::('s'::('t'::(' '::('u'::('s'::('i'::('n'::('g'::(' '::('a'::(' '::('h'::('a'::('r'::('d'::('-'::('c'::('o'::('d'::('e'::('d'::(' '::('l'::('i'::('s'::('t'::('\n'::('#'::(' '::('o'::('f'::(' '::('p'::('o'::('s'::('s'::('i'::('b'::('l'::('e'::(' '::('p'::('r'::('o'::('j'::('e'::('c'::('t'::(' '::('n'::('a'::('m'::('e'::('s'::('.'::(' '::('B'::('a'::('s'::('i'::('c'::('a'::('l'::('l'::('y'::(' '::('t'::('h'::('e'::(' '::('n'::('a'::('m'::('e'::('s'::(' '::('o'::('f'::(' '::('a'::('l'::('l'::(' '::('t'::('h'::('e'::(' '::('o'::('t'::('h'::('e'::('r'::('\n'::('#'::(' '::('s'::('u'::('b'::('-'::('d'::('i'::('r'::('e'::('c'::('t'::('o'::('r'::('i'::('e'::('s'::(' '::('i'::('n'::('s'::('i'::('d'::('e'::(' '::('t'::('h'::('e'::(' '::('P'::('r'::('o'::('j'::('e'::('c'::('t'::('s'::('/'::(' '::('d'::('i'::('r'::('e'::('c'::('t'::('o'::('r'::('y'::(' '::('i'::('n'::(' '::('t'::('h'::('e'::(' '::('r'::('e'::('p'::('o'::('s'::('i'::('t'::('o'::('r'::('y'::('.'::('\n'::('s'::('e'::('t'::('('::(' '::('_'::('p'::('a'::('r'::('e'::('n'::('t'::('P'::('r'::('o'::('j'::('e'::('c'::('t'::('N'::('a'::('m'::('e'::('s'::(' '::('A'::('t'::('h'::('e'::('n'::('a'::(' '::('A'::('t'::('h'::('e'::('n'::('a'::('P'::('1'::(' '::('A'::('n'::('a'::('l'::('y'::('s'::('i'::('s'::('B'::('a'::('s'::('e'::(' '::('A'::('t'::('h'::('A'::('n'::('a'::('l'::('y'::('s'::('i'::('s'::('\n'::(' '::(' '::(' '::('A'::('t'::('h'::('S'::('i'::('m'::('u'::('l'::('a'::('t'::('i'::('o'::('n'::(' '::('A'::('t'::('h'::('D'::('e'::('r'::('i'::('v'::('a'::('t'::('i'::('o'::('n'::(' '::('A'::('n'::('a'::('l'::('y'::('s'::('i'::('s'::('T'::('o'::('p'::(' '::(')'::('\n'::('s'::('e'::('t'::('('::(' '::('_'::('d'::('e'::('f'::('a'::('u'::('l'::('t'::('P'::('a'::('r'::('e'::('n'::('t'::('P'::('r'::('o'::('j'::('e'::('c'::('t'::(' '::('A'::('n'::('a'::('l'::('y'::('s'::('i'::('s'::('B'::('a'::('s'::('e'::(' '::(')'::('\n'::('f'::('o'::('r'::('e'::('a'::('c'::('h'::('('::(' '::('_'::('p'::('p'::(' '::('$'::('{'::('_'::('p'::('a'::('r'::('e'::('n'::('t'::('P'::('r'::('o'::('j'::('e'::('c'::('t'::('N'::('a'::('m'::('e'::('s'::('}'::(' '::(')'::('\n'::(' '::(' '::(' '::('i'::('f'::('('::(' '::('N'::('O'::('T'::(' '::('"'::('$'::('E'::('N'::('V'::('{'::('$'::('{'::('_'::('p'::('p'::('}'::('_'::('D'::('I'::('R'::('}'::('"'::(' '::('S'::('T'::('R'::('E'::('Q'::('U'::('A'::('L'::(' '::('"'::('"'::(' '::(')'::('\n'::(' '::(' '::(' '::(' '::(' '::(' '::('s'::('e'::('t'::('('::(' '::('_'::('d'::('e'::('f'::('a'::('u'::('l'::('t'::('P'::('a'::('r'::('e'::('n'::('t'::('P'::('r'::('o'::('j'::('e'::('c'::('t'::(' '::('$'::('{'::('_'::('p'::('p'::('}'::(' '::(')'::('\n'::(' '::(' '::(' '::(' '::(' '::(' '::('b'::('r'::('e'::('a'::('k'::('('::(')'::('\n'::(' '::(' '::(' '::('e'::('n'::('d'::('i'::('f'::('('::(')'::('\n'::('e'::('n'::('d'::('f'::('o'::('r'::('e'::('a'::('c'::('h'::('('::(')'::('\n'::('\n'::('#'::(' '::('S'::('e'::('t'::(' '::('t'::('h'::('e'::(' '::('p'::('a'::('r'::('e'::('n'::('t'::(' '::('p'::('r'::('o'::('j'::('e'::('c'::('t'::(' '::('n'::('a'::('m'::('e'::(' '::('b'::('a'::('s'::('e'::('d'::(' '::('o'::('n'::(' '::('t'::('h'::('e'::(' '::('p'::('r'::('e'::('v'::('i'::('o'::('u'::('s'::(' '::('f'::('i'::('n'::('d'::('i'::('n'::('g'::('s'::(':'::('\n'::('s'::('e'::('t'::('('::(' '::('A'::('T'::('L'::('A'::('S'::('_'::('P'::('R'::('O'::('J'::('E'::('C'::('T'::(' '::('$'::('{'::('_'::('d'::('e'::('f'::('a'::('u'::('l'::('t'::('P'::('a'::('r'::('e'::('n'::('t'::('P'::('r'::('o'::('j'::('e'::('c'::('t'::('}'::('\n'::(' '::(' '::(' '::('C'::('A'::('C'::('H'::('E'::(' '::('S'::('T'::('R'::('I'::('N'::('G'::(' '::('"'::('T'::('h'::('e'::(' '::('n'::('a'::('m'::('e'::(' '::('o'::('f'::(' '::('t'::('h'::('e'::(' '::('p'::('a'::('r'::('e'::('n'::('t'::(' '::('p'::('r'::('o'::('j'::('e'::('c'::('t'::(' '::('t'::('o'::(' '::('b'::('u'::('i'::('l'::('d'::(' '::('a'::('g'::('a'::('i'::('n'::('s'::('t'::('"'::(' '::(')'::('\n'::('\n'::('#'::(' '::('C'::('l'::('e'::('a'::('n'::(' '::('u'::('p'::(':'::('\n'::('u'::('n'::('s'::('e'::('t'::('('::(' '::('_'::('p'::('a'::('r'::('e'::('n'::('t'::('P'::('r'::('o'::('j'::('e'::('c'::('t'::('N'::('a'::('m'::('e'::('s'::(' '::(')'::('\n'::('u'::('n'::('s'::('e'::('t'::('('::(' '::('_'::('d'::('e'::('f'::('a'::('u'::('l'::('t'::('P'::('a'::('r'::('e'::('n'::('t'::('P'::('r'::('o'::('j'::('e'::('c'::('t'::(' '::(')'::('\n'::('\n'::('#'::(' '::('F'::('i'::('n'::('d'::(' '::('t'::('h'::('e'::(' '::('A'::('n'::('a'::('l'::('y'::('s'::('i'::('s'::('B'::('a'::('s'::('e'::(' '::('p'::('r'::('o'::('j'::('e'::('c'::('t'::('.'::(' '::('T'::('h'::('i'::('s'::(' '::('i'::('s'::(' '::('w'::('h'::('a'::('t'::(','::(' '::('a'::('m'::('o'::('n'::('g'::('s'::('t'::(' '::('o'::('t'::('h'::('e'::('r'::(' '::('t'::('h'::('i'::('n'::('g'::('s'::(','::(' '::('p'::('u'::('l'::('l'::('s'::('\n'::('#'::(' '::('i'::('n'::(' '::('t'::('h'::('e'::(' '::('d'::('e'::('f'::('i'::('n'::('i'::('t'::('i'::('o'::('n'::(' '::('o'::('f'::(' '::('a'::('l'::('l'::(' '::('o'::('f'::(' '::('t'::('h'::('e'::(' '::('"'::('a'::('t'::('l'::('a'::('s'::('_'::('"'::(' '::('p'::('r'::('e'::('f'::('i'::('x'::('e'::('d'::(' '::('f'::('u'::('n'::('c'::('t'::('i'::('o'::('n'::('s'::('/'::('m'::('a'::('c'::('r'::('o'::('s'::('.'::('\n'::('f'::('i'::('n'::('d'::('_'::('p'::('a'::('c'::('k'::('a'::('g'::('e'::('('::(' '::('$'::('{'::('A'::('T'::('L'::('A'::('S'::('_'::('P'::('R'::('O'::('J'::('E'::('C'::('T'::('}'::(' '::('R'::('E'::('Q'::('U'::('I'::('R'::('E'::('D'::(' '::(')'::('\n'::('\n'::('#'::(' '::('S'::('e'::('t'::(' '::('u'::('p'::(' '::('C'::('T'::('e'::('s'::('t'::('.'::(' '::('T'::('h'::('i'::('s'::(' '::('m'::('a'::('k'::('e'::('s'::(' '::('s'::('u'::('r'::('e'::(' '::('t'::('h'::('a'::('t'::(' '::('p'::('e'::('r'::('-'::('p'::('a'::('c'::('k'::('a'::('g'::('e'::(' '::('b'::('u'::('i'::('l'::('d'::(' '::('l'::('o'::('g'::(' '::('f'::('i'::('l'::('e'::('s'::(' '::('c'::('a'::('n'::(' '::('b'::('e'::('\n'::('#'::(' '::('c'::('r'::('e'::('a'::('t'::('e'::('d'::(' '::('i'::('f'::(' '::('t'::('h'::('e'::(' '::('u'::('s'::('e'::('r'::(' '::('s'::('o'::(' '::('c'::('h'::('o'::('o'::('s'::('e'::('s'::('.'::('\n'::('a'::('t'::('l'::('a'::('s'::('_'::('c'::('t'::('e'::('s'::('t'::('_'::('s'::('e'::('t'::('u'::('p'::('('::(')'::('\n'::('\n'::('#'::(' '::('S'::('e'::('t'::(' '::('u'::('p'::(' '::('t'::('h'::('e'::(' '::('G'::('i'::('t'::('A'::('n'::('a'::('l'::('y'::('s'::('i'::('s'::('T'::('u'::('t'::('o'::('r'::('i'::('a'::('l'::(' '::('p'::('r'::('o'::('j'::('e'::('c'::('t'::('.'::(' '::('W'::('i'::('t'::('h'::(' '::('t'::('h'::('i'::('s'::(' '::('C'::('M'::('a'::('k'::('e'::(' '::('w'::('i'::('l'::('l'::(' '::('l'::('o'::('o'::('k'::(' '::('f'::('o'::('r'::(' '::('"'::('p'::('a'::('c'::('k'::('a'::('g'::('e'::('s'::('"'::('\n'::('#'::(' '::('i'::('n'::(' '::('t'::('h'::('e'::(' '::('c'::('u'::('r'::('r'::('e'::('n'::('t'::(' '::('r'::('e'::('p'::('o'::('s'::('i'::('t'::('o'::('r'::('y'::(' '::('a'::('n'::('d'::(' '::('a'::('l'::('l'::(' '::('o'::('f'::(' '::('i'::('t'::('s'::(' '::('s'::('u'::('b'::('m'::('o'::('d'::('u'::('l'::('e'::('s'::(','::(' '::('r'::('e'::('s'::('p'::('e'::('c'::('t'::('i'::('n'::('g'::(' '::('t'::('h'::('e'::('\n'::('#'::(' '::('"'::('p'::('a'::('c'::('k'::('a'::('g'::('e'::('_'::('f'::('i'::('l'::('t'::('e'::('r'::('s'::('.'::('t'::('x'::('t'::('"'::(' '::('f'::('i'::('l'::('e'::(','::(' '::('a'::('n'::('d'::(' '::('s'::('e'::('t'::(' '::('u'::('p'::(' '::('t'::('h'::('e'::(' '::('b'::('u'::('i'::('l'::('d'::(' '::('o'::('f'::(' '::('t'::('h'::('o'::('s'::('e'::(' '::('p'::('a'::('c'::('k'::('a'::('g'::('e'::('s'::('.'::('\n'::('a'::('t'::('l'::('a'::('s'::('_'::('p'::('r'::('o'::('j'::('e'::('c'::('t'::('('::(' '::('U'::('s'::('e'::('r'::('A'::('n'::('a'::('l'::('y'::('s'::('i'::('s'::(' '::('1'::('.'::('0'::('.'::('0'::('\n'::(' '::(' '::(' '::('U'::('S'::('E'::(' '::('$'::('{'::('A'::('T'::('L'::('A'::('S'::('_'::('P'::('R'::('O'::('J'::('E'::('C'::('T'::('}'::(' '::('$'::('{'::('$'::('{'::('A'::('T'::('L'::('A'::('S'::('_'::('P'::('R'::('O'::('J'::('E'::('C'::('T'::('}'::('_'::('V'::('E'::('R'::('S'::('I'::('O'::('N'::('}'::(' '::(')'::('\n'::('\n'::('#'::(' '::('S'::('e'::('t'::(' '::('u'::('p'::(' '::('t'::('h'::('e'::(' '::('r'::('u'::('n'::('t'::('i'::('m'::('e'::(' '::('e'::('n'::('v'::('i'::('r'::('o'::('n'::('m'::('e'::('n'::('t'::(' '::('s'::('e'::('t'::('u'::('p'::(' '::('s'::('c'::('r'::('i'::('p'::('t'::('.'::(' '::('T'::('h'::('i'::('s'::(' '::('m'::('a'::('k'::('e'::('s'::(' '::('s'::('u'::('r'::('e'::(' '::('t'::('h'::('a'::('t'::(' '::('t'::('h'::('e'::('\n'::('#'::(' '::('p'::('r'::('o'::('j'::('e'::('c'::('t'::('\''::('s'::(' '::('"'::('s'::('e'::('t'::('u'::('p'::('.'::('s'::('h'::('"'::(' '::('s'::('c'::('r'::('i'::('p'::('t'::(' '::('c'::('a'::('n'::(' '::('s'::('e'::('t'::(' '::('u'::('p'::(' '::('a'::(' '::('f'::('u'::('l'::('l'::('y'::(' '::('f'::('u'::('n'::('c'::('t'::('i'::('o'::('n'::('a'::('l'::(' '::('r'::('u'::('n'::('t'::('i'::('m'::('e'::(' '::('e'::('n'::('v'::('i'::('r'::('o'::('n'::('m'::('e'::('n'::('t'::(','::('\n'::('#'::(' '::('i'::('n'::('c'::('l'::('u'::('d'::('i'::('n'::('g'::(' '::('a'::('l'::('l'::(' '::('t'::('h'::('e'::(' '::('e'::('x'::('t'::('e'::('r'::('n'::('a'::('l'::('s'::(' '::('t'::('h'::('a'::('t'::(' '::('t'::('h'::('e'::(' '::('p'::('r'::('o'::('j'::('e'::('c'::('t'::(' '::('u'::('s'::('e'::('s'::('.'::('\n'::('l'::('c'::('g'::('_'::('g'::('e'::('n'::('e'::('r'::('a'::('t'::('e'::('_'::('e'::('n'::('v'::('('::(' '::('S'::('H'::('_'::('F'::('I'::('L'::('E'::(' '::('$'::('{'::('C'::('M'::('A'::('K'::('E'::('_'::('B'::('I'::('N'::('A'::('R'::('Y'::('_'::('D'::('I'::('R'::('}'::('/'::('$'::('{'::('A'::('T'::('L'::('A'::('S'::('_'::('P'::('L'::('A'::('T'::('F'::('O'::('R'::('M'::('}'::('/'::('e'::('n'::('v'::('_'::('s'::('e'::('t'::('u'::('p'::('.'::('s'::('h'::(' '::(')'::('\n'::('i'::('n'::('s'::('t'::('a'::('l'::('l'::('('::(' '::('F'::('I'::('L'::('E'::('S'::(' '::('$'::('{'::('C'::('M'::('A'::('K'::('E'::('_'::('B'::('I'::('N'::('A'::('R'::('Y'::('_'::('D'::('I'::('R'::('}'::('/'::('$'::('{'::('A'::('T'::('L'::('A'::('S'::('_'::('P'::('L'::('A'::('T'::('F'::('O'::('R'::('M'::('}'::('/'::('e'::('n'::('v'::('_'::('s'::('e'::('t'::('u'::('p'::('.'::('s'::('h'::('\n'::(' '::(' '::(' '::('D'::('E'::('S'::('T'::('I'::('N'::('A'::('T'::('I'::('O'::('N'::(' '::('.'::(' '::(')'::('\n'::('\n'::('#'::(' '::('S'::('e'::('t'::(' '::('u'::('p'::(' '::('C'::('P'::('a'::('c'::('k'::('.'::(' '::('T'::('h'::('i'::('s'::(' '::('c'::('a'::('l'::('l'::(' '::('m'::('a'::('k'::('e'::('s'::(' '::('s'::('u'::('r'::('e'::(' '::('t'::('h'::('a'::('t'::(' '::('a'::('n'::(' '::('R'::('P'::('M'::(' '::('o'::('r'::(' '::('T'::('G'::('Z'::(' '::('f'::('i'::('l'::('e'::(' '::('c'::('a'::('n'::(' '::('b'::('e'::(' '::('c'::('r'::('e'::('a'::('t'::('e'::('d'::('\n'::('#'::(' '::('f'::('r'::('o'::('m'::(' '::('t'::('h'::('e'::(' '::('b'::('u'::('i'::('l'::('t'::(' '::('p'::('r'::('o'::('j'::('e'::('c'::('t'::('.'::(' '::('U'::('s'::('e'::('d'::(' '::('b'::('y'::(' '::('P'::('a'::('n'::('d'::('a'::(' '::('t'::('o'::(' '::('s'::('e'::('n'::('d'::(' '::('t'::('h'::('e'::(' '::('p'::('r'::('o'::('j'::('e'::('c'::('t'::(' '::('t'::('o'::(' '::('t'::('h'::('e'::(' '::('g'::('r'::('i'::('d'::(' '::('w'::('o'::('r'::('k'::('e'::('r'::('\n'::('#'::(' '::('n'::('o'::('d'::('e'::('s'::('.'::('\n'::('a'::('t'::('l'::('a'::('s'::('_'::('c'::('p'::('a'::('c'::('k'::('_'::('s'::('e'::('t'::('u'::('p'::('('::(')'::('\n'::[]))))))))))))))))))))))))))))))))))))))))))))))))))))))))))))))))))))))))))))))))))))))))))))))))))))))))))))))))))))))))))))))))))))))))))))))))))))))))))))))))))))))))))))))))))))))))))))))))))))))))))))))))))))))))))))))))))))))))))))))))))))))))))))))))))))))))))))))))))))))))))))))))))))))))))))))))))))))))))))))))))))))))))))))))))))))))))))))))))))))))))))))))))))))))))))))))))))))))))))))))))))))))))))))))))))))))))))))))))))))))))))))))))))))))))))))))))))))))))))))))))))))))))))))))))))))))))))))))))))))))))))))))))))))))))))))))))))))))))))))))))))))))))))))))))))))))))))))))))))))))))))))))))))))))))))))))))))))))))))))))))))))))))))))))))))))))))))))))))))))))))))))))))))))))))))))))))))))))))))))))))))))))))))))))))))))))))))))))))))))))))))))))))))))))))))))))))))))))))))))))))))))))))))))))))))))))))))))))))))))))))))))))))))))))))))))))))))))))))))))))))))))))))))))))))))))))))))))))))))))))))))))))))))))))))))))))))))))))))))))))))))))))))))))))))))))))))))))))))))))))))))))))))))))))))))))))))))))))))))))))))))))))))))))))))))))))))))))))))))))))))))))))))))))))))))))))))))))))))))))))))))))))))))))))))))))))))))))))))))))))))))))))))))))))))))))))))))))))))))))))))))))))))))))))))))))))))))))))))))))))))))))))))))))))))))))))))))))))))))))))))))))))))))))))))))))))))))))))))))))))))))))))))))))))))))))))))))))))))))))))))))))))))))))))))))))))))))))))))))))))))))))))))))))))))))))))))))))))))))))))))))))))))))))))))))))))))))))))))))))))))))))))))))))))))))))))))))))))))))))))))))))))))))))))))))))))))))))))))))))))))))))))))))))))))))))))))))))))))))))))))))))))))))))))))))))))))))))))))))))))))))))))))))))))))))))))))))))))))))))))))))))))))))))))))))))))))))))))))))))))))))))))))))))))))))))))))))))))))))))))))))))))))))))))))))))))))))))))))))))))))))))))))))))))))))))))))))))))))))))))))))))))))))))))))))))))))))))))))))))))))))))))))))))))))))))))))))))))))))))))))))))))))))))))))))))))))))))))))))))))))))))))))))))))))))))))))))))))))))))))))))))))))))))))))))))))))))))))))))))))))))))))))))))))))))))))))))))))))))))))))))))))))))))))))))))))))))))))))))))))))) :: (('#'::('i'::('f'::('n'::('d'::('e'::('f'::(' '::('a'::('n'::('a'::('l'::('y'::('s'::('i'::('s'::('_'::('q'::('u'::('e'::('r'::('y'::('_'::('D'::('I'::('C'::('T'::('_'::('H'::('\n'::('#'::('d'::('e'::('f'::('i'::('n'::('e'::(' '::('a'::('n'::('a'::('l'::('y'::('s'::('i'::('s'::('_'::('q'::('u'::('e'::('r'::('y'::('_'::('D'::('I'::('C'::('T'::('_'::('H'::('\n'::('\n'::('/'::('/'::(' '::('T'::('h'::('i'::('s'::(' '::('f'::('i'::('l'::('e'::(' '::('i'::('n'::('c'::('l'::('u'::('d'::('e'::('s'::(' '::('a'::('l'::('l'::(' '::('t'::('h'::('e'::(' '::('h'::('e'::('a'::('d'::('e'::('r'::(' '::('f'::('i'::('l'::('e'::('s'::(' '::('t'::('h'::('a'::('t'::(' '::('y'::('o'::('u'::(' '::('n'::('e'::('e'::('d'::(' '::('t'::('o'::(' '::('c'::('r'::('e'::('a'::('t'::('e'::('\n'::('/'::('/'::(' '::('d'::('i'::('c'::('t'::('i'::('o'::('n'::('a'::('r'::('i'::('e'::('s'::(' '::('f'::('o'::('r'::('.'::('\n'::('\n'::('#'::('i'::('n'::('c'::('l'::('u'::('d'::('e'::(' '::('<'::('a'::('n'::('a'::('l'::('y'::('s'::('i'::('s'::('/'::('q'::('u'::('e'::('r'::('y'::('.'::('h'::('>'::('\n'::('\n'::('#'::('e'::('n'::('d'::('i'::('f'::('\n'::[])))))))))))))))))))))))))))))))))))))))))))))))))))))))))))))))))))))))))))))))))))))))))))))))))))))))))))))))))))))))))))))))))))))))))))))))))))))))))))))))))))))))))))))))))))))))))) :: (('<'::('l'::('c'::('g'::('d'::('i'::('c'::('t'::('>'::('\n'::('\n'::(' '::(' '::('<'::('!'::('-'::('-'::(' '::('T'::('h'::('i'::('s'::(' '::('f'::('i'::('l'::('e'::(' '::('c'::('o'::('n'::('t'::('a'::('i'::('n'::('s'::(' '::('a'::(' '::('l'::('i'::('s'::('t'::(' '::('o'::('f'::(' '::('a'::('l'::('l'::(' '::('c'::('l'::('a'::('s'::('s'::('e'::('s'::(' '::('f'::('o'::('r'::(' '::('w'::('h'::('i'::('c'::('h'::(' '::('a'::(' '::('d'::('i'::('c'::('t'::('i'::('o'::('n'::('a'::('r'::('y'::('\n'::(' '::(' '::(' '::(' '::(' '::(' '::(' '::('s'::('h'::('o'::('u'::('l'::('d'::(' '::('b'::('e'::(' '::('c'::('r'::('e'::('a'::('t'::('e'::('d'::('.'::(' '::('-'::('-'::('>'::('\n'::('\n'::(' '::(' '::('<'::('c'::('l'::('a'::('s'::('s'::(' '::('n'::('a'::('m'::('e'::('='::('"'::('q'::('u'::('e'::('r'::('y'::('"'::(' '::('/'::('>'::('\n'::(' '::(' '::(' '::('\n'::('<'::('/'::('l'::('c'::('g'::('d'::('i'::('c'::('t'::('>'::('\n'::[]))))))))))))))))))))))))))))))))))))))))))))))))))))))))))))))))))))))))))))))))))))))))))))))))))))))))))))))))))))))))))))))))))))))))))))))))))))))))) :: []))

(** val script_rest : cmds **)

let script_rest =
  script_rest_of (fun i -> nth i heredocs [])

(** val script : cmds **)

let script =
  capp script_pre (CCons ((CGetopts (script_os, script_var, script_arms)),
    script_rest))

(** val script_pre0 : cmds **)

let script_pre0 =
  CCons (CSetE, (CCons (CSetX, (CCons ((CAssign
    (('o'::('u'::('t'::('p'::('u'::('t'::('_'::('m'::('e'::('t'::('h'::('o'::('d'::[]))))))))))))),
    ((WLit ('c'::('p'::[]))) :: []))), (CCons ((CAssign
    (('o'::('u'::('t'::('p'::('u'::('t'::('_'::('d'::('i'::('r'::[])))))))))),
    ((WLit
    ('/'::('r'::('e'::('s'::('u'::('l'::('t'::('s'::[]))))))))) :: []))),
    (CCons ((CAssign
    (('i'::('n'::('p'::('u'::('t'::('_'::('m'::('e'::('t'::('h'::('o'::('d'::[])))))))))))),
    ((WLit
    ('f'::('i'::('l'::('e'::('l'::('i'::('s'::('t'::[]))))))))) :: []))),
    (CCons ((CAssign
    (('i'::('n'::('p'::('u'::('t'::('_'::('f'::('i'::('l'::('e'::[])))))))))),
    ((WLit []) :: []))), (CCons ((CAssign
    (('c'::('o'::('m'::('p'::('i'::('l'::('e'::[]))))))), ((WLit
    ('1'::[])) :: []))), (CCons ((CAssign (('r'::('u'::('n'::[]))), ((WLit
    ('1'::[])) :: []))), CNil)))))))))))))))

(** val script_os0 : char list **)

let script_os0 =
  'd'::(':'::('o'::(':'::('c'::('r'::[])))))

(** val script_var0 : char list **)

let script_var0 =
  'o'::('p'::('t'::[]))

(** val script_arms0 : arms **)

let script_arms0 =
  ACons (('d'::[]), (CCons ((CAssign
    (('i'::('n'::('p'::('u'::('t'::('_'::('m'::('e'::('t'::('h'::('o'::('d'::[])))))))))))),
    ((WLit ('c'::('m'::('d'::[])))) :: []))), (CCons ((CAssign
    (('i'::('n'::('p'::('u'::('t'::('_'::('f'::('i'::('l'::('e'::[])))))))))),
    ((WVar (false, ('O'::('P'::('T'::('A'::('R'::('G'::[])))))))) :: []))),
    CNil)))), (ACons (('c'::[]), (CCons ((CAssign (('r'::('u'::('n'::[]))),
    ((WLit ('0'::[])) :: []))), CNil)), (ACons (('r'::[]), (CCons ((CAssign
    (('c'::('o'::('m'::('p'::('i'::('l'::('e'::[]))))))), ((WLit
    ('0'::[])) :: []))), CNil)), (ACons (('o'::[]), (CCons ((CAssign
    (('o'::('u'::('t'::('p'::('u'::('t'::('_'::('d'::('i'::('r'::[])))))))))),
    ((WVar (false, ('O'::('P'::('T'::('A'::('R'::('G'::[])))))))) :: []))),
    CNil)), (ACons (('?'::[]), (CCons ((CExit (S (S (S (S (S (S (S (S (S (S
    O))))))))))), CNil)), ANil)))))))))

(** val script_rest_of0 : (nat -> char list) -> cmds **)

let script_rest_of0 _ =
  CCons (CShiftOpt, (CCons ((CIf ((BCons (TArgsLeft, (CCons ((CEcho ((((WLit
    ('E'::('x'::('t'::('r'::('a'::(' '::('a'::('r'::('g'::('u'::('m'::('e'::('n'::('t'::('s'::(' '::('o'::('n'::(' '::('t'::('h'::('e'::(' '::('c'::('o'::('m'::('m'::('a'::('n'::('d'::(' '::('l'::('i'::('n'::('e'::(' '::[]))))))))))))))))))))))))))))))))))))) :: ((WVar
    (true, ('@'::[]))) :: [])) :: []), None)), (CCons ((CExit (S O)),
    CNil)))), BNil)), CNil)), (CCons ((CIf ((BCons ((TStrZ ((WVar (true,
    ('C'::('V'::('S'::('R'::('O'::('O'::('T'::[]))))))))) :: [])), (CCons
    ((CSource ((WLit
    ('/'::('o'::('p'::('t'::('/'::('c'::('m'::('s'::('/'::('e'::('n'::('t'::('r'::('y'::('p'::('o'::('i'::('n'::('t'::('.'::('s'::('h'::[]))))))))))))))))))))))) :: [])),
    CNil)), BNil)), CNil)), (CCons ((CScriptDir ('D'::('I'::('R'::[])))),
    (CCons ((CPwdTo ('l'::('o'::('c'::('a'::('l'::[])))))), (CCons ((CIf
    ((BCons ((TEq (((WVar (false,
    ('c'::('o'::('m'::('p'::('i'::('l'::('e'::[]))))))))) :: []), ((WLit
    ('1'::[])) :: []))), (CCons ((CRun (((WLit
    ('m'::('k'::('d'::('i'::('r'::[])))))) :: []) :: (((WLit
    ('a'::('n'::('a'::('l'::('y'::('s'::('i'::('s'::[]))))))))) :: []) :: []))),
    (CCons ((CCd ((WLit
    ('a'::('n'::('a'::('l'::('y'::('s'::('i'::('s'::[]))))))))) :: [])),
    (CCons ((CRun (((WLit
    ('m'::('k'::('e'::('d'::('a'::('n'::('l'::('z'::('r'::[])))))))))) :: []) :: (((WLit
    ('A'::('n'::('a'::('l'::('y'::('z'::('e'::('r'::[]))))))))) :: []) :: []))),
    (CCons ((CCd ((WLit
    ('A'::('n'::('a'::('l'::('y'::('z'::('e'::('r'::[]))))))))) :: [])),
    (CCons ((CRun (((WLit ('c'::('p'::[]))) :: []) :: (((WVar (false,
    ('D'::('I'::('R'::[]))))) :: ((WLit
    ('/'::('A'::('n'::('a'::('l'::('y'::('z'::('e'::('r'::('.'::('c'::('c'::[]))))))))))))) :: [])) :: (((WLit
    ('.'::('/'::('s'::('r'::('c'::('/'::[]))))))) :: []) :: [])))), (CCons
    ((CRun (((WLit ('c'::('p'::[]))) :: []) :: (((WVar (false,
    ('D'::('I'::('R'::[]))))) :: ((WLit
    ('/'::('a'::('n'::('a'::('l'::('y'::('z'::('e'::('r'::('_'::('c'::('f'::('g'::('.'::('p'::('y'::[]))))))))))))))))) :: [])) :: (((WLit
    ('.'::[])) :: []) :: [])))), (CCons ((CRun (((WLit
    ('c'::('p'::[]))) :: []) :: (((WVar (false,
    ('D'::('I'::('R'::[]))))) :: ((WLit
    ('/'::('B'::('u'::('i'::('l'::('d'::('F'::('i'::('l'::('e'::('.'::('x'::('m'::('l'::[]))))))))))))))) :: [])) :: (((WLit
    ('.'::[])) :: []) :: [])))), (CCons ((CRun (((WLit
    ('s'::('c'::('r'::('a'::('m'::[])))))) :: []) :: (((WLit
    ('b'::[])) :: []) :: []))), CNil)))))))))))))))), BNil)), (CCons ((CCd
    ((WLit
    ('a'::('n'::('a'::('l'::('y'::('s'::('i'::('s'::('/'::('A'::('n'::('a'::('l'::('y'::('z'::('e'::('r'::[])))))))))))))))))) :: [])),
    CNil)))), (CCons ((CIf ((BCons ((TEq (((WVar (false,
    ('r'::('u'::('n'::[]))))) :: []), ((WLit ('1'::[])) :: []))), (CCons
    ((CIf ((BCons ((TEq (((WVar (true,
    ('i'::('n'::('p'::('u'::('t'::('_'::('m'::('e'::('t'::('h'::('o'::('d'::[])))))))))))))) :: []),
    ((WLit
    ('f'::('i'::('l'::('e'::('l'::('i'::('s'::('t'::[]))))))))) :: []))),
    (CCons ((CIf ((BCons ((TFileE ((WVar (false,
    ('D'::('I'::('R'::[]))))) :: ((WLit
    ('/'::('f'::('i'::('l'::('e'::('l'::('i'::('s'::('t'::('.'::('t'::('x'::('t'::[])))))))))))))) :: []))),
    (CCons ((CRun (((WLit ('c'::('p'::[]))) :: []) :: (((WVar (false,
    ('D'::('I'::('R'::[]))))) :: ((WLit
    ('/'::('f'::('i'::('l'::('e'::('l'::('i'::('s'::('t'::('.'::('t'::('x'::('t'::[])))))))))))))) :: [])) :: (((WLit
    ('.'::[])) :: []) :: [])))), CNil)), BNil)), (CCons ((CRun (((WLit
    ('c'::('p'::[]))) :: []) :: (((WVar (false,
    ('l'::('o'::('c'::('a'::('l'::[]))))))) :: ((WLit
    ('/'::('f'::('i'::('l'::('e'::('l'::('i'::('s'::('t'::('.'::('t'::('x'::('t'::[])))))))))))))) :: [])) :: (((WLit
    ('.'::[])) :: []) :: [])))), CNil)))), CNil)), (BCons ((TEq (((WVar
    (true,
    ('i'::('n'::('p'::('u'::('t'::('_'::('m'::('e'::('t'::('h'::('o'::('d'::[])))))))))))))) :: []),
    ((WLit ('c'::('m'::('d'::[])))) :: []))), (CCons ((CEcho ((((WVar (true,
    ('i'::('n'::('p'::('u'::('t'::('_'::('f'::('i'::('l'::('e'::[])))))))))))) :: []) :: []),
    (Some ((WLit
    ('f'::('i'::('l'::('e'::('l'::('i'::('s'::('t'::('.'::('t'::('x'::('t'::[]))))))))))))) :: [])))),
    CNil)), BNil)))), CNil)), (CCons ((CIf ((BCons ((TEq (((WVar (false,
    ('o'::('u'::('t'::('p'::('u'::('t'::('_'::('m'::('e'::('t'::('h'::('o'::('d'::[]))))))))))))))) :: []),
    ((WLit ('c'::('p'::[]))) :: []))), (CCons ((CIf ((BCons ((TFileD ((WVar
    (false,
    ('o'::('u'::('t'::('p'::('u'::('t'::('_'::('d'::('i'::('r'::[])))))))))))) :: [])),
    (CCons ((CAssign
    (('d'::('e'::('s'::('t'::('i'::('n'::('a'::('t'::('i'::('o'::('n'::[]))))))))))),
    ((WVar (false,
    ('o'::('u'::('t'::('p'::('u'::('t'::('_'::('d'::('i'::('r'::[])))))))))))) :: ((WLit
    ('/'::('A'::('N'::('A'::('L'::('Y'::('S'::('I'::('S'::('.'::('r'::('o'::('o'::('t'::[]))))))))))))))) :: [])))),
    CNil)), BNil)), (CCons ((CAssign
    (('d'::('e'::('s'::('t'::('i'::('n'::('a'::('t'::('i'::('o'::('n'::[]))))))))))),
    ((WVar (false,
    ('o'::('u'::('t'::('p'::('u'::('t'::('_'::('d'::('i'::('r'::[])))))))))))) :: []))),
    CNil)))), (CCons ((CAssign (('c'::('m'::('d'::[]))), ((WLit
    ('c'::('p'::[]))) :: []))), CNil)))), BNil)), (CCons ((CAssign
    (('d'::('e'::('s'::('t'::('i'::('n'::('a'::('t'::('i'::('o'::('n'::[]))))))))))),
    ((WVar (false, ('1'::[]))) :: []))), (CCons ((CAssign
    (('c'::('m'::('d'::[]))), ((WLit ('c'::('p'::[]))) :: []))), (CCons ((CIf
    ((BCons ((TPrefix (((WVar (false,
    ('d'::('e'::('s'::('t'::('i'::('n'::('a'::('t'::('i'::('o'::('n'::[]))))))))))))) :: []),
    ('r'::('o'::('o'::('t'::(':'::[]))))))), (CCons ((CAssign
    (('c'::('m'::('d'::[]))), ((WLit
    ('x'::('r'::('d'::('c'::('p'::[])))))) :: []))), CNil)), BNil)), CNil)),
    CNil)))))))), (CCons ((CExport
    (('C'::('M'::('S'::('_'::('O'::('U'::('T'::('P'::('U'::('T'::('_'::('F'::('I'::('L'::('E'::[]))))))))))))))),
    ((WLit
    ('A'::('N'::('A'::('L'::('Y'::('S'::('I'::('S'::('.'::('r'::('o'::('o'::('t'::[])))))))))))))) :: []))),
    (CCons ((CRun (((WLit
    ('c'::('m'::('s'::('R'::('u'::('n'::[]))))))) :: []) :: (((WLit
    ('a'::('n'::('a'::('l'::('y'::('z'::('e'::('r'::('_'::('c'::('f'::('g'::('.'::('p'::('y'::[])))))))))))))))) :: []) :: []))),
    (CCons ((CIf ((BCons ((TEq (((WVar (false,
    ('c'::('m'::('d'::[]))))) :: []), ((WLit ('c'::('p'::[]))) :: []))),
    (CCons ((CAssign (('c'::('v'::('t'::[]))), ((WLit
    ('r'::('o'::('o'::('t'::(' '::('-'::('b'::(' '::('-'::('l'::(' '::('-'::('q'::(' '::('$'::('D'::('I'::('R'::('/'::('c'::('o'::('p'::('y'::('_'::('r'::('o'::('o'::('t'::('_'::('t'::('r'::('e'::('e'::('.'::('C'::('\\'::('('::('\\'::('"'::('.'::('/'::('$'::('C'::('M'::('S'::('_'::('O'::('U'::('T'::('P'::('U'::('T'::('_'::('F'::('I'::('L'::('E'::('\\'::('"'::(','::('\\'::('"'::('$'::('d'::('e'::('s'::('t'::('i'::('n'::('a'::('t'::('i'::('o'::('n'::('\\'::('"'::('\\'::(')'::[]))))))))))))))))))))))))))))))))))))))))))))))))))))))))))))))))))))))))))))))) :: []))),
    (CCons ((CEval (('c'::('v'::('t'::[]))),
    ('r'::('o'::('o'::('t'::(' '::('-'::('b'::(' '::('-'::('l'::(' '::('-'::('q'::(' '::('$'::('D'::('I'::('R'::('/'::('c'::('o'::('p'::('y'::('_'::('r'::('o'::('o'::('t'::('_'::('t'::('r'::('e'::('e'::('.'::('C'::('\\'::('('::('\\'::('"'::('.'::('/'::('$'::('C'::('M'::('S'::('_'::('O'::('U'::('T'::('P'::('U'::('T'::('_'::('F'::('I'::('L'::('E'::('\\'::('"'::(','::('\\'::('"'::('$'::('d'::('e'::('s'::('t'::('i'::('n'::('a'::('t'::('i'::('o'::('n'::('\\'::('"'::('\\'::(')'::[])))))))))))))))))))))))))))))))))))))))))))))))))))))))))))))))))))))))))))))),
    (CRun (((WLit ('r'::('o'::('o'::('t'::[]))))) :: []) :: (((WLit
    ('-'::('b'::[]))) :: []) :: (((WLit ('-'::('l'::[]))) :: []) :: (((WLit
    ('-'::('q'::[]))) :: []) :: (((WVar (false,
    ('D'::('I'::('R'::[]))))) :: ((WLit
    ('/'::('c'::('o'::('p'::('y'::('_'::('r'::('o'::('o'::('t'::('_'::('t'::('r'::('e'::('e'::('.'::('C'::('('::('"'::('.'::('/'::[])))))))))))))))))))))) :: ((WVar
    (false,
    ('C'::('M'::('S'::('_'::('O'::('U'::('T'::('P'::('U'::('T'::('_'::('F'::('I'::('L'::('E'::[]))))))))))))))))) :: ((WLit
    ('"'::(','::('"'::[])))) :: ((WVar (false,
    ('d'::('e'::('s'::('t'::('i'::('n'::('a'::('t'::('i'::('o'::('n'::[]))))))))))))) :: ((WLit
    ('"'::(')'::[]))) :: [])))))) :: [])))))))), CNil)))), BNil)), (CCons
    ((CAssign (('c'::('v'::('t'::[]))), ((WLit
    ('r'::('o'::('o'::('t'::(' '::('-'::('b'::(' '::('-'::('l'::(' '::('-'::('q'::(' '::('$'::('D'::('I'::('R'::('/'::('c'::('o'::('p'::('y'::('_'::('r'::('o'::('o'::('t'::('_'::('t'::('r'::('e'::('e'::('.'::('C'::('\\'::('('::('\\'::('"'::('.'::('/'::('$'::('C'::('M'::('S'::('_'::('O'::('U'::('T'::('P'::('U'::('T'::('_'::('F'::('I'::('L'::('E'::('\\'::('"'::(','::('\\'::('"'::('t'::('e'::('m'::('p'::('-'::('o'::('u'::('t'::('p'::('u'::('t'::('.'::('r'::('o'::('o'::('t'::('\\'::('"'::('\\'::(')'::[]))))))))))))))))))))))))))))))))))))))))))))))))))))))))))))))))))))))))))))))))))) :: []))),
    (CCons ((CEval (('c'::('v'::('t'::[]))),
    ('r'::('o'::('o'::('t'::(' '::('-'::('b'::(' '::('-'::('l'::(' '::('-'::('q'::(' '::('$'::('D'::('I'::('R'::('/'::('c'::('o'::('p'::('y'::('_'::('r'::('o'::('o'::('t'::('_'::('t'::('r'::('e'::('e'::('.'::('C'::('\\'::('('::('\\'::('"'::('.'::('/'::('$'::('C'::('M'::('S'::('_'::('O'::('U'::('T'::('P'::('U'::('T'::('_'::('F'::('I'::('L'::('E'::('\\'::('"'::(','::('\\'::('"'::('t'::('e'::('m'::('p'::('-'::('o'::('u'::('t'::('p'::('u'::('t'::('.'::('r'::('o'::('o'::('t'::('\\'::('"'::('\\'::(')'::[])))))))))))))))))))))))))))))))))))))))))))))))))))))))))))))))))))))))))))))))))),
    (CRun (((WLit ('r'::('o'::('o'::('t'::[]))))) :: []) :: (((WLit
    ('-'::('b'::[]))) :: []) :: (((WLit ('-'::('l'::[]))) :: []) :: (((WLit
    ('-'::('q'::[]))) :: []) :: (((WVar (false,
    ('D'::('I'::('R'::[]))))) :: ((WLit
    ('/'::('c'::('o'::('p'::('y'::('_'::('r'::('o'::('o'::('t'::('_'::('t'::('r'::('e'::('e'::('.'::('C'::('('::('"'::('.'::('/'::[])))))))))))))))))))))) :: ((WVar
    (false,
    ('C'::('M'::('S'::('_'::('O'::('U'::('T'::('P'::('U'::('T'::('_'::('F'::('I'::('L'::('E'::[]))))))))))))))))) :: ((WLit
    ('"'::(','::('"'::('t'::('e'::('m'::('p'::('-'::('o'::('u'::('t'::('p'::('u'::('t'::('.'::('r'::('o'::('o'::('t'::('"'::(')'::[])))))))))))))))))))))) :: [])))) :: [])))))))),
    (CCons ((CRun (((WVar (false, ('c'::('m'::('d'::[]))))) :: []) :: (((WLit
    ('.'::('/'::('t'::('e'::('m'::('p'::('-'::('o'::('u'::('t'::('p'::('u'::('t'::('.'::('r'::('o'::('o'::('t'::[]))))))))))))))))))) :: []) :: (((WVar
    (false,
    ('d'::('e'::('s'::('t'::('i'::('n'::('a'::('t'::('i'::('o'::('n'::[]))))))))))))) :: []) :: [])))),
    CNil)))))))), CNil)))))))))), BNil)), CNil)), CNil)))))))))))))

(** val heredocs0 : char list list **)

let heredocs0 =
  []

(** val script_rest0 : cmds **)

let script_rest0 =
  script_rest_of0 (fun i -> nth i heredocs0 [])

(** val script0 : cmds **)

let script0 =
  capp script_pre0 (CCons ((CGetopts (script_os0, script_var0,
    script_arms0)), script_rest0))

(** val script_pre1 : cmds **)

let script_pre1 =
  CCons (CSetE, (CCons (CSetX, (CCons ((CAssign
    (('o'::('u'::('t'::('p'::('u'::('t'::('_'::('m'::('e'::('t'::('h'::('o'::('d'::[]))))))))))))),
    ((WLit ('c'::('p'::[]))) :: []))), (CCons ((CAssign
    (('o'::('u'::('t'::('p'::('u'::('t'::('_'::('d'::('i'::('r'::[])))))))))),
    ((WLit
    ('/'::('r'::('e'::('s'::('u'::('l'::('t'::('s'::[]))))))))) :: []))),
    (CCons ((CAssign
    (('i'::('n'::('p'::('u'::('t'::('_'::('m'::('e'::('t'::('h'::('o'::('d'::[])))))))))))),
    ((WLit
    ('f'::('i'::('l'::('e'::('l'::('i'::('s'::('t'::[]))))))))) :: []))),
    (CCons ((CAssign
    (('i'::('n'::('p'::('u'::('t'::('_'::('f'::('i'::('l'::('e'::[])))))))))),
    ((WLit []) :: []))), (CCons ((CAssign
    (('c'::('o'::('m'::('p'::('i'::('l'::('e'::[]))))))), ((WLit
    ('1'::[])) :: []))), (CCons ((CAssign (('r'::('u'::('n'::[]))), ((WLit
    ('1'::[])) :: []))), CNil)))))))))))))))

(** val script_os1 : char list **)

let script_os1 =
  'd'::(':'::('o'::(':'::('c'::('r'::[])))))

(** val script_var1 : char list **)

let script_var1 =
  'o'::('p'::('t'::[]))

(** val script_arms1 : arms **)

let script_arms1 =
  ACons (('d'::[]), (CCons ((CAssign
    (('i'::('n'::('p'::('u'::('t'::('_'::('m'::('e'::('t'::('h'::('o'::('d'::[])))))))))))),
    ((WLit ('c'::('m'::('d'::[])))) :: []))), (CCons ((CAssign
    (('i'::('n'::('p'::('u'::('t'::('_'::('f'::('i'::('l'::('e'::[])))))))))),
    ((WVar (false, ('O'::('P'::('T'::('A'::('R'::('G'::[])))))))) :: []))),
    CNil)))), (ACons (('c'::[]), (CCons ((CAssign (('r'::('u'::('n'::[]))),
    ((WLit ('0'::[])) :: []))), CNil)), (ACons (('r'::[]), (CCons ((CAssign
    (('c'::('o'::('m'::('p'::('i'::('l'::('e'::[]))))))), ((WLit
    ('0'::[])) :: []))), CNil)), (ACons (('o'::[]), (CCons ((CAssign
    (('o'::('u'::('t'::('p'::('u'::('t'::('_'::('d'::('i'::('r'::[])))))))))),
    ((WVar (false, ('O'::('P'::('T'::('A'::('R'::('G'::[])))))))) :: []))),
    CNil)), (ACons (('?'::[]), (CCons ((CExit (S (S (S (S (S (S (S (S (S (S
    O))))))))))), CNil)), ANil)))))))))

(** val script_rest_of1 : (nat -> char list) -> cmds **)

let script_rest_of1 _ =
  CCons (CShiftOpt, (CCons ((CIf ((BCons (TArgsLeft, (CCons ((CEcho ((((WLit
    ('E'::('x'::('t'::('r'::('a'::(' '::('a'::('r'::('g'::('u'::('m'::('e'::('n'::('t'::('s'::(' '::('o'::('n'::(' '::('t'::('h'::('e'::(' '::('c'::('o'::('m'::('m'::('a'::('n'::('d'::(' '::('l'::('i'::('n'::('e'::(' '::[]))))))))))))))))))))))))))))))))))))) :: ((WVar
    (true, ('@'::[]))) :: [])) :: []), None)), (CCons ((CExit (S O)),
    CNil)))), BNil)), CNil)), (CCons ((CIf ((BCons ((TStrZ ((WVar (true,
    ('C'::('V'::('S'::('R'::('O'::('O'::('T'::[]))))))))) :: [])), (CCons
    ((CSource ((WLit
    ('/'::('o'::('p'::('t'::('/'::('c'::('m'::('s'::('/'::('e'::('n'::('t'::('r'::('y'::('p'::('o'::('i'::('n'::('t'::('.'::('s'::('h'::[]))))))))))))))))))))))) :: [])),
    CNil)), BNil)), CNil)), (CCons ((CScriptDir ('D'::('I'::('R'::[])))),
    (CCons ((CPwdTo ('l'::('o'::('c'::('a'::('l'::[])))))), (CCons ((CIf
    ((BCons ((TEq (((WVar (false,
    ('c'::('o'::('m'::('p'::('i'::('l'::('e'::[]))))))))) :: []), ((WLit
    ('1'::[])) :: []))), (CCons ((CRun (((WLit
    ('m'::('k'::('d'::('i'::('r'::[])))))) :: []) :: (((WLit
    ('a'::('n'::('a'::('l'::('y'::('s'::('i'::('s'::[]))))))))) :: []) :: []))),
    (CCons ((CCd ((WLit
    ('a'::('n'::('a'::('l'::('y'::('s'::('i'::('s'::[]))))))))) :: [])),
    (CCons ((CRun (((WLit
    ('m'::('k'::('e'::('d'::('a'::('n'::('l'::('z'::('r'::[])))))))))) :: []) :: (((WLit
    ('A'::('n'::('a'::('l'::('y'::('z'::('e'::('r'::[]))))))))) :: []) :: []))),
    (CCons ((CCd ((WLit
    ('A'::('n'::('a'::('l'::('y'::('z'::('e'::('r'::[]))))))))) :: [])),
    (CCons ((CRun (((WLit ('c'::('p'::[]))) :: []) :: (((WVar (false,
    ('D'::('I'::('R'::[]))))) :: ((WLit
    ('/'::('A'::('n'::('a'::('l'::('y'::('z'::('e'::('r'::('.'::('c'::('c'::[]))))))))))))) :: [])) :: (((WLit
    ('.'::('/'::('p'::('l'::('u'::('g'::('i'::('n'::('s'::('/'::[]))))))))))) :: []) :: [])))),
    (CCons ((CRun (((WLit ('c'::('p'::[]))) :: []) :: (((WVar (false,
    ('D'::('I'::('R'::[]))))) :: ((WLit
    ('/'::('a'::('n'::('a'::('l'::('y'::('z'::('e'::('r'::('_'::('c'::('f'::('g'::('.'::('p'::('y'::[]))))))))))))))))) :: [])) :: (((WLit
    ('.'::('/'::('p'::('y'::('t'::('h'::('o'::('n'::('/'::('C'::('o'::('n'::('f'::('F'::('i'::('l'::('e'::('_'::('c'::('f'::('g'::('.'::('p'::('y'::[]))))))))))))))))))))))))) :: []) :: [])))),
    (CCons ((CRun (((WLit ('c'::('p'::[]))) :: []) :: (((WVar (false,
    ('D'::('I'::('R'::[]))))) :: ((WLit
    ('/'::('B'::('u'::('i'::('l'::('d'::('F'::('i'::('l'::('e'::('.'::('x'::('m'::('l'::[]))))))))))))))) :: [])) :: (((WLit
    ('.'::('/'::('p'::('l'::('u'::('g'::('i'::('n'::('s'::('/'::[]))))))))))) :: []) :: [])))),
    (CCons ((CRun (((WLit
    ('s'::('c'::('r'::('a'::('m'::[])))))) :: []) :: (((WLit
    ('b'::[])) :: []) :: []))), CNil)))))))))))))))), BNil)), (CCons ((CCd
    ((WLit
    ('a'::('n'::('a'::('l'::('y'::('s'::('i'::('s'::('/'::('A'::('n'::('a'::('l'::('y'::('z'::('e'::('r'::[])))))))))))))))))) :: [])),
    CNil)))), (CCons ((CIf ((BCons ((TEq (((WVar (false,
    ('r'::('u'::('n'::[]))))) :: []), ((WLit ('1'::[])) :: []))), (CCons
    ((CIf ((BCons ((TEq (((WVar (true,
    ('i'::('n'::('p'::('u'::('t'::('_'::('m'::('e'::('t'::('h'::('o'::('d'::[])))))))))))))) :: []),
    ((WLit
    ('f'::('i'::('l'::('e'::('l'::('i'::('s'::('t'::[]))))))))) :: []))),
    (CCons ((CIf ((BCons ((TFileE ((WVar (false,
    ('D'::('I'::('R'::[]))))) :: ((WLit
    ('/'::('f'::('i'::('l'::('e'::('l'::('i'::('s'::('t'::('.'::('t'::('x'::('t'::[])))))))))))))) :: []))),
    (CCons ((CRun (((WLit ('c'::('p'::[]))) :: []) :: (((WVar (false,
    ('D'::('I'::('R'::[]))))) :: ((WLit
    ('/'::('f'::('i'::('l'::('e'::('l'::('i'::('s'::('t'::('.'::('t'::('x'::('t'::[])))))))))))))) :: [])) :: (((WLit
    ('.'::[])) :: []) :: [])))), CNil)), BNil)), (CCons ((CRun (((WLit
    ('c'::('p'::[]))) :: []) :: (((WVar (false,
    ('l'::('o'::('c'::('a'::('l'::[]))))))) :: ((WLit
    ('/'::('f'::('i'::('l'::('e'::('l'::('i'::('s'::('t'::('.'::('t'::('x'::('t'::[])))))))))))))) :: [])) :: (((WLit
    ('.'::[])) :: []) :: [])))), CNil)))), CNil)), (BCons ((TEq (((WVar
    (true,
    ('i'::('n'::('p'::('u'::('t'::('_'::('m'::('e'::('t'::('h'::('o'::('d'::[])))))))))))))) :: []),
    ((WLit ('c'::('m'::('d'::[])))) :: []))), (CCons ((CEcho ((((WVar (true,
    ('i'::('n'::('p'::('u'::('t'::('_'::('f'::('i'::('l'::('e'::[])))))))))))) :: []) :: []),
    (Some ((WLit
    ('f'::('i'::('l'::('e'::('l'::('i'::('s'::('t'::('.'::('t'::('x'::('t'::[]))))))))))))) :: [])))),
    CNil)), BNil)))), CNil)), (CCons ((CIf ((BCons ((TEq (((WVar (false,
    ('o'::('u'::('t'::('p'::('u'::('t'::('_'::('m'::('e'::('t'::('h'::('o'::('d'::[]))))))))))))))) :: []),
    ((WLit ('c'::('p'::[]))) :: []))), (CCons ((CIf ((BCons ((TFileD ((WVar
    (false,
    ('o'::('u'::('t'::('p'::('u'::('t'::('_'::('d'::('i'::('r'::[])))))))))))) :: [])),
    (CCons ((CAssign
    (('d'::('e'::('s'::('t'::('i'::('n'::('a'::('t'::('i'::('o'::('n'::[]))))))))))),
    ((WVar (false,
    ('o'::('u'::('t'::('p'::('u'::('t'::('_'::('d'::('i'::('r'::[])))))))))))) :: ((WLit
    ('/'::('A'::('N'::('A'::('L'::('Y'::('S'::('I'::('S'::('.'::('r'::('o'::('o'::('t'::[]))))))))))))))) :: [])))),
    CNil)), BNil)), (CCons ((CAssign
    (('d'::('e'::('s'::('t'::('i'::('n'::('a'::('t'::('i'::('o'::('n'::[]))))))))))),
    ((WVar (false,
    ('o'::('u'::('t'::('p'::('u'::('t'::('_'::('d'::('i'::('r'::[])))))))))))) :: []))),
    CNil)))), (CCons ((CAssign (('c'::('m'::('d'::[]))), ((WLit
    ('c'::('p'::[]))) :: []))), CNil)))), BNil)), (CCons ((CAssign
    (('d'::('e'::('s'::('t'::('i'::('n'::('a'::('t'::('i'::('o'::('n'::[]))))))))))),
    ((WVar (false, ('1'::[]))) :: []))), (CCons ((CAssign
    (('c'::('m'::('d'::[]))), ((WLit ('c'::('p'::[]))) :: []))), (CCons ((CIf
    ((BCons ((TPrefix (((WVar (false,
    ('d'::('e'::('s'::('t'::('i'::('n'::('a'::('t'::('i'::('o'::('n'::[]))))))))))))) :: []),
    ('r'::('o'::('o'::('t'::(':'::[]))))))), (CCons ((CAssign
    (('c'::('m'::('d'::[]))), ((WLit
    ('x'::('r'::('d'::('c'::('p'::[])))))) :: []))), CNil)), BNil)), CNil)),
    CNil)))))))), (CCons ((CExport
    (('C'::('M'::('S'::('_'::('O'::('U'::('T'::('P'::('U'::('T'::('_'::('F'::('I'::('L'::('E'::[]))))))))))))))),
    ((WLit
    ('A'::('N'::('A'::('L'::('Y'::('S'::('I'::('S'::('.'::('r'::('o'::('o'::('t'::[])))))))))))))) :: []))),
    (CCons ((CRun (((WLit
    ('c'::('m'::('s'::('R'::('u'::('n'::[]))))))) :: []) :: (((WLit
    ('p'::('y'::('t'::('h'::('o'::('n'::('/'::('C'::('o'::('n'::('f'::('F'::('i'::('l'::('e'::('_'::('c'::('f'::('g'::('.'::('p'::('y'::[]))))))))))))))))))))))) :: []) :: []))),
    (CCons ((CIf ((BCons ((TEq (((WVar (false,
    ('c'::('m'::('d'::[]))))) :: []), ((WLit ('c'::('p'::[]))) :: []))),
    (CCons ((CAssign (('c'::('v'::('t'::[]))), ((WLit
    ('r'::('o'::('o'::('t'::(' '::('-'::('b'::(' '::('-'::('l'::(' '::('-'::('q'::(' '::('$'::('D'::('I'::('R'::('/'::('c'::('o'::('p'::('y'::('_'::('r'::('o'::('o'::('t'::('_'::('t'::('r'::('e'::('e'::('.'::('C'::('\\'::('('::('\\'::('"'::('.'::('/'::('$'::('C'::('M'::('S'::('_'::('O'::('U'::('T'::('P'::('U'::('T'::('_'::('F'::('I'::('L'::('E'::('\\'::('"'::(','::('\\'::('"'::('$'::('d'::('e'::('s'::('t'::('i'::('n'::('a'::('t'::('i'::('o'::('n'::('\\'::('"'::('\\'::(')'::[]))))))))))))))))))))))))))))))))))))))))))))))))))))))))))))))))))))))))))))))) :: []))),
    (CCons ((CEval (('c'::('v'::('t'::[]))),
    ('r'::('o'::('o'::('t'::(' '::('-'::('b'::(' '::('-'::('l'::(' '::('-'::('q'::(' '::('$'::('D'::('I'::('R'::('/'::('c'::('o'::('p'::('y'::('_'::('r'::('o'::('o'::('t'::('_'::('t'::('r'::('e'::('e'::('.'::('C'::('\\'::('('::('\\'::('"'::('.'::('/'::('$'::('C'::('M'::('S'::('_'::('O'::('U'::('T'::('P'::('U'::('T'::('_'::('F'::('I'::('L'::('E'::('\\'::('"'::(','::('\\'::('"'::('$'::('d'::('e'::('s'::('t'::('i'::('n'::('a'::('t'::('i'::('o'::('n'::('\\'::('"'::('\\'::(')'::[])))))))))))))))))))))))))))))))))))))))))))))))))))))))))))))))))))))))))))))),
    (CRun (((WLit ('r'::('o'::('o'::('t'::[]))))) :: []) :: (((WLit
    ('-'::('b'::[]))) :: []) :: (((WLit ('-'::('l'::[]))) :: []) :: (((WLit
    ('-'::('q'::[]))) :: []) :: (((WVar (false,
    ('D'::('I'::('R'::[]))))) :: ((WLit
    ('/'::('c'::('o'::('p'::('y'::('_'::('r'::('o'::('o'::('t'::('_'::('t'::('r'::('e'::('e'::('.'::('C'::('('::('"'::('.'::('/'::[])))))))))))))))))))))) :: ((WVar
    (false,
    ('C'::('M'::('S'::('_'::('O'::('U'::('T'::('P'::('U'::('T'::('_'::('F'::('I'::('L'::('E'::[]))))))))))))))))) :: ((WLit
    ('"'::(','::('"'::[])))) :: ((WVar (false,
    ('d'::('e'::('s'::('t'::('i'::('n'::('a'::('t'::('i'::('o'::('n'::[]))))))))))))) :: ((WLit
    ('"'::(')'::[]))) :: [])))))) :: [])))))))), CNil)))), BNil)), (CCons
    ((CAssign (('c'::('v'::('t'::[]))), ((WLit
    ('r'::('o'::('o'::('t'::(' '::('-'::('b'::(' '::('-'::('l'::(' '::('-'::('q'::(' '::('$'::('D'::('I'::('R'::('/'::('c'::('o'::('p'::('y'::('_'::('r'::('o'::('o'::('t'::('_'::('t'::('r'::('e'::('e'::('.'::('C'::('\\'::('('::('\\'::('"'::('.'::('/'::('$'::('C'::('M'::('S'::('_'::('O'::('U'::('T'::('P'::('U'::('T'::('_'::('F'::('I'::('L'::('E'::('\\'::('"'::(','::('\\'::('"'::('t'::('e'::('m'::('p'::('-'::('o'::('u'::('t'::('p'::('u'::('t'::('.'::('r'::('o'::('o'::('t'::('\\'::('"'::('\\'::(')'::[]))))))))))))))))))))))))))))))))))))))))))))))))))))))))))))))))))))))))))))))))))) :: []))),
    (CCons ((CEval (('c'::('v'::('t'::[]))),
    ('r'::('o'::('o'::('t'::(' '::('-'::('b'::(' '::('-'::('l'::(' '::('-'::('q'::(' '::('$'::('D'::('I'::('R'::('/'::('c'::('o'::('p'::('y'::('_'::('r'::('o'::('o'::('t'::('_'::('t'::('r'::('e'::('e'::('.'::('C'::('\\'::('('::('\\'::('"'::('.'::('/'::('$'::('C'::('M'::('S'::('_'::('O'::('U'::('T'::('P'::('U'::('T'::('_'::('F'::('I'::('L'::('E'::('\\'::('"'::(','::('\\'::('"'::('t'::('e'::('m'::('p'::('-'::('o'::('u'::('t'::('p'::('u'::('t'::('.'::('r'::('o'::('o'::('t'::('\\'::('"'::('\\'::(')'::[])))))))))))))))))))))))))))))))))))))))))))))))))))))))))))))))))))))))))))))))))),
    (CRun (((WLit ('r'::('o'::('o'::('t'::[]))))) :: []) :: (((WLit
    ('-'::('b'::[]))) :: []) :: (((WLit ('-'::('l'::[]))) :: []) :: (((WLit
    ('-'::('q'::[]))) :: []) :: (((WVar (false,
    ('D'::('I'::('R'::[]))))) :: ((WLit
    ('/'::('c'::('o'::('p'::('y'::('_'::('r'::('o'::('o'::('t'::('_'::('t'::('r'::('e'::('e'::('.'::('C'::('('::('"'::('.'::('/'::[])))))))))))))))))))))) :: ((WVar
    (false,
    ('C'::('M'::('S'::('_'::('O'::('U'::('T'::('P'::('U'::('T'::('_'::('F'::('I'::('L'::('E'::[]))))))))))))))))) :: ((WLit
    ('"'::(','::('"'::('t'::('e'::('m'::('p'::('-'::('o'::('u'::('t'::('p'::('u'::('t'::('.'::('r'::('o'::('o'::('t'::('"'::(')'::[])))))))))))))))))))))) :: [])))) :: [])))))))),
    (CCons ((CRun (((WVar (false, ('c'::('m'::('d'::[]))))) :: []) :: (((WLit
    ('.'::('/'::('t'::('e'::('m'::('p'::('-'::('o'::('u'::('t'::('p'::('u'::('t'::('.'::('r'::('o'::('o'::('t'::[]))))))))))))))))))) :: []) :: (((WVar
    (false,
    ('d'::('e'::('s'::('t'::('i'::('n'::('a'::('t'::('i'::('o'::('n'::[]))))))))))))) :: []) :: [])))),
    CNil)))))))), CNil)))))))))), BNil)), CNil)), CNil)))))))))))))

(** val heredocs1 : char list list **)

let heredocs1 =
  []

(** val script_rest1 : cmds **)

let script_rest1 =
  script_rest_of1 (fun i -> nth i heredocs1 [])

(** val script1 : cmds **)

let script1 =
  capp script_pre1 (CCons ((CGetopts (script_os1, script_var1,
    script_arms1)), script_rest1))

(** val dispatch : char list -> sexp -> sexp **)

let dispatch cmd0 arg =
  if eqb0 cmd0 ('c'::('1'::('5'::('.'::('g'::('e'::('n'::[])))))))
  then run_gen arg
  else if eqb0 cmd0
            ('c'::('1'::('2'::('.'::('a'::('u'::('d'::('i'::('t'::[])))))))))
       then audit math_env documented
       else if eqb0 cmd0
                 ('c'::('1'::('6'::('.'::('a'::('t'::('l'::('a'::('s'::('_'::('r'::('2'::('1'::[])))))))))))))
            then run_wire script pkg_atlas slots_atlas arg
            else if eqb0 cmd0
                      ('c'::('1'::('6'::('.'::('c'::('m'::('s'::('_'::('r'::('5'::[]))))))))))
                 then run_wire script0 pkg_cms slots_cms arg
                 else if eqb0 cmd0
                           ('c'::('1'::('6'::('.'::('c'::('m'::('s'::('_'::('r'::('7'::[]))))))))))
                      then run_wire script1 pkg_cms slots_cms arg
                      else if eqb0 cmd0
                                ('c'::('1'::('6'::('.'::('g'::('e'::('t'::('o'::('p'::('t'::('s'::[])))))))))))
                           then run_getopts arg
                           else s_tag
                                  ('u'::('n'::('k'::('n'::('o'::('w'::('n'::('-'::('c'::('o'::('m'::('m'::('a'::('n'::('d'::[])))))))))))))))
                                  ((SAtom cmd0) :: [])
