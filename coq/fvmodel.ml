
(** val negb : bool -> bool **)

let negb = function
| true -> false
| false -> true

type nat =
| O
| S of nat

(** val option_map : ('a1 -> 'a2) -> 'a1 option -> 'a2 option **)

let option_map f = function
| Some a -> Some (f a)
| None -> None

(** val fst : ('a1 * 'a2) -> 'a1 **)

let fst = function
| (x, _) -> x

(** val snd : ('a1 * 'a2) -> 'a2 **)

let snd = function
| (_, y) -> y

(** val length : 'a1 list -> nat **)

let rec length = function
| [] -> O
| _ :: l' -> S (length l')

(** val app : 'a1 list -> 'a1 list -> 'a1 list **)

let rec app l m =
  match l with
  | [] -> m
  | a :: l1 -> a :: (app l1 m)

type comparison =
| Eq
| Lt
| Gt

module Coq__1 = struct
 (** val add : nat -> nat -> nat **)
 let rec add n0 m =
   match n0 with
   | O -> m
   | S p -> S (add p m)
end
include Coq__1

(** val sub : nat -> nat -> nat **)

let rec sub n0 m =
  match n0 with
  | O -> n0
  | S k -> (match m with
            | O -> n0
            | S l -> sub k l)

type positive =
| XI of positive
| XO of positive
| XH

type n =
| N0
| Npos of positive

type z =
| Z0
| Zpos of positive
| Zneg of positive

module Nat =
 struct
  (** val leb : nat -> nat -> bool **)

  let rec leb n0 m =
    match n0 with
    | O -> true
    | S n' -> (match m with
               | O -> false
               | S m' -> leb n' m')

  (** val ltb : nat -> nat -> bool **)

  let ltb n0 m =
    leb (S n0) m
 end

module Pos =
 struct
  type mask =
  | IsNul
  | IsPos of positive
  | IsNeg
 end

module Coq_Pos =
 struct
  (** val succ : positive -> positive **)

  let rec succ = function
  | XI p -> XO (succ p)
  | XO p -> XI p
  | XH -> XO XH

  (** val add : positive -> positive -> positive **)

  let rec add x y =
    match x with
    | XI p ->
      (match y with
       | XI q -> XO (add_carry p q)
       | XO q -> XI (add p q)
       | XH -> XO (succ p))
    | XO p ->
      (match y with
       | XI q -> XI (add p q)
       | XO q -> XO (add p q)
       | XH -> XI p)
    | XH -> (match y with
             | XI q -> XO (succ q)
             | XO q -> XI q
             | XH -> XO XH)

  (** val add_carry : positive -> positive -> positive **)

  and add_carry x y =
    match x with
    | XI p ->
      (match y with
       | XI q -> XI (add_carry p q)
       | XO q -> XO (add_carry p q)
       | XH -> XI (succ p))
    | XO p ->
      (match y with
       | XI q -> XO (add_carry p q)
       | XO q -> XI (add p q)
       | XH -> XO (succ p))
    | XH ->
      (match y with
       | XI q -> XI (succ q)
       | XO q -> XO (succ q)
       | XH -> XI XH)

  (** val pred_double : positive -> positive **)

  let rec pred_double = function
  | XI p -> XI (XO p)
  | XO p -> XI (pred_double p)
  | XH -> XH

  type mask = Pos.mask =
  | IsNul
  | IsPos of positive
  | IsNeg

  (** val succ_double_mask : mask -> mask **)

  let succ_double_mask = function
  | IsNul -> IsPos XH
  | IsPos p -> IsPos (XI p)
  | IsNeg -> IsNeg

  (** val double_mask : mask -> mask **)

  let double_mask = function
  | IsPos p -> IsPos (XO p)
  | x0 -> x0

  (** val double_pred_mask : positive -> mask **)

  let double_pred_mask = function
  | XI p -> IsPos (XO (XO p))
  | XO p -> IsPos (XO (pred_double p))
  | XH -> IsNul

  (** val sub_mask : positive -> positive -> mask **)

  let rec sub_mask x y =
    match x with
    | XI p ->
      (match y with
       | XI q -> double_mask (sub_mask p q)
       | XO q -> succ_double_mask (sub_mask p q)
       | XH -> IsPos (XO p))
    | XO p ->
      (match y with
       | XI q -> succ_double_mask (sub_mask_carry p q)
       | XO q -> double_mask (sub_mask p q)
       | XH -> IsPos (pred_double p))
    | XH -> (match y with
             | XH -> IsNul
             | _ -> IsNeg)

  (** val sub_mask_carry : positive -> positive -> mask **)

  and sub_mask_carry x y =
    match x with
    | XI p ->
      (match y with
       | XI q -> succ_double_mask (sub_mask_carry p q)
       | XO q -> double_mask (sub_mask p q)
       | XH -> IsPos (pred_double p))
    | XO p ->
      (match y with
       | XI q -> double_mask (sub_mask_carry p q)
       | XO q -> succ_double_mask (sub_mask_carry p q)
       | XH -> double_pred_mask p)
    | XH -> IsNeg

  (** val mul : positive -> positive -> positive **)

  let rec mul x y =
    match x with
    | XI p -> add y (XO (mul p y))
    | XO p -> XO (mul p y)
    | XH -> y

  (** val size : positive -> positive **)

  let rec size = function
  | XI p0 -> succ (size p0)
  | XO p0 -> succ (size p0)
  | XH -> XH

  (** val compare_cont : comparison -> positive -> positive -> comparison **)

  let rec compare_cont r x y =
    match x with
    | XI p ->
      (match y with
       | XI q -> compare_cont r p q
       | XO q -> compare_cont Gt p q
       | XH -> Gt)
    | XO p ->
      (match y with
       | XI q -> compare_cont Lt p q
       | XO q -> compare_cont r p q
       | XH -> Gt)
    | XH -> (match y with
             | XH -> r
             | _ -> Lt)

  (** val compare : positive -> positive -> comparison **)

  let compare =
    compare_cont Eq

  (** val eqb : positive -> positive -> bool **)

  let rec eqb p q =
    match p with
    | XI p0 -> (match q with
                | XI q0 -> eqb p0 q0
                | _ -> false)
    | XO p0 -> (match q with
                | XO q0 -> eqb p0 q0
                | _ -> false)
    | XH -> (match q with
             | XH -> true
             | _ -> false)

  (** val iter_op : ('a1 -> 'a1 -> 'a1) -> positive -> 'a1 -> 'a1 **)

  let rec iter_op op p a =
    match p with
    | XI p0 -> op a (iter_op op p0 (op a a))
    | XO p0 -> iter_op op p0 (op a a)
    | XH -> a

  (** val to_nat : positive -> nat **)

  let to_nat x =
    iter_op Coq__1.add x (S O)

  (** val of_succ_nat : nat -> positive **)

  let rec of_succ_nat = function
  | O -> XH
  | S x -> succ (of_succ_nat x)
 end

module N =
 struct
  (** val succ_double : n -> n **)

  let succ_double = function
  | N0 -> Npos XH
  | Npos p -> Npos (XI p)

  (** val double : n -> n **)

  let double = function
  | N0 -> N0
  | Npos p -> Npos (XO p)

  (** val add : n -> n -> n **)

  let add n0 m =
    match n0 with
    | N0 -> m
    | Npos p -> (match m with
                 | N0 -> n0
                 | Npos q -> Npos (Coq_Pos.add p q))

  (** val sub : n -> n -> n **)

  let sub n0 m =
    match n0 with
    | N0 -> N0
    | Npos n' ->
      (match m with
       | N0 -> n0
       | Npos m' ->
         (match Coq_Pos.sub_mask n' m' with
          | Coq_Pos.IsPos p -> Npos p
          | _ -> N0))

  (** val mul : n -> n -> n **)

  let mul n0 m =
    match n0 with
    | N0 -> N0
    | Npos p -> (match m with
                 | N0 -> N0
                 | Npos q -> Npos (Coq_Pos.mul p q))

  (** val compare : n -> n -> comparison **)

  let compare n0 m =
    match n0 with
    | N0 -> (match m with
             | N0 -> Eq
             | Npos _ -> Lt)
    | Npos n' -> (match m with
                  | N0 -> Gt
                  | Npos m' -> Coq_Pos.compare n' m')

  (** val eqb : n -> n -> bool **)

  let eqb n0 m =
    match n0 with
    | N0 -> (match m with
             | N0 -> true
             | Npos _ -> false)
    | Npos p -> (match m with
                 | N0 -> false
                 | Npos q -> Coq_Pos.eqb p q)

  (** val leb : n -> n -> bool **)

  let leb x y =
    match compare x y with
    | Gt -> false
    | _ -> true

  (** val size : n -> n **)

  let size = function
  | N0 -> N0
  | Npos p -> Npos (Coq_Pos.size p)

  (** val pos_div_eucl : positive -> n -> n * n **)

  let rec pos_div_eucl a b =
    match a with
    | XI a' ->
      let (q, r) = pos_div_eucl a' b in
      let r' = succ_double r in
      if leb b r' then ((succ_double q), (sub r' b)) else ((double q), r')
    | XO a' ->
      let (q, r) = pos_div_eucl a' b in
      let r' = double r in
      if leb b r' then ((succ_double q), (sub r' b)) else ((double q), r')
    | XH ->
      (match b with
       | N0 -> (N0, (Npos XH))
       | Npos p -> (match p with
                    | XH -> ((Npos XH), N0)
                    | _ -> (N0, (Npos XH))))

  (** val div_eucl : n -> n -> n * n **)

  let div_eucl a b =
    match a with
    | N0 -> (N0, N0)
    | Npos na -> (match b with
                  | N0 -> (N0, a)
                  | Npos _ -> pos_div_eucl na b)

  (** val div : n -> n -> n **)

  let div a b =
    fst (div_eucl a b)

  (** val modulo : n -> n -> n **)

  let modulo a b =
    snd (div_eucl a b)

  (** val to_nat : n -> nat **)

  let to_nat = function
  | N0 -> O
  | Npos p -> Coq_Pos.to_nat p

  (** val of_nat : nat -> n **)

  let of_nat = function
  | O -> N0
  | S n' -> Npos (Coq_Pos.of_succ_nat n')
 end

(** val zero : char **)

let zero = '\000'

(** val one : char **)

let one = '\001'

(** val shift : bool -> char -> char **)

let shift = fun b c -> Char.chr (((Char.code c) lsl 1) land 255 + if b then 1 else 0)

(** val ascii_of_pos : positive -> char **)

let ascii_of_pos =
  let rec loop n0 p =
    match n0 with
    | O -> zero
    | S n' ->
      (match p with
       | XI p' -> shift true (loop n' p')
       | XO p' -> shift false (loop n' p')
       | XH -> one)
  in loop (S (S (S (S (S (S (S (S O))))))))

(** val ascii_of_N : n -> char **)

let ascii_of_N = function
| N0 -> zero
| Npos p -> ascii_of_pos p

(** val ascii_of_nat : nat -> char **)

let ascii_of_nat a =
  ascii_of_N (N.of_nat a)

(** val n_of_digits : bool list -> n **)

let rec n_of_digits = function
| [] -> N0
| b :: l' ->
  N.add (if b then Npos XH else N0) (N.mul (Npos (XO XH)) (n_of_digits l'))

(** val n_of_ascii : char -> n **)

let n_of_ascii a =
  (* If this appears, you're using Ascii internals. Please don't *)
 (fun f c ->
  let n = Char.code c in
  let h i = (n land (1 lsl i)) <> 0 in
  f (h 0) (h 1) (h 2) (h 3) (h 4) (h 5) (h 6) (h 7))
    (fun a0 a1 a2 a3 a4 a5 a6 a7 ->
    n_of_digits
      (a0 :: (a1 :: (a2 :: (a3 :: (a4 :: (a5 :: (a6 :: (a7 :: [])))))))))
    a

(** val nat_of_ascii : char -> nat **)

let nat_of_ascii a =
  N.to_nat (n_of_ascii a)

(** val map : ('a1 -> 'a2) -> 'a1 list -> 'a2 list **)

let rec map f = function
| [] -> []
| a :: t -> (f a) :: (map f t)

(** val forallb : ('a1 -> bool) -> 'a1 list -> bool **)

let rec forallb f = function
| [] -> true
| a :: l0 -> (&&) (f a) (forallb f l0)

(** val seq : nat -> nat -> nat list **)

let rec seq start = function
| O -> []
| S len0 -> start :: (seq (S start) len0)

module Z =
 struct
  (** val opp : z -> z **)

  let opp = function
  | Z0 -> Z0
  | Zpos x0 -> Zneg x0
  | Zneg x0 -> Zpos x0

  (** val to_nat : z -> nat **)

  let to_nat = function
  | Zpos p -> Coq_Pos.to_nat p
  | _ -> O

  (** val of_N : n -> z **)

  let of_N = function
  | N0 -> Z0
  | Npos p -> Zpos p
 end

(** val eqb0 : char list -> char list -> bool **)

let rec eqb0 s1 s2 =
  match s1 with
  | [] -> (match s2 with
           | [] -> true
           | _::_ -> false)
  | c1::s1' ->
    (match s2 with
     | [] -> false
     | c2::s2' -> if (=) c1 c2 then eqb0 s1' s2' else false)

(** val append : char list -> char list -> char list **)

let rec append s1 s2 =
  match s1 with
  | [] -> s2
  | c::s1' -> c::(append s1' s2)

type err =
| ErrValue
| ErrRuntime
| ErrAssert
| ErrNotImpl
| ErrKey
| ErrType
| ErrAttr
| ErrIndex
| ErrTranslation
| ErrOutOfFuel
| ErrOther of char list

type 'a result =
| OK of 'a
| Error of err

(** val err_name : err -> char list **)

let err_name = function
| ErrValue ->
  'V'::('a'::('l'::('u'::('e'::('E'::('r'::('r'::('o'::('r'::[])))))))))
| ErrRuntime ->
  'R'::('u'::('n'::('t'::('i'::('m'::('e'::('E'::('r'::('r'::('o'::('r'::[])))))))))))
| ErrAssert ->
  'A'::('s'::('s'::('e'::('r'::('t'::('i'::('o'::('n'::('E'::('r'::('r'::('o'::('r'::[])))))))))))))
| ErrNotImpl ->
  'N'::('o'::('t'::('I'::('m'::('p'::('l'::('e'::('m'::('e'::('n'::('t'::('e'::('d'::('E'::('r'::('r'::('o'::('r'::[]))))))))))))))))))
| ErrKey -> 'K'::('e'::('y'::('E'::('r'::('r'::('o'::('r'::[])))))))
| ErrType -> 'T'::('y'::('p'::('e'::('E'::('r'::('r'::('o'::('r'::[]))))))))
| ErrAttr ->
  'A'::('t'::('t'::('r'::('i'::('b'::('u'::('t'::('e'::('E'::('r'::('r'::('o'::('r'::[])))))))))))))
| ErrIndex ->
  'I'::('n'::('d'::('e'::('x'::('E'::('r'::('r'::('o'::('r'::[])))))))))
| ErrTranslation ->
  'x'::('A'::('O'::('D'::('T'::('r'::('a'::('n'::('s'::('l'::('a'::('t'::('i'::('o'::('n'::('E'::('r'::('r'::('o'::('r'::[])))))))))))))))))))
| ErrOutOfFuel ->
  'O'::('u'::('t'::('O'::('f'::('F'::('u'::('e'::('l'::[]))))))))
| ErrOther t -> t

(** val mem_str : char list -> char list list -> bool **)

let rec mem_str x = function
| [] -> false
| y :: r -> if eqb0 x y then true else mem_str x r

(** val list_str_eqb : char list list -> char list list -> bool **)

let rec list_str_eqb a b =
  match a with
  | [] -> (match b with
           | [] -> true
           | _ :: _ -> false)
  | x :: a' ->
    (match b with
     | [] -> false
     | y :: b' -> (&&) (eqb0 x y) (list_str_eqb a' b'))

(** val digit_char : nat -> char **)

let digit_char n0 =
  ascii_of_nat
    (add (S (S (S (S (S (S (S (S (S (S (S (S (S (S (S (S (S (S (S (S (S (S (S
      (S (S (S (S (S (S (S (S (S (S (S (S (S (S (S (S (S (S (S (S (S (S (S (S
      (S O)))))))))))))))))))))))))))))))))))))))))))))))) n0)

(** val dec_N_fuel : nat -> n -> char list -> char list **)

let rec dec_N_fuel fuel n0 acc =
  match fuel with
  | O -> acc
  | S f ->
    let d = N.to_nat (N.modulo n0 (Npos (XO (XI (XO XH))))) in
    let acc' = (digit_char d)::acc in
    if N.eqb (N.div n0 (Npos (XO (XI (XO XH))))) N0
    then acc'
    else dec_N_fuel f (N.div n0 (Npos (XO (XI (XO XH))))) acc'

(** val dec_N : n -> char list **)

let dec_N n0 =
  dec_N_fuel (S (N.to_nat (N.size n0))) n0 []

(** val dec_nat : nat -> char list **)

let dec_nat n0 =
  dec_N (N.of_nat n0)

(** val is_digit : char -> bool **)

let is_digit c =
  let n0 = nat_of_ascii c in
  (&&)
    (Nat.leb (S (S (S (S (S (S (S (S (S (S (S (S (S (S (S (S (S (S (S (S (S
      (S (S (S (S (S (S (S (S (S (S (S (S (S (S (S (S (S (S (S (S (S (S (S (S
      (S (S (S O)))))))))))))))))))))))))))))))))))))))))))))))) n0)
    (Nat.leb n0 (S (S (S (S (S (S (S (S (S (S (S (S (S (S (S (S (S (S (S (S
      (S (S (S (S (S (S (S (S (S (S (S (S (S (S (S (S (S (S (S (S (S (S (S (S
      (S (S (S (S (S (S (S (S (S (S (S (S (S
      O))))))))))))))))))))))))))))))))))))))))))))))))))))))))))

(** val parse_N_acc : char list -> n -> n option **)

let rec parse_N_acc s acc =
  match s with
  | [] -> Some acc
  | c::r ->
    if is_digit c
    then parse_N_acc r
           (N.add (N.mul acc (Npos (XO (XI (XO XH)))))
             (N.of_nat
               (sub (nat_of_ascii c) (S (S (S (S (S (S (S (S (S (S (S (S (S
                 (S (S (S (S (S (S (S (S (S (S (S (S (S (S (S (S (S (S (S (S
                 (S (S (S (S (S (S (S (S (S (S (S (S (S (S (S
                 O)))))))))))))))))))))))))))))))))))))))))))))))))))
    else None

(** val parse_N : char list -> n option **)

let parse_N s = match s with
| [] -> None
| _::_ -> parse_N_acc s N0

(** val parse_Z : char list -> z option **)

let parse_Z s = match s with
| [] -> option_map Z.of_N (parse_N s)
| a::r ->
  (* If this appears, you're using Ascii internals. Please don't *)
 (fun f c ->
  let n = Char.code c in
  let h i = (n land (1 lsl i)) <> 0 in
  f (h 0) (h 1) (h 2) (h 3) (h 4) (h 5) (h 6) (h 7))
    (fun b b0 b1 b2 b3 b4 b5 b6 ->
    if b
    then if b0
         then option_map Z.of_N (parse_N s)
         else if b1
              then if b2
                   then if b3
                        then option_map Z.of_N (parse_N s)
                        else if b4
                             then if b5
                                  then option_map Z.of_N (parse_N s)
                                  else if b6
                                       then option_map Z.of_N (parse_N s)
                                       else option_map (fun n0 ->
                                              Z.opp (Z.of_N n0)) (parse_N r)
                             else option_map Z.of_N (parse_N s)
                   else option_map Z.of_N (parse_N s)
              else option_map Z.of_N (parse_N s)
    else option_map Z.of_N (parse_N s))
    a

type sexp =
| SAtom of char list
| SList of sexp list

(** val s_strs : char list list -> sexp **)

let s_strs l =
  SList (map (fun x -> SAtom x) l)

(** val s_nat : nat -> sexp **)

let s_nat n0 =
  SAtom (dec_nat n0)

(** val s_bool : bool -> sexp **)

let s_bool b =
  SAtom
    (if b
     then 't'::('r'::('u'::('e'::[])))
     else 'f'::('a'::('l'::('s'::('e'::[])))))

(** val s_tag : char list -> sexp list -> sexp **)

let s_tag t l =
  SList ((SAtom t) :: l)

(** val s_err : err -> sexp **)

let s_err e =
  s_tag ('e'::('r'::('r'::('o'::('r'::[]))))) ((SAtom (err_name e)) :: [])

(** val s_result : ('a1 -> sexp) -> 'a1 result -> sexp **)

let s_result enc = function
| OK a -> s_tag ('o'::('k'::[])) ((enc a) :: [])
| Error e -> s_err e

(** val d_str : sexp -> char list option **)

let d_str = function
| SAtom a -> Some a
| SList _ -> None

(** val d_list : (sexp -> 'a1 option) -> sexp list -> 'a1 list option **)

let rec d_list d = function
| [] -> Some []
| x :: r ->
  (match d x with
   | Some a ->
     (match d_list d r with
      | Some r' -> Some (a :: r')
      | None -> None)
   | None -> None)

(** val d_strs : sexp -> char list list option **)

let d_strs = function
| SAtom _ -> None
| SList l -> d_list d_str l

(** val d_Z : sexp -> z option **)

let d_Z = function
| SAtom a -> parse_Z a
| SList _ -> None

(** val d_nat : sexp -> nat option **)

let d_nat s =
  option_map Z.to_nat (d_Z s)

(** val bad_input : sexp **)

let bad_input =
  s_tag ('b'::('a'::('d'::('-'::('i'::('n'::('p'::('u'::('t'::[]))))))))) []

type jblock = { jb_name : char list; jb_script : char list list;
                jb_deps : char list list }

type entry = char list * (char list list * char list list)

type table = entry list

(** val tget :
    char list -> table -> (char list list * char list list) option **)

let rec tget n0 = function
| [] -> None
| e :: r -> let (k, v) = e in if eqb0 n0 k then Some v else tget n0 r

(** val textend : char list -> char list list -> table -> table **)

let rec textend n0 ds = function
| [] -> []
| e :: r ->
  let (k, p) = e in
  let (s, d) = p in
  if eqb0 n0 k
  then (k, (s, (app d ds))) :: r
  else (k, (s, d)) :: (textend n0 ds r)

(** val step1 : table -> jblock -> table result **)

let step1 t b =
  match tget b.jb_name t with
  | Some p ->
    let (s0, _) = p in
    if list_str_eqb b.jb_script s0
    then OK (textend b.jb_name b.jb_deps t)
    else Error ErrValue
  | None -> OK (app t ((b.jb_name, (b.jb_script, b.jb_deps)) :: []))

(** val phase1 : jblock list -> table -> table result **)

let rec phase1 bs t =
  match bs with
  | [] -> OK t
  | b :: r -> (match step1 t b with
               | OK t' -> phase1 r t'
               | Error e -> Error e)

(** val has_key : char list -> table -> bool **)

let has_key n0 t =
  match tget n0 t with
  | Some _ -> true
  | None -> false

(** val deps_present : table -> bool **)

let deps_present t =
  forallb (fun e -> forallb (fun d -> has_key d t) (snd (snd e))) t

(** val one_pass :
    table -> char list list -> char list list -> bool -> (char list
    list * char list list) * bool **)

let rec one_pass rest seen out emitted =
  match rest with
  | [] -> ((seen, out), emitted)
  | e :: r ->
    let (n0, p) = e in
    let (scr, ds) = p in
    if (&&) (negb (mem_str n0 seen)) (forallb (fun d -> mem_str d seen) ds)
    then one_pass r (app seen (n0 :: [])) (app out scr) true
    else one_pass r seen out emitted

(** val emit_loop :
    nat -> table -> char list list -> char list list -> char list list result **)

let rec emit_loop fuel t seen out =
  if Nat.ltb (length seen) (length t)
  then (match fuel with
        | O -> Error ErrOutOfFuel
        | S f ->
          let (p, b) = one_pass t seen out false in
          let (seen', out') = p in
          if b then emit_loop f t seen' out' else Error ErrValue)
  else OK out

(** val gen : jblock list -> char list list result **)

let gen bs =
  match phase1 bs [] with
  | OK t ->
    if deps_present t
    then emit_loop (S (length t)) t [] []
    else Error ErrValue
  | Error e -> Error e

(** val d_jblock : sexp -> jblock option **)

let d_jblock = function
| SAtom _ -> None
| SList l ->
  (match l with
   | [] -> None
   | s0 :: l0 ->
     (match s0 with
      | SAtom n0 ->
        (match l0 with
         | [] -> None
         | sc :: l1 ->
           (match l1 with
            | [] -> None
            | dp :: l2 ->
              (match l2 with
               | [] ->
                 (match d_strs sc with
                  | Some sc' ->
                    (match d_strs dp with
                     | Some dp' ->
                       Some { jb_name = n0; jb_script = sc'; jb_deps = dp' }
                     | None -> None)
                  | None -> None)
               | _ :: _ -> None)))
      | SList _ -> None))

(** val run_gen : sexp -> sexp **)

let run_gen = function
| SAtom _ -> bad_input
| SList l ->
  (match d_list d_jblock l with
   | Some bs -> s_result s_strs (gen bs)
   | None -> bad_input)

type mrow = { m_py : char list; m_cpp : char list; m_inc : char list list;
              m_ret : char list }

type menv = { e_rows : mrow list; e_module : char list list;
              e_builtins : (char list * char list) list }

(** val lookup_row : char list -> mrow list -> mrow option **)

let rec lookup_row k = function
| [] -> None
| r :: rest ->
  (match lookup_row k rest with
   | Some r' -> Some r'
   | None -> if eqb0 k r.m_py then Some r else None)

(** val assoc :
    char list -> (char list * char list) list -> char list option **)

let rec assoc k = function
| [] -> None
| p :: r -> let (a, b) = p in if eqb0 k a then Some b else assoc k r

type resolution =
| RName of char list
| RCrash

(** val resolve : menv -> char list -> resolution **)

let resolve e n0 =
  if mem_str n0 e.e_module
  then RCrash
  else (match assoc n0 e.e_builtins with
        | Some m ->
          (match m with
           | [] -> RName (append m (append ('.'::[]) n0))
           | a::s ->
             (* If this appears, you're using Ascii internals. Please don't *)
 (fun f c ->
  let n = Char.code c in
  let h i = (n land (1 lsl i)) <> 0 in
  f (h 0) (h 1) (h 2) (h 3) (h 4) (h 5) (h 6) (h 7))
               (fun b b0 b1 b2 b3 b4 b5 b6 ->
               if b
               then if b0
                    then RName (append m (append ('.'::[]) n0))
                    else if b1
                         then if b2
                              then if b3
                                   then RName (append m (append ('.'::[]) n0))
                                   else if b4
                                        then if b5
                                             then RName
                                                    (append m
                                                      (append ('.'::[]) n0))
                                             else if b6
                                                  then RName
                                                         (append m
                                                           (append ('.'::[])
                                                             n0))
                                                  else (match s with
                                                        | [] -> RCrash
                                                        | _::_ ->
                                                          RName
                                                            (append m
                                                              (append
                                                                ('.'::[]) n0)))
                                        else RName
                                               (append m
                                                 (append ('.'::[]) n0))
                              else RName (append m (append ('.'::[]) n0))
                         else RName (append m (append ('.'::[]) n0))
               else RName (append m (append ('.'::[]) n0)))
               a)
        | None -> RName n0)

(** val find_row : menv -> char list -> mrow option **)

let find_row e n0 =
  match resolve e n0 with
  | RName q -> lookup_row q e.e_rows
  | RCrash -> None

(** val acceptable : char list -> char list -> bool **)

let acceptable n0 cpp =
  (||)
    ((||) (eqb0 cpp (append ('s'::('t'::('d'::(':'::(':'::[]))))) n0))
      ((&&) (eqb0 n0 ('l'::('n'::[])))
        (eqb0 cpp ('s'::('t'::('d'::(':'::(':'::('l'::('o'::('g'::[])))))))))))
    ((&&) (eqb0 n0 ('a'::('b'::('s'::[]))))
      ((||)
        (eqb0 cpp
          ('s'::('t'::('d'::(':'::(':'::('f'::('a'::('b'::('s'::[]))))))))))
        (eqb0 cpp ('s'::('t'::('d'::(':'::(':'::('a'::('b'::('s'::[])))))))))))

(** val cmath_sig : (char list * (nat * bool)) list **)

let cmath_sig =
  (('s'::('i'::('n'::[]))), ((S O), false)) :: ((('c'::('o'::('s'::[]))), ((S
    O), false)) :: ((('t'::('a'::('n'::[]))), ((S O),
    false)) :: ((('a'::('c'::('o'::('s'::[])))), ((S O),
    false)) :: ((('a'::('s'::('i'::('n'::[])))), ((S O),
    false)) :: ((('a'::('t'::('a'::('n'::[])))), ((S O),
    false)) :: ((('a'::('t'::('a'::('n'::('2'::[]))))), ((S (S O)),
    false)) :: ((('s'::('i'::('n'::('h'::[])))), ((S O),
    false)) :: ((('c'::('o'::('s'::('h'::[])))), ((S O),
    false)) :: ((('t'::('a'::('n'::('h'::[])))), ((S O),
    false)) :: ((('a'::('s'::('i'::('n'::('h'::[]))))), ((S O),
    false)) :: ((('a'::('c'::('o'::('s'::('h'::[]))))), ((S O),
    false)) :: ((('a'::('t'::('a'::('n'::('h'::[]))))), ((S O),
    false)) :: ((('e'::('x'::('p'::[]))), ((S O),
    false)) :: ((('l'::('d'::('e'::('x'::('p'::[]))))), ((S (S O)),
    false)) :: ((('l'::('o'::('g'::[]))), ((S O),
    false)) :: ((('l'::('n'::[])), ((S O),
    false)) :: ((('l'::('o'::('g'::('1'::('0'::[]))))), ((S O),
    false)) :: ((('e'::('x'::('p'::('2'::[])))), ((S O),
    false)) :: ((('e'::('x'::('p'::('m'::('1'::[]))))), ((S O),
    false)) :: ((('i'::('l'::('o'::('g'::('b'::[]))))), ((S O),
    false)) :: ((('l'::('o'::('g'::('1'::('p'::[]))))), ((S O),
    false)) :: ((('l'::('o'::('g'::('2'::[])))), ((S O),
    false)) :: ((('s'::('c'::('a'::('l'::('b'::('n'::[])))))), ((S (S O)),
    false)) :: ((('s'::('c'::('a'::('l'::('b'::('l'::('n'::[]))))))), ((S (S
    O)), false)) :: ((('p'::('o'::('w'::[]))), ((S (S O)),
    false)) :: ((('s'::('q'::('r'::('t'::[])))), ((S O),
    false)) :: ((('c'::('b'::('r'::('t'::[])))), ((S O),
    false)) :: ((('h'::('y'::('p'::('o'::('t'::[]))))), ((S (S O)),
    false)) :: ((('e'::('r'::('f'::[]))), ((S O),
    false)) :: ((('e'::('r'::('f'::('c'::[])))), ((S O),
    false)) :: ((('t'::('g'::('a'::('m'::('m'::('a'::[])))))), ((S O),
    false)) :: ((('l'::('g'::('a'::('m'::('m'::('a'::[])))))), ((S O),
    false)) :: ((('c'::('e'::('i'::('l'::[])))), ((S O),
    false)) :: ((('f'::('l'::('o'::('o'::('r'::[]))))), ((S O),
    false)) :: ((('f'::('m'::('o'::('d'::[])))), ((S (S O)),
    false)) :: ((('t'::('r'::('u'::('n'::('c'::[]))))), ((S O),
    false)) :: ((('r'::('o'::('u'::('n'::('d'::[]))))), ((S O),
    false)) :: ((('r'::('i'::('n'::('t'::[])))), ((S O),
    false)) :: ((('n'::('e'::('a'::('r'::('b'::('y'::('i'::('n'::('t'::[]))))))))),
    ((S O),
    false)) :: ((('r'::('e'::('m'::('a'::('i'::('n'::('d'::('e'::('r'::[]))))))))),
    ((S (S O)), false)) :: ((('r'::('e'::('m'::('q'::('u'::('o'::[])))))),
    ((S (S (S O))),
    true)) :: ((('c'::('o'::('p'::('y'::('s'::('i'::('g'::('n'::[])))))))),
    ((S (S O)), false)) :: ((('n'::('a'::('n'::[]))), ((S O),
    false)) :: ((('n'::('e'::('x'::('t'::('a'::('f'::('t'::('e'::('r'::[]))))))))),
    ((S (S O)),
    false)) :: ((('n'::('e'::('x'::('t'::('t'::('o'::('w'::('a'::('r'::('d'::[])))))))))),
    ((S (S O)), false)) :: ((('f'::('d'::('i'::('m'::[])))), ((S (S O)),
    false)) :: ((('f'::('m'::('a'::('x'::[])))), ((S (S O)),
    false)) :: ((('f'::('m'::('i'::('n'::[])))), ((S (S O)),
    false)) :: ((('f'::('a'::('b'::('s'::[])))), ((S O),
    false)) :: ((('a'::('b'::('s'::[]))), ((S O),
    false)) :: ((('f'::('m'::('a'::[]))), ((S (S (S O))),
    false)) :: [])))))))))))))))))))))))))))))))))))))))))))))))))))

(** val sig_of :
    char list -> (char list * (nat * bool)) list -> (nat * bool) option **)

let rec sig_of n0 = function
| [] -> None
| p :: r -> let (a, b) = p in if eqb0 n0 a then Some b else sig_of n0 r

(** val callable_from_query : char list -> bool **)

let callable_from_query n0 =
  match sig_of n0 cmath_sig with
  | Some p -> let (_, b) = p in if b then false else true
  | None -> false

(** val doc_ok : menv -> char list -> bool **)

let doc_ok e n0 =
  match find_row e n0 with
  | Some r ->
    (&&)
      ((&&)
        ((&&) (acceptable n0 r.m_cpp)
          (mem_str ('c'::('m'::('a'::('t'::('h'::[]))))) r.m_inc))
        (eqb0 r.m_ret ('d'::('o'::('u'::('b'::('l'::('e'::[]))))))))
      (callable_from_query n0)
  | None -> false

(** val s_row : mrow -> sexp **)

let s_row r =
  SList ((SAtom r.m_py) :: ((SAtom r.m_cpp) :: ((s_strs r.m_inc) :: ((SAtom
    r.m_ret) :: []))))

(** val audit : menv -> char list list -> sexp **)

let audit e doc =
  SList
    (map (fun n0 -> SList ((SAtom
      n0) :: ((match resolve e n0 with
               | RName q -> SAtom q
               | RCrash ->
                 SAtom ('<'::('c'::('r'::('a'::('s'::('h'::('>'::[])))))))) :: ((
      match find_row e n0 with
      | Some r -> s_row r
      | None -> SList []) :: ((s_bool (doc_ok e n0)) :: ((match sig_of n0
                                                                  cmath_sig with
                                                          | Some p0 ->
                                                            let (k, p) = p0 in
                                                            SList
                                                            ((s_nat k) :: (
                                                            (s_bool p) :: []))
                                                          | None -> SList []) :: []))))))
      doc)

(** val math_rows : mrow list **)

let math_rows =
  { m_py = ('s'::('i'::('n'::[]))); m_cpp =
    ('s'::('t'::('d'::(':'::(':'::('s'::('i'::('n'::[])))))))); m_inc =
    (('c'::('m'::('a'::('t'::('h'::[]))))) :: []); m_ret =
    ('d'::('o'::('u'::('b'::('l'::('e'::[])))))) } :: ({ m_py =
    ('c'::('o'::('s'::[]))); m_cpp =
    ('s'::('t'::('d'::(':'::(':'::('c'::('o'::('s'::[])))))))); m_inc =
    (('c'::('m'::('a'::('t'::('h'::[]))))) :: []); m_ret =
    ('d'::('o'::('u'::('b'::('l'::('e'::[])))))) } :: ({ m_py =
    ('t'::('a'::('n'::[]))); m_cpp =
    ('s'::('t'::('d'::(':'::(':'::('t'::('a'::('n'::[])))))))); m_inc =
    (('c'::('m'::('a'::('t'::('h'::[]))))) :: []); m_ret =
    ('d'::('o'::('u'::('b'::('l'::('e'::[])))))) } :: ({ m_py =
    ('a'::('c'::('o'::('s'::[])))); m_cpp =
    ('s'::('t'::('d'::(':'::(':'::('a'::('c'::('o'::('s'::[])))))))));
    m_inc = (('c'::('m'::('a'::('t'::('h'::[]))))) :: []); m_ret =
    ('d'::('o'::('u'::('b'::('l'::('e'::[])))))) } :: ({ m_py =
    ('a'::('s'::('i'::('n'::[])))); m_cpp =
    ('s'::('t'::('d'::(':'::(':'::('a'::('s'::('i'::('n'::[])))))))));
    m_inc = (('c'::('m'::('a'::('t'::('h'::[]))))) :: []); m_ret =
    ('d'::('o'::('u'::('b'::('l'::('e'::[])))))) } :: ({ m_py =
    ('a'::('t'::('a'::('n'::[])))); m_cpp =
    ('s'::('t'::('d'::(':'::(':'::('a'::('t'::('a'::('n'::[])))))))));
    m_inc = (('c'::('m'::('a'::('t'::('h'::[]))))) :: []); m_ret =
    ('d'::('o'::('u'::('b'::('l'::('e'::[])))))) } :: ({ m_py =
    ('a'::('t'::('a'::('n'::('2'::[]))))); m_cpp =
    ('s'::('t'::('d'::(':'::(':'::('a'::('t'::('a'::('n'::('2'::[]))))))))));
    m_inc = (('c'::('m'::('a'::('t'::('h'::[]))))) :: []); m_ret =
    ('d'::('o'::('u'::('b'::('l'::('e'::[])))))) } :: ({ m_py =
    ('s'::('i'::('n'::('h'::[])))); m_cpp =
    ('s'::('t'::('d'::(':'::(':'::('s'::('i'::('n'::('h'::[])))))))));
    m_inc = (('c'::('m'::('a'::('t'::('h'::[]))))) :: []); m_ret =
    ('d'::('o'::('u'::('b'::('l'::('e'::[])))))) } :: ({ m_py =
    ('c'::('o'::('s'::('h'::[])))); m_cpp =
    ('s'::('t'::('d'::(':'::(':'::('c'::('o'::('s'::('h'::[])))))))));
    m_inc = (('c'::('m'::('a'::('t'::('h'::[]))))) :: []); m_ret =
    ('d'::('o'::('u'::('b'::('l'::('e'::[])))))) } :: ({ m_py =
    ('t'::('a'::('n'::('h'::[])))); m_cpp =
    ('s'::('t'::('d'::(':'::(':'::('t'::('a'::('n'::('h'::[])))))))));
    m_inc = (('c'::('m'::('a'::('t'::('h'::[]))))) :: []); m_ret =
    ('d'::('o'::('u'::('b'::('l'::('e'::[])))))) } :: ({ m_py =
    ('a'::('s'::('i'::('n'::('h'::[]))))); m_cpp =
    ('s'::('t'::('d'::(':'::(':'::('a'::('s'::('i'::('n'::('h'::[]))))))))));
    m_inc = (('c'::('m'::('a'::('t'::('h'::[]))))) :: []); m_ret =
    ('d'::('o'::('u'::('b'::('l'::('e'::[])))))) } :: ({ m_py =
    ('a'::('c'::('o'::('s'::('h'::[]))))); m_cpp =
    ('s'::('t'::('d'::(':'::(':'::('a'::('c'::('o'::('s'::('h'::[]))))))))));
    m_inc = (('c'::('m'::('a'::('t'::('h'::[]))))) :: []); m_ret =
    ('d'::('o'::('u'::('b'::('l'::('e'::[])))))) } :: ({ m_py =
    ('a'::('t'::('a'::('n'::('h'::[]))))); m_cpp =
    ('s'::('t'::('d'::(':'::(':'::('a'::('t'::('a'::('n'::('h'::[]))))))))));
    m_inc = (('c'::('m'::('a'::('t'::('h'::[]))))) :: []); m_ret =
    ('d'::('o'::('u'::('b'::('l'::('e'::[])))))) } :: ({ m_py =
    ('e'::('x'::('p'::[]))); m_cpp =
    ('s'::('t'::('d'::(':'::(':'::('e'::('x'::('p'::[])))))))); m_inc =
    (('c'::('m'::('a'::('t'::('h'::[]))))) :: []); m_ret =
    ('d'::('o'::('u'::('b'::('l'::('e'::[])))))) } :: ({ m_py =
    ('l'::('d'::('e'::('x'::('p'::[]))))); m_cpp =
    ('s'::('t'::('d'::(':'::(':'::('l'::('d'::('e'::('x'::('p'::[]))))))))));
    m_inc = (('c'::('m'::('a'::('t'::('h'::[]))))) :: []); m_ret =
    ('d'::('o'::('u'::('b'::('l'::('e'::[])))))) } :: ({ m_py =
    ('l'::('o'::('g'::[]))); m_cpp =
    ('s'::('t'::('d'::(':'::(':'::('l'::('o'::('g'::[])))))))); m_inc =
    (('c'::('m'::('a'::('t'::('h'::[]))))) :: []); m_ret =
    ('d'::('o'::('u'::('b'::('l'::('e'::[])))))) } :: ({ m_py =
    ('l'::('n'::[])); m_cpp =
    ('s'::('t'::('d'::(':'::(':'::('l'::('o'::('g'::[])))))))); m_inc =
    (('c'::('m'::('a'::('t'::('h'::[]))))) :: []); m_ret =
    ('d'::('o'::('u'::('b'::('l'::('e'::[])))))) } :: ({ m_py =
    ('l'::('o'::('g'::('1'::('0'::[]))))); m_cpp =
    ('s'::('t'::('d'::(':'::(':'::('l'::('o'::('g'::('1'::('0'::[]))))))))));
    m_inc = (('c'::('m'::('a'::('t'::('h'::[]))))) :: []); m_ret =
    ('d'::('o'::('u'::('b'::('l'::('e'::[])))))) } :: ({ m_py =
    ('e'::('x'::('p'::('2'::[])))); m_cpp =
    ('s'::('t'::('d'::(':'::(':'::('e'::('x'::('p'::('2'::[])))))))));
    m_inc = (('c'::('m'::('a'::('t'::('h'::[]))))) :: []); m_ret =
    ('d'::('o'::('u'::('b'::('l'::('e'::[])))))) } :: ({ m_py =
    ('e'::('x'::('p'::('m'::('1'::[]))))); m_cpp =
    ('s'::('t'::('d'::(':'::(':'::('e'::('x'::('p'::('m'::('1'::[]))))))))));
    m_inc = (('c'::('m'::('a'::('t'::('h'::[]))))) :: []); m_ret =
    ('d'::('o'::('u'::('b'::('l'::('e'::[])))))) } :: ({ m_py =
    ('i'::('l'::('o'::('g'::('b'::[]))))); m_cpp =
    ('s'::('t'::('d'::(':'::(':'::('i'::('l'::('o'::('g'::('b'::[]))))))))));
    m_inc = (('c'::('m'::('a'::('t'::('h'::[]))))) :: []); m_ret =
    ('d'::('o'::('u'::('b'::('l'::('e'::[])))))) } :: ({ m_py =
    ('l'::('o'::('g'::('1'::('p'::[]))))); m_cpp =
    ('s'::('t'::('d'::(':'::(':'::('l'::('o'::('g'::('1'::('p'::[]))))))))));
    m_inc = (('c'::('m'::('a'::('t'::('h'::[]))))) :: []); m_ret =
    ('d'::('o'::('u'::('b'::('l'::('e'::[])))))) } :: ({ m_py =
    ('l'::('o'::('g'::('2'::[])))); m_cpp =
    ('s'::('t'::('d'::(':'::(':'::('l'::('o'::('g'::('2'::[])))))))));
    m_inc = (('c'::('m'::('a'::('t'::('h'::[]))))) :: []); m_ret =
    ('d'::('o'::('u'::('b'::('l'::('e'::[])))))) } :: ({ m_py =
    ('s'::('c'::('a'::('l'::('b'::('n'::[])))))); m_cpp =
    ('s'::('t'::('d'::(':'::(':'::('s'::('c'::('a'::('l'::('b'::('n'::[])))))))))));
    m_inc = (('c'::('m'::('a'::('t'::('h'::[]))))) :: []); m_ret =
    ('d'::('o'::('u'::('b'::('l'::('e'::[])))))) } :: ({ m_py =
    ('s'::('c'::('a'::('l'::('b'::('l'::('n'::[]))))))); m_cpp =
    ('s'::('t'::('d'::(':'::(':'::('s'::('c'::('a'::('l'::('b'::('l'::('n'::[]))))))))))));
    m_inc = (('c'::('m'::('a'::('t'::('h'::[]))))) :: []); m_ret =
    ('d'::('o'::('u'::('b'::('l'::('e'::[])))))) } :: ({ m_py =
    ('p'::('o'::('w'::[]))); m_cpp =
    ('s'::('t'::('d'::(':'::(':'::('p'::('o'::('w'::[])))))))); m_inc =
    (('c'::('m'::('a'::('t'::('h'::[]))))) :: []); m_ret =
    ('d'::('o'::('u'::('b'::('l'::('e'::[])))))) } :: ({ m_py =
    ('s'::('q'::('r'::('t'::[])))); m_cpp =
    ('s'::('t'::('d'::(':'::(':'::('s'::('q'::('r'::('t'::[])))))))));
    m_inc = (('c'::('m'::('a'::('t'::('h'::[]))))) :: []); m_ret =
    ('d'::('o'::('u'::('b'::('l'::('e'::[])))))) } :: ({ m_py =
    ('c'::('b'::('r'::('t'::[])))); m_cpp =
    ('s'::('t'::('d'::(':'::(':'::('c'::('b'::('r'::('t'::[])))))))));
    m_inc = (('c'::('m'::('a'::('t'::('h'::[]))))) :: []); m_ret =
    ('d'::('o'::('u'::('b'::('l'::('e'::[])))))) } :: ({ m_py =
    ('h'::('y'::('p'::('o'::('t'::[]))))); m_cpp =
    ('s'::('t'::('d'::(':'::(':'::('h'::('y'::('p'::('o'::('t'::[]))))))))));
    m_inc = (('c'::('m'::('a'::('t'::('h'::[]))))) :: []); m_ret =
    ('d'::('o'::('u'::('b'::('l'::('e'::[])))))) } :: ({ m_py =
    ('e'::('r'::('f'::[]))); m_cpp =
    ('s'::('t'::('d'::(':'::(':'::('e'::('r'::('f'::[])))))))); m_inc =
    (('c'::('m'::('a'::('t'::('h'::[]))))) :: []); m_ret =
    ('d'::('o'::('u'::('b'::('l'::('e'::[])))))) } :: ({ m_py =
    ('e'::('r'::('f'::('c'::[])))); m_cpp =
    ('s'::('t'::('d'::(':'::(':'::('e'::('r'::('f'::('c'::[])))))))));
    m_inc = (('c'::('m'::('a'::('t'::('h'::[]))))) :: []); m_ret =
    ('d'::('o'::('u'::('b'::('l'::('e'::[])))))) } :: ({ m_py =
    ('t'::('g'::('a'::('m'::('m'::('a'::[])))))); m_cpp =
    ('s'::('t'::('d'::(':'::(':'::('t'::('g'::('a'::('m'::('m'::('a'::[])))))))))));
    m_inc = (('c'::('m'::('a'::('t'::('h'::[]))))) :: []); m_ret =
    ('d'::('o'::('u'::('b'::('l'::('e'::[])))))) } :: ({ m_py =
    ('l'::('g'::('a'::('m'::('m'::('a'::[])))))); m_cpp =
    ('s'::('t'::('d'::(':'::(':'::('l'::('g'::('a'::('m'::('m'::('a'::[])))))))))));
    m_inc = (('c'::('m'::('a'::('t'::('h'::[]))))) :: []); m_ret =
    ('d'::('o'::('u'::('b'::('l'::('e'::[])))))) } :: ({ m_py =
    ('c'::('e'::('i'::('l'::[])))); m_cpp =
    ('s'::('t'::('d'::(':'::(':'::('c'::('e'::('i'::('l'::[])))))))));
    m_inc = (('c'::('m'::('a'::('t'::('h'::[]))))) :: []); m_ret =
    ('d'::('o'::('u'::('b'::('l'::('e'::[])))))) } :: ({ m_py =
    ('f'::('l'::('o'::('o'::('r'::[]))))); m_cpp =
    ('s'::('t'::('d'::(':'::(':'::('f'::('l'::('o'::('o'::('r'::[]))))))))));
    m_inc = (('c'::('m'::('a'::('t'::('h'::[]))))) :: []); m_ret =
    ('d'::('o'::('u'::('b'::('l'::('e'::[])))))) } :: ({ m_py =
    ('f'::('m'::('o'::('d'::[])))); m_cpp =
    ('s'::('t'::('d'::(':'::(':'::('f'::('m'::('o'::('d'::[])))))))));
    m_inc = (('c'::('m'::('a'::('t'::('h'::[]))))) :: []); m_ret =
    ('d'::('o'::('u'::('b'::('l'::('e'::[])))))) } :: ({ m_py =
    ('t'::('r'::('u'::('n'::('c'::[]))))); m_cpp =
    ('s'::('t'::('d'::(':'::(':'::('t'::('r'::('u'::('n'::('c'::[]))))))))));
    m_inc = (('c'::('m'::('a'::('t'::('h'::[]))))) :: []); m_ret =
    ('d'::('o'::('u'::('b'::('l'::('e'::[])))))) } :: ({ m_py =
    ('r'::('o'::('u'::('n'::('d'::[]))))); m_cpp =
    ('s'::('t'::('d'::(':'::(':'::('r'::('o'::('u'::('n'::('d'::[]))))))))));
    m_inc = (('c'::('m'::('a'::('t'::('h'::[]))))) :: []); m_ret =
    ('d'::('o'::('u'::('b'::('l'::('e'::[])))))) } :: ({ m_py =
    ('r'::('i'::('n'::('t'::[])))); m_cpp =
    ('s'::('t'::('d'::(':'::(':'::('r'::('i'::('n'::('t'::[])))))))));
    m_inc = (('c'::('m'::('a'::('t'::('h'::[]))))) :: []); m_ret =
    ('d'::('o'::('u'::('b'::('l'::('e'::[])))))) } :: ({ m_py =
    ('n'::('e'::('a'::('r'::('b'::('y'::('i'::('n'::('t'::[])))))))));
    m_cpp =
    ('s'::('t'::('d'::(':'::(':'::('n'::('e'::('a'::('r'::('b'::('y'::('i'::('n'::('t'::[]))))))))))))));
    m_inc = (('c'::('m'::('a'::('t'::('h'::[]))))) :: []); m_ret =
    ('d'::('o'::('u'::('b'::('l'::('e'::[])))))) } :: ({ m_py =
    ('r'::('e'::('m'::('a'::('i'::('n'::('d'::('e'::('r'::[])))))))));
    m_cpp =
    ('s'::('t'::('d'::(':'::(':'::('r'::('e'::('m'::('a'::('i'::('n'::('d'::('e'::('r'::[]))))))))))))));
    m_inc = (('c'::('m'::('a'::('t'::('h'::[]))))) :: []); m_ret =
    ('d'::('o'::('u'::('b'::('l'::('e'::[])))))) } :: ({ m_py =
    ('r'::('e'::('m'::('q'::('u'::('o'::[])))))); m_cpp =
    ('s'::('t'::('d'::(':'::(':'::('r'::('e'::('m'::('q'::('u'::('o'::[])))))))))));
    m_inc = (('c'::('m'::('a'::('t'::('h'::[]))))) :: []); m_ret =
    ('d'::('o'::('u'::('b'::('l'::('e'::[])))))) } :: ({ m_py =
    ('c'::('o'::('p'::('y'::('s'::('i'::('g'::('n'::[])))))))); m_cpp =
    ('s'::('t'::('d'::(':'::(':'::('c'::('o'::('p'::('y'::('s'::('i'::('g'::('n'::[])))))))))))));
    m_inc = (('c'::('m'::('a'::('t'::('h'::[]))))) :: []); m_ret =
    ('d'::('o'::('u'::('b'::('l'::('e'::[])))))) } :: ({ m_py =
    ('n'::('a'::('n'::[]))); m_cpp =
    ('s'::('t'::('d'::(':'::(':'::('n'::('a'::('n'::[])))))))); m_inc =
    (('c'::('m'::('a'::('t'::('h'::[]))))) :: []); m_ret =
    ('d'::('o'::('u'::('b'::('l'::('e'::[])))))) } :: ({ m_py =
    ('n'::('e'::('x'::('t'::('a'::('f'::('t'::('e'::('r'::[])))))))));
    m_cpp =
    ('s'::('t'::('d'::(':'::(':'::('n'::('e'::('x'::('t'::('a'::('f'::('t'::('e'::('r'::[]))))))))))))));
    m_inc = (('c'::('m'::('a'::('t'::('h'::[]))))) :: []); m_ret =
    ('d'::('o'::('u'::('b'::('l'::('e'::[])))))) } :: ({ m_py =
    ('n'::('e'::('x'::('t'::('t'::('o'::('w'::('a'::('r'::('d'::[]))))))))));
    m_cpp =
    ('s'::('t'::('d'::(':'::(':'::('n'::('e'::('x'::('t'::('t'::('o'::('w'::('a'::('r'::('d'::[])))))))))))))));
    m_inc = (('c'::('m'::('a'::('t'::('h'::[]))))) :: []); m_ret =
    ('d'::('o'::('u'::('b'::('l'::('e'::[])))))) } :: ({ m_py =
    ('f'::('d'::('i'::('m'::[])))); m_cpp =
    ('s'::('t'::('d'::(':'::(':'::('f'::('d'::('i'::('m'::[])))))))));
    m_inc = (('c'::('m'::('a'::('t'::('h'::[]))))) :: []); m_ret =
    ('d'::('o'::('u'::('b'::('l'::('e'::[])))))) } :: ({ m_py =
    ('f'::('m'::('a'::('x'::[])))); m_cpp =
    ('s'::('t'::('d'::(':'::(':'::('f'::('m'::('a'::('x'::[])))))))));
    m_inc = (('c'::('m'::('a'::('t'::('h'::[]))))) :: []); m_ret =
    ('d'::('o'::('u'::('b'::('l'::('e'::[])))))) } :: ({ m_py =
    ('f'::('m'::('i'::('n'::[])))); m_cpp =
    ('s'::('t'::('d'::(':'::(':'::('f'::('m'::('i'::('n'::[])))))))));
    m_inc = (('c'::('m'::('a'::('t'::('h'::[]))))) :: []); m_ret =
    ('d'::('o'::('u'::('b'::('l'::('e'::[])))))) } :: ({ m_py =
    ('f'::('a'::('b'::('s'::[])))); m_cpp =
    ('s'::('t'::('d'::(':'::(':'::('f'::('a'::('b'::('s'::[])))))))));
    m_inc = (('c'::('m'::('a'::('t'::('h'::[]))))) :: []); m_ret =
    ('d'::('o'::('u'::('b'::('l'::('e'::[])))))) } :: ({ m_py =
    ('a'::('b'::('s'::[]))); m_cpp =
    ('s'::('t'::('d'::(':'::(':'::('f'::('a'::('b'::('s'::[])))))))));
    m_inc = (('c'::('m'::('a'::('t'::('h'::[]))))) :: []); m_ret =
    ('d'::('o'::('u'::('b'::('l'::('e'::[])))))) } :: ({ m_py =
    ('f'::('m'::('a'::[]))); m_cpp =
    ('s'::('t'::('d'::(':'::(':'::('f'::('m'::('a'::[])))))))); m_inc =
    (('c'::('m'::('a'::('t'::('h'::[]))))) :: []); m_ret =
    ('d'::('o'::('u'::('b'::('l'::('e'::[])))))) } :: ({ m_py =
    ('b'::('u'::('i'::('l'::('t'::('i'::('n'::('s'::('.'::('a'::('b'::('s'::[]))))))))))));
    m_cpp = ('s'::('t'::('d'::(':'::(':'::('a'::('b'::('s'::[]))))))));
    m_inc = (('c'::('m'::('a'::('t'::('h'::[]))))) :: []); m_ret =
    ('d'::('o'::('u'::('b'::('l'::('e'::[])))))) } :: ({ m_py =
    ('b'::('u'::('i'::('l'::('t'::('i'::('n'::('s'::('.'::('p'::('o'::('w'::[]))))))))))));
    m_cpp = ('s'::('t'::('d'::(':'::(':'::('p'::('o'::('w'::[]))))))));
    m_inc = (('c'::('m'::('a'::('t'::('h'::[]))))) :: []); m_ret =
    ('d'::('o'::('u'::('b'::('l'::('e'::[])))))) } :: ({ m_py =
    ('b'::('u'::('i'::('l'::('t'::('i'::('n'::('s'::('.'::('r'::('o'::('u'::('n'::('d'::[]))))))))))))));
    m_cpp =
    ('s'::('t'::('d'::(':'::(':'::('r'::('o'::('u'::('n'::('d'::[]))))))))));
    m_inc = (('c'::('m'::('a'::('t'::('h'::[]))))) :: []); m_ret =
    ('d'::('o'::('u'::('b'::('l'::('e'::[])))))) } :: []))))))))))))))))))))))))))))))))))))))))))))))))))))))

(** val module_names : char list list **)

let module_names =
  ('a'::('s'::('t'::[]))) :: (('n'::('a'::('m'::('e'::('d'::('t'::('u'::('p'::('l'::('e'::[])))))))))) :: (('F'::('u'::('n'::('c'::('t'::('i'::('o'::('n'::('A'::('S'::('T'::[]))))))))))) :: (('f'::('i'::('n'::('d'::('_'::('k'::('n'::('o'::('w'::('n'::('_'::('f'::('u'::('n'::('c'::('t'::('i'::('o'::('n'::('s'::[])))))))))))))))))))) :: (('a'::('d'::('d'::('_'::('f'::('u'::('n'::('c'::('t'::('i'::('o'::('n'::('_'::('m'::('a'::('p'::('p'::('i'::('n'::('g'::[])))))))))))))))))))) :: (('f'::('u'::('n'::('c'::('t'::('i'::('o'::('n'::('s'::('_'::('t'::('o'::('_'::('r'::('e'::('p'::('l'::('a'::('c'::('e'::[])))))))))))))))))))) :: (('c'::('p'::('p'::('_'::('f'::('u'::('n'::('c'::('t'::('i'::('o'::('n'::[])))))))))))) :: []))))))

(** val builtin_names : (char list * char list) list **)

let builtin_names =
  (('A'::('r'::('i'::('t'::('h'::('m'::('e'::('t'::('i'::('c'::('E'::('r'::('r'::('o'::('r'::[]))))))))))))))),
    ('b'::('u'::('i'::('l'::('t'::('i'::('n'::('s'::[]))))))))) :: ((('A'::('s'::('s'::('e'::('r'::('t'::('i'::('o'::('n'::('E'::('r'::('r'::('o'::('r'::[])))))))))))))),
    ('b'::('u'::('i'::('l'::('t'::('i'::('n'::('s'::[]))))))))) :: ((('A'::('t'::('t'::('r'::('i'::('b'::('u'::('t'::('e'::('E'::('r'::('r'::('o'::('r'::[])))))))))))))),
    ('b'::('u'::('i'::('l'::('t'::('i'::('n'::('s'::[]))))))))) :: ((('B'::('a'::('s'::('e'::('E'::('x'::('c'::('e'::('p'::('t'::('i'::('o'::('n'::[]))))))))))))),
    ('b'::('u'::('i'::('l'::('t'::('i'::('n'::('s'::[]))))))))) :: ((('B'::('a'::('s'::('e'::('E'::('x'::('c'::('e'::('p'::('t'::('i'::('o'::('n'::('G'::('r'::('o'::('u'::('p'::[])))))))))))))))))),
    ('b'::('u'::('i'::('l'::('t'::('i'::('n'::('s'::[]))))))))) :: ((('B'::('l'::('o'::('c'::('k'::('i'::('n'::('g'::('I'::('O'::('E'::('r'::('r'::('o'::('r'::[]))))))))))))))),
    ('b'::('u'::('i'::('l'::('t'::('i'::('n'::('s'::[]))))))))) :: ((('B'::('r'::('o'::('k'::('e'::('n'::('P'::('i'::('p'::('e'::('E'::('r'::('r'::('o'::('r'::[]))))))))))))))),
    ('b'::('u'::('i'::('l'::('t'::('i'::('n'::('s'::[]))))))))) :: ((('B'::('u'::('f'::('f'::('e'::('r'::('E'::('r'::('r'::('o'::('r'::[]))))))))))),
    ('b'::('u'::('i'::('l'::('t'::('i'::('n'::('s'::[]))))))))) :: ((('B'::('y'::('t'::('e'::('s'::('W'::('a'::('r'::('n'::('i'::('n'::('g'::[])))))))))))),
    ('b'::('u'::('i'::('l'::('t'::('i'::('n'::('s'::[]))))))))) :: ((('C'::('h'::('i'::('l'::('d'::('P'::('r'::('o'::('c'::('e'::('s'::('s'::('E'::('r'::('r'::('o'::('r'::[]))))))))))))))))),
    ('b'::('u'::('i'::('l'::('t'::('i'::('n'::('s'::[]))))))))) :: ((('C'::('o'::('n'::('n'::('e'::('c'::('t'::('i'::('o'::('n'::('A'::('b'::('o'::('r'::('t'::('e'::('d'::('E'::('r'::('r'::('o'::('r'::[])))))))))))))))))))))),
    ('b'::('u'::('i'::('l'::('t'::('i'::('n'::('s'::[]))))))))) :: ((('C'::('o'::('n'::('n'::('e'::('c'::('t'::('i'::('o'::('n'::('E'::('r'::('r'::('o'::('r'::[]))))))))))))))),
    ('b'::('u'::('i'::('l'::('t'::('i'::('n'::('s'::[]))))))))) :: ((('C'::('o'::('n'::('n'::('e'::('c'::('t'::('i'::('o'::('n'::('R'::('e'::('f'::('u'::('s'::('e'::('d'::('E'::('r'::('r'::('o'::('r'::[])))))))))))))))))))))),
    ('b'::('u'::('i'::('l'::('t'::('i'::('n'::('s'::[]))))))))) :: ((('C'::('o'::('n'::('n'::('e'::('c'::('t'::('i'::('o'::('n'::('R'::('e'::('s'::('e'::('t'::('E'::('r'::('r'::('o'::('r'::[])))))))))))))))))))),
    ('b'::('u'::('i'::('l'::('t'::('i'::('n'::('s'::[]))))))))) :: ((('D'::('e'::('p'::('r'::('e'::('c'::('a'::('t'::('i'::('o'::('n'::('W'::('a'::('r'::('n'::('i'::('n'::('g'::[])))))))))))))))))),
    ('b'::('u'::('i'::('l'::('t'::('i'::('n'::('s'::[]))))))))) :: ((('E'::('O'::('F'::('E'::('r'::('r'::('o'::('r'::[])))))))),
    ('b'::('u'::('i'::('l'::('t'::('i'::('n'::('s'::[]))))))))) :: ((('E'::('l'::('l'::('i'::('p'::('s'::('i'::('s'::[])))))))),
    ('-'::[])) :: ((('E'::('n'::('c'::('o'::('d'::('i'::('n'::('g'::('W'::('a'::('r'::('n'::('i'::('n'::('g'::[]))))))))))))))),
    ('b'::('u'::('i'::('l'::('t'::('i'::('n'::('s'::[]))))))))) :: ((('E'::('n'::('v'::('i'::('r'::('o'::('n'::('m'::('e'::('n'::('t'::('E'::('r'::('r'::('o'::('r'::[])))))))))))))))),
    ('b'::('u'::('i'::('l'::('t'::('i'::('n'::('s'::[]))))))))) :: ((('E'::('x'::('c'::('e'::('p'::('t'::('i'::('o'::('n'::[]))))))))),
    ('b'::('u'::('i'::('l'::('t'::('i'::('n'::('s'::[]))))))))) :: ((('E'::('x'::('c'::('e'::('p'::('t'::('i'::('o'::('n'::('G'::('r'::('o'::('u'::('p'::[])))))))))))))),
    ('b'::('u'::('i'::('l'::('t'::('i'::('n'::('s'::[]))))))))) :: ((('F'::('a'::('l'::('s'::('e'::[]))))),
    ('-'::[])) :: ((('F'::('i'::('l'::('e'::('E'::('x'::('i'::('s'::('t'::('s'::('E'::('r'::('r'::('o'::('r'::[]))))))))))))))),
    ('b'::('u'::('i'::('l'::('t'::('i'::('n'::('s'::[]))))))))) :: ((('F'::('i'::('l'::('e'::('N'::('o'::('t'::('F'::('o'::('u'::('n'::('d'::('E'::('r'::('r'::('o'::('r'::[]))))))))))))))))),
    ('b'::('u'::('i'::('l'::('t'::('i'::('n'::('s'::[]))))))))) :: ((('F'::('l'::('o'::('a'::('t'::('i'::('n'::('g'::('P'::('o'::('i'::('n'::('t'::('E'::('r'::('r'::('o'::('r'::[])))))))))))))))))),
    ('b'::('u'::('i'::('l'::('t'::('i'::('n'::('s'::[]))))))))) :: ((('F'::('u'::('t'::('u'::('r'::('e'::('W'::('a'::('r'::('n'::('i'::('n'::('g'::[]))))))))))))),
    ('b'::('u'::('i'::('l'::('t'::('i'::('n'::('s'::[]))))))))) :: ((('G'::('e'::('n'::('e'::('r'::('a'::('t'::('o'::('r'::('E'::('x'::('i'::('t'::[]))))))))))))),
    ('b'::('u'::('i'::('l'::('t'::('i'::('n'::('s'::[]))))))))) :: ((('I'::('O'::('E'::('r'::('r'::('o'::('r'::[]))))))),
    ('b'::('u'::('i'::('l'::('t'::('i'::('n'::('s'::[]))))))))) :: ((('I'::('m'::('p'::('o'::('r'::('t'::('E'::('r'::('r'::('o'::('r'::[]))))))))))),
    ('b'::('u'::('i'::('l'::('t'::('i'::('n'::('s'::[]))))))))) :: ((('I'::('m'::('p'::('o'::('r'::('t'::('W'::('a'::('r'::('n'::('i'::('n'::('g'::[]))))))))))))),
    ('b'::('u'::('i'::('l'::('t'::('i'::('n'::('s'::[]))))))))) :: ((('I'::('n'::('d'::('e'::('n'::('t'::('a'::('t'::('i'::('o'::('n'::('E'::('r'::('r'::('o'::('r'::[])))))))))))))))),
    ('b'::('u'::('i'::('l'::('t'::('i'::('n'::('s'::[]))))))))) :: ((('I'::('n'::('d'::('e'::('x'::('E'::('r'::('r'::('o'::('r'::[])))))))))),
    ('b'::('u'::('i'::('l'::('t'::('i'::('n'::('s'::[]))))))))) :: ((('I'::('n'::('t'::('e'::('r'::('r'::('u'::('p'::('t'::('e'::('d'::('E'::('r'::('r'::('o'::('r'::[])))))))))))))))),
    ('b'::('u'::('i'::('l'::('t'::('i'::('n'::('s'::[]))))))))) :: ((('I'::('s'::('A'::('D'::('i'::('r'::('e'::('c'::('t'::('o'::('r'::('y'::('E'::('r'::('r'::('o'::('r'::[]))))))))))))))))),
    ('b'::('u'::('i'::('l'::('t'::('i'::('n'::('s'::[]))))))))) :: ((('K'::('e'::('y'::('E'::('r'::('r'::('o'::('r'::[])))))))),
    ('b'::('u'::('i'::('l'::('t'::('i'::('n'::('s'::[]))))))))) :: ((('K'::('e'::('y'::('b'::('o'::('a'::('r'::('d'::('I'::('n'::('t'::('e'::('r'::('r'::('u'::('p'::('t'::[]))))))))))))))))),
    ('b'::('u'::('i'::('l'::('t'::('i'::('n'::('s'::[]))))))))) :: ((('L'::('o'::('o'::('k'::('u'::('p'::('E'::('r'::('r'::('o'::('r'::[]))))))))))),
    ('b'::('u'::('i'::('l'::('t'::('i'::('n'::('s'::[]))))))))) :: ((('M'::('e'::('m'::('o'::('r'::('y'::('E'::('r'::('r'::('o'::('r'::[]))))))))))),
    ('b'::('u'::('i'::('l'::('t'::('i'::('n'::('s'::[]))))))))) :: ((('M'::('o'::('d'::('u'::('l'::('e'::('N'::('o'::('t'::('F'::('o'::('u'::('n'::('d'::('E'::('r'::('r'::('o'::('r'::[]))))))))))))))))))),
    ('b'::('u'::('i'::('l'::('t'::('i'::('n'::('s'::[]))))))))) :: ((('N'::('a'::('m'::('e'::('E'::('r'::('r'::('o'::('r'::[]))))))))),
    ('b'::('u'::('i'::('l'::('t'::('i'::('n'::('s'::[]))))))))) :: ((('N'::('o'::('n'::('e'::[])))),
    ('-'::[])) :: ((('N'::('o'::('t'::('A'::('D'::('i'::('r'::('e'::('c'::('t'::('o'::('r'::('y'::('E'::('r'::('r'::('o'::('r'::[])))))))))))))))))),
    ('b'::('u'::('i'::('l'::('t'::('i'::('n'::('s'::[]))))))))) :: ((('N'::('o'::('t'::('I'::('m'::('p'::('l'::('e'::('m'::('e'::('n'::('t'::('e'::('d'::[])))))))))))))),
    ('-'::[])) :: ((('N'::('o'::('t'::('I'::('m'::('p'::('l'::('e'::('m'::('e'::('n'::('t'::('e'::('d'::('E'::('r'::('r'::('o'::('r'::[]))))))))))))))))))),
    ('b'::('u'::('i'::('l'::('t'::('i'::('n'::('s'::[]))))))))) :: ((('O'::('S'::('E'::('r'::('r'::('o'::('r'::[]))))))),
    ('b'::('u'::('i'::('l'::('t'::('i'::('n'::('s'::[]))))))))) :: ((('O'::('v'::('e'::('r'::('f'::('l'::('o'::('w'::('E'::('r'::('r'::('o'::('r'::[]))))))))))))),
    ('b'::('u'::('i'::('l'::('t'::('i'::('n'::('s'::[]))))))))) :: ((('P'::('e'::('n'::('d'::('i'::('n'::('g'::('D'::('e'::('p'::('r'::('e'::('c'::('a'::('t'::('i'::('o'::('n'::('W'::('a'::('r'::('n'::('i'::('n'::('g'::[]))))))))))))))))))))))))),
    ('b'::('u'::('i'::('l'::('t'::('i'::('n'::('s'::[]))))))))) :: ((('P'::('e'::('r'::('m'::('i'::('s'::('s'::('i'::('o'::('n'::('E'::('r'::('r'::('o'::('r'::[]))))))))))))))),
    ('b'::('u'::('i'::('l'::('t'::('i'::('n'::('s'::[]))))))))) :: ((('P'::('r'::('o'::('c'::('e'::('s'::('s'::('L'::('o'::('o'::('k'::('u'::('p'::('E'::('r'::('r'::('o'::('r'::[])))))))))))))))))),
    ('b'::('u'::('i'::('l'::('t'::('i'::('n'::('s'::[]))))))))) :: ((('R'::('e'::('c'::('u'::('r'::('s'::('i'::('o'::('n'::('E'::('r'::('r'::('o'::('r'::[])))))))))))))),
    ('b'::('u'::('i'::('l'::('t'::('i'::('n'::('s'::[]))))))))) :: ((('R'::('e'::('f'::('e'::('r'::('e'::('n'::('c'::('e'::('E'::('r'::('r'::('o'::('r'::[])))))))))))))),
    ('b'::('u'::('i'::('l'::('t'::('i'::('n'::('s'::[]))))))))) :: ((('R'::('e'::('s'::('o'::('u'::('r'::('c'::('e'::('W'::('a'::('r'::('n'::('i'::('n'::('g'::[]))))))))))))))),
    ('b'::('u'::('i'::('l'::('t'::('i'::('n'::('s'::[]))))))))) :: ((('R'::('u'::('n'::('t'::('i'::('m'::('e'::('E'::('r'::('r'::('o'::('r'::[])))))))))))),
    ('b'::('u'::('i'::('l'::('t'::('i'::('n'::('s'::[]))))))))) :: ((('R'::('u'::('n'::('t'::('i'::('m'::('e'::('W'::('a'::('r'::('n'::('i'::('n'::('g'::[])))))))))))))),
    ('b'::('u'::('i'::('l'::('t'::('i'::('n'::('s'::[]))))))))) :: ((('S'::('t'::('o'::('p'::('A'::('s'::('y'::('n'::('c'::('I'::('t'::('e'::('r'::('a'::('t'::('i'::('o'::('n'::[])))))))))))))))))),
    ('b'::('u'::('i'::('l'::('t'::('i'::('n'::('s'::[]))))))))) :: ((('S'::('t'::('o'::('p'::('I'::('t'::('e'::('r'::('a'::('t'::('i'::('o'::('n'::[]))))))))))))),
    ('b'::('u'::('i'::('l'::('t'::('i'::('n'::('s'::[]))))))))) :: ((('S'::('y'::('n'::('t'::('a'::('x'::('E'::('r'::('r'::('o'::('r'::[]))))))))))),
    ('b'::('u'::('i'::('l'::('t'::('i'::('n'::('s'::[]))))))))) :: ((('S'::('y'::('n'::('t'::('a'::('x'::('W'::('a'::('r'::('n'::('i'::('n'::('g'::[]))))))))))))),
    ('b'::('u'::('i'::('l'::('t'::('i'::('n'::('s'::[]))))))))) :: ((('S'::('y'::('s'::('t'::('e'::('m'::('E'::('r'::('r'::('o'::('r'::[]))))))))))),
    ('b'::('u'::('i'::('l'::('t'::('i'::('n'::('s'::[]))))))))) :: ((('S'::('y'::('s'::('t'::('e'::('m'::('E'::('x'::('i'::('t'::[])))))))))),
    ('b'::('u'::('i'::('l'::('t'::('i'::('n'::('s'::[]))))))))) :: ((('T'::('a'::('b'::('E'::('r'::('r'::('o'::('r'::[])))))))),
    ('b'::('u'::('i'::('l'::('t'::('i'::('n'::('s'::[]))))))))) :: ((('T'::('i'::('m'::('e'::('o'::('u'::('t'::('E'::('r'::('r'::('o'::('r'::[])))))))))))),
    ('b'::('u'::('i'::('l'::('t'::('i'::('n'::('s'::[]))))))))) :: ((('T'::('r'::('u'::('e'::[])))),
    ('-'::[])) :: ((('T'::('y'::('p'::('e'::('E'::('r'::('r'::('o'::('r'::[]))))))))),
    ('b'::('u'::('i'::('l'::('t'::('i'::('n'::('s'::[]))))))))) :: ((('U'::('n'::('b'::('o'::('u'::('n'::('d'::('L'::('o'::('c'::('a'::('l'::('E'::('r'::('r'::('o'::('r'::[]))))))))))))))))),
    ('b'::('u'::('i'::('l'::('t'::('i'::('n'::('s'::[]))))))))) :: ((('U'::('n'::('i'::('c'::('o'::('d'::('e'::('D'::('e'::('c'::('o'::('d'::('e'::('E'::('r'::('r'::('o'::('r'::[])))))))))))))))))),
    ('b'::('u'::('i'::('l'::('t'::('i'::('n'::('s'::[]))))))))) :: ((('U'::('n'::('i'::('c'::('o'::('d'::('e'::('E'::('n'::('c'::('o'::('d'::('e'::('E'::('r'::('r'::('o'::('r'::[])))))))))))))))))),
    ('b'::('u'::('i'::('l'::('t'::('i'::('n'::('s'::[]))))))))) :: ((('U'::('n'::('i'::('c'::('o'::('d'::('e'::('E'::('r'::('r'::('o'::('r'::[])))))))))))),
    ('b'::('u'::('i'::('l'::('t'::('i'::('n'::('s'::[]))))))))) :: ((('U'::('n'::('i'::('c'::('o'::('d'::('e'::('T'::('r'::('a'::('n'::('s'::('l'::('a'::('t'::('e'::('E'::('r'::('r'::('o'::('r'::[]))))))))))))))))))))),
    ('b'::('u'::('i'::('l'::('t'::('i'::('n'::('s'::[]))))))))) :: ((('U'::('n'::('i'::('c'::('o'::('d'::('e'::('W'::('a'::('r'::('n'::('i'::('n'::('g'::[])))))))))))))),
    ('b'::('u'::('i'::('l'::('t'::('i'::('n'::('s'::[]))))))))) :: ((('U'::('s'::('e'::('r'::('W'::('a'::('r'::('n'::('i'::('n'::('g'::[]))))))))))),
    ('b'::('u'::('i'::('l'::('t'::('i'::('n'::('s'::[]))))))))) :: ((('V'::('a'::('l'::('u'::('e'::('E'::('r'::('r'::('o'::('r'::[])))))))))),
    ('b'::('u'::('i'::('l'::('t'::('i'::('n'::('s'::[]))))))))) :: ((('W'::('a'::('r'::('n'::('i'::('n'::('g'::[]))))))),
    ('b'::('u'::('i'::('l'::('t'::('i'::('n'::('s'::[]))))))))) :: ((('Z'::('e'::('r'::('o'::('D'::('i'::('v'::('i'::('s'::('i'::('o'::('n'::('E'::('r'::('r'::('o'::('r'::[]))))))))))))))))),
    ('b'::('u'::('i'::('l'::('t'::('i'::('n'::('s'::[]))))))))) :: ((('_'::('_'::('b'::('u'::('i'::('l'::('d'::('_'::('c'::('l'::('a'::('s'::('s'::('_'::('_'::[]))))))))))))))),
    ('b'::('u'::('i'::('l'::('t'::('i'::('n'::('s'::[]))))))))) :: ((('_'::('_'::('d'::('e'::('b'::('u'::('g'::('_'::('_'::[]))))))))),
    ('-'::[])) :: ((('_'::('_'::('d'::('o'::('c'::('_'::('_'::[]))))))),
    ('-'::[])) :: ((('_'::('_'::('i'::('m'::('p'::('o'::('r'::('t'::('_'::('_'::[])))))))))),
    ('b'::('u'::('i'::('l'::('t'::('i'::('n'::('s'::[]))))))))) :: ((('_'::('_'::('l'::('o'::('a'::('d'::('e'::('r'::('_'::('_'::[])))))))))),
    ('_'::('f'::('r'::('o'::('z'::('e'::('n'::('_'::('i'::('m'::('p'::('o'::('r'::('t'::('l'::('i'::('b'::[])))))))))))))))))) :: ((('_'::('_'::('n'::('a'::('m'::('e'::('_'::('_'::[])))))))),
    ('-'::[])) :: ((('_'::('_'::('p'::('a'::('c'::('k'::('a'::('g'::('e'::('_'::('_'::[]))))))))))),
    ('-'::[])) :: ((('_'::('_'::('s'::('p'::('e'::('c'::('_'::('_'::[])))))))),
    ('_'::('f'::('r'::('o'::('z'::('e'::('n'::('_'::('i'::('m'::('p'::('o'::('r'::('t'::('l'::('i'::('b'::[])))))))))))))))))) :: ((('a'::('b'::('s'::[]))),
    ('b'::('u'::('i'::('l'::('t'::('i'::('n'::('s'::[]))))))))) :: ((('a'::('i'::('t'::('e'::('r'::[]))))),
    ('b'::('u'::('i'::('l'::('t'::('i'::('n'::('s'::[]))))))))) :: ((('a'::('l'::('l'::[]))),
    ('b'::('u'::('i'::('l'::('t'::('i'::('n'::('s'::[]))))))))) :: ((('a'::('n'::('e'::('x'::('t'::[]))))),
    ('b'::('u'::('i'::('l'::('t'::('i'::('n'::('s'::[]))))))))) :: ((('a'::('n'::('y'::[]))),
    ('b'::('u'::('i'::('l'::('t'::('i'::('n'::('s'::[]))))))))) :: ((('a'::('s'::('c'::('i'::('i'::[]))))),
    ('b'::('u'::('i'::('l'::('t'::('i'::('n'::('s'::[]))))))))) :: ((('b'::('i'::('n'::[]))),
    ('b'::('u'::('i'::('l'::('t'::('i'::('n'::('s'::[]))))))))) :: ((('b'::('o'::('o'::('l'::[])))),
    ('b'::('u'::('i'::('l'::('t'::('i'::('n'::('s'::[]))))))))) :: ((('b'::('r'::('e'::('a'::('k'::('p'::('o'::('i'::('n'::('t'::[])))))))))),
    ('b'::('u'::('i'::('l'::('t'::('i'::('n'::('s'::[]))))))))) :: ((('b'::('y'::('t'::('e'::('a'::('r'::('r'::('a'::('y'::[]))))))))),
    ('b'::('u'::('i'::('l'::('t'::('i'::('n'::('s'::[]))))))))) :: ((('b'::('y'::('t'::('e'::('s'::[]))))),
    ('b'::('u'::('i'::('l'::('t'::('i'::('n'::('s'::[]))))))))) :: ((('c'::('a'::('l'::('l'::('a'::('b'::('l'::('e'::[])))))))),
    ('b'::('u'::('i'::('l'::('t'::('i'::('n'::('s'::[]))))))))) :: ((('c'::('h'::('r'::[]))),
    ('b'::('u'::('i'::('l'::('t'::('i'::('n'::('s'::[]))))))))) :: ((('c'::('l'::('a'::('s'::('s'::('m'::('e'::('t'::('h'::('o'::('d'::[]))))))))))),
    ('b'::('u'::('i'::('l'::('t'::('i'::('n'::('s'::[]))))))))) :: ((('c'::('o'::('m'::('p'::('i'::('l'::('e'::[]))))))),
    ('b'::('u'::('i'::('l'::('t'::('i'::('n'::('s'::[]))))))))) :: ((('c'::('o'::('m'::('p'::('l'::('e'::('x'::[]))))))),
    ('b'::('u'::('i'::('l'::('t'::('i'::('n'::('s'::[]))))))))) :: ((('c'::('o'::('p'::('y'::('r'::('i'::('g'::('h'::('t'::[]))))))))),
    ('_'::('s'::('i'::('t'::('e'::('b'::('u'::('i'::('l'::('t'::('i'::('n'::('s'::[])))))))))))))) :: ((('c'::('r'::('e'::('d'::('i'::('t'::('s'::[]))))))),
    ('_'::('s'::('i'::('t'::('e'::('b'::('u'::('i'::('l'::('t'::('i'::('n'::('s'::[])))))))))))))) :: ((('d'::('e'::('l'::('a'::('t'::('t'::('r'::[]))))))),
    ('b'::('u'::('i'::('l'::('t'::('i'::('n'::('s'::[]))))))))) :: ((('d'::('i'::('c'::('t'::[])))),
    ('b'::('u'::('i'::('l'::('t'::('i'::('n'::('s'::[]))))))))) :: ((('d'::('i'::('r'::[]))),
    ('b'::('u'::('i'::('l'::('t'::('i'::('n'::('s'::[]))))))))) :: ((('d'::('i'::('v'::('m'::('o'::('d'::[])))))),
    ('b'::('u'::('i'::('l'::('t'::('i'::('n'::('s'::[]))))))))) :: ((('e'::('n'::('u'::('m'::('e'::('r'::('a'::('t'::('e'::[]))))))))),
    ('b'::('u'::('i'::('l'::('t'::('i'::('n'::('s'::[]))))))))) :: ((('e'::('v'::('a'::('l'::[])))),
    ('b'::('u'::('i'::('l'::('t'::('i'::('n'::('s'::[]))))))))) :: ((('e'::('x'::('e'::('c'::[])))),
    ('b'::('u'::('i'::('l'::('t'::('i'::('n'::('s'::[]))))))))) :: ((('e'::('x'::('i'::('t'::[])))),
    ('_'::('s'::('i'::('t'::('e'::('b'::('u'::('i'::('l'::('t'::('i'::('n'::('s'::[])))))))))))))) :: ((('f'::('i'::('l'::('t'::('e'::('r'::[])))))),
    ('b'::('u'::('i'::('l'::('t'::('i'::('n'::('s'::[]))))))))) :: ((('f'::('l'::('o'::('a'::('t'::[]))))),
    ('b'::('u'::('i'::('l'::('t'::('i'::('n'::('s'::[]))))))))) :: ((('f'::('o'::('r'::('m'::('a'::('t'::[])))))),
    ('b'::('u'::('i'::('l'::('t'::('i'::('n'::('s'::[]))))))))) :: ((('f'::('r'::('o'::('z'::('e'::('n'::('s'::('e'::('t'::[]))))))))),
    ('b'::('u'::('i'::('l'::('t'::('i'::('n'::('s'::[]))))))))) :: ((('g'::('e'::('t'::('a'::('t'::('t'::('r'::[]))))))),
    ('b'::('u'::('i'::('l'::('t'::('i'::('n'::('s'::[]))))))))) :: ((('g'::('l'::('o'::('b'::('a'::('l'::('s'::[]))))))),
    ('b'::('u'::('i'::('l'::('t'::('i'::('n'::('s'::[]))))))))) :: ((('h'::('a'::('s'::('a'::('t'::('t'::('r'::[]))))))),
    ('b'::('u'::('i'::('l'::('t'::('i'::('n'::('s'::[]))))))))) :: ((('h'::('a'::('s'::('h'::[])))),
    ('b'::('u'::('i'::('l'::('t'::('i'::('n'::('s'::[]))))))))) :: ((('h'::('e'::('l'::('p'::[])))),
    ('_'::('s'::('i'::('t'::('e'::('b'::('u'::('i'::('l'::('t'::('i'::('n'::('s'::[])))))))))))))) :: ((('h'::('e'::('x'::[]))),
    ('b'::('u'::('i'::('l'::('t'::('i'::('n'::('s'::[]))))))))) :: ((('i'::('d'::[])),
    ('b'::('u'::('i'::('l'::('t'::('i'::('n'::('s'::[]))))))))) :: ((('i'::('n'::('p'::('u'::('t'::[]))))),
    ('b'::('u'::('i'::('l'::('t'::('i'::('n'::('s'::[]))))))))) :: ((('i'::('n'::('t'::[]))),
    ('b'::('u'::('i'::('l'::('t'::('i'::('n'::('s'::[]))))))))) :: ((('i'::('s'::('i'::('n'::('s'::('t'::('a'::('n'::('c'::('e'::[])))))))))),
    ('b'::('u'::('i'::('l'::('t'::('i'::('n'::('s'::[]))))))))) :: ((('i'::('s'::('s'::('u'::('b'::('c'::('l'::('a'::('s'::('s'::[])))))))))),
    ('b'::('u'::('i'::('l'::('t'::('i'::('n'::('s'::[]))))))))) :: ((('i'::('t'::('e'::('r'::[])))),
    ('b'::('u'::('i'::('l'::('t'::('i'::('n'::('s'::[]))))))))) :: ((('l'::('e'::('n'::[]))),
    ('b'::('u'::('i'::('l'::('t'::('i'::('n'::('s'::[]))))))))) :: ((('l'::('i'::('c'::('e'::('n'::('s'::('e'::[]))))))),
    ('_'::('s'::('i'::('t'::('e'::('b'::('u'::('i'::('l'::('t'::('i'::('n'::('s'::[])))))))))))))) :: ((('l'::('i'::('s'::('t'::[])))),
    ('b'::('u'::('i'::('l'::('t'::('i'::('n'::('s'::[]))))))))) :: ((('l'::('o'::('c'::('a'::('l'::('s'::[])))))),
    ('b'::('u'::('i'::('l'::('t'::('i'::('n'::('s'::[]))))))))) :: ((('m'::('a'::('p'::[]))),
    ('b'::('u'::('i'::('l'::('t'::('i'::('n'::('s'::[]))))))))) :: ((('m'::('a'::('x'::[]))),
    ('b'::('u'::('i'::('l'::('t'::('i'::('n'::('s'::[]))))))))) :: ((('m'::('e'::('m'::('o'::('r'::('y'::('v'::('i'::('e'::('w'::[])))))))))),
    ('b'::('u'::('i'::('l'::('t'::('i'::('n'::('s'::[]))))))))) :: ((('m'::('i'::('n'::[]))),
    ('b'::('u'::('i'::('l'::('t'::('i'::('n'::('s'::[]))))))))) :: ((('n'::('e'::('x'::('t'::[])))),
    ('b'::('u'::('i'::('l'::('t'::('i'::('n'::('s'::[]))))))))) :: ((('o'::('b'::('j'::('e'::('c'::('t'::[])))))),
    ('b'::('u'::('i'::('l'::('t'::('i'::('n'::('s'::[]))))))))) :: ((('o'::('c'::('t'::[]))),
    ('b'::('u'::('i'::('l'::('t'::('i'::('n'::('s'::[]))))))))) :: ((('o'::('p'::('e'::('n'::[])))),
    ('_'::('i'::('o'::[])))) :: ((('o'::('r'::('d'::[]))),
    ('b'::('u'::('i'::('l'::('t'::('i'::('n'::('s'::[]))))))))) :: ((('p'::('o'::('w'::[]))),
    ('b'::('u'::('i'::('l'::('t'::('i'::('n'::('s'::[]))))))))) :: ((('p'::('r'::('i'::('n'::('t'::[]))))),
    ('b'::('u'::('i'::('l'::('t'::('i'::('n'::('s'::[]))))))))) :: ((('p'::('r'::('o'::('p'::('e'::('r'::('t'::('y'::[])))))))),
    ('b'::('u'::('i'::('l'::('t'::('i'::('n'::('s'::[]))))))))) :: ((('q'::('u'::('i'::('t'::[])))),
    ('_'::('s'::('i'::('t'::('e'::('b'::('u'::('i'::('l'::('t'::('i'::('n'::('s'::[])))))))))))))) :: ((('r'::('a'::('n'::('g'::('e'::[]))))),
    ('b'::('u'::('i'::('l'::('t'::('i'::('n'::('s'::[]))))))))) :: ((('r'::('e'::('p'::('r'::[])))),
    ('b'::('u'::('i'::('l'::('t'::('i'::('n'::('s'::[]))))))))) :: ((('r'::('e'::('v'::('e'::('r'::('s'::('e'::('d'::[])))))))),
    ('b'::('u'::('i'::('l'::('t'::('i'::('n'::('s'::[]))))))))) :: ((('r'::('o'::('u'::('n'::('d'::[]))))),
    ('b'::('u'::('i'::('l'::('t'::('i'::('n'::('s'::[]))))))))) :: ((('s'::('e'::('t'::[]))),
    ('b'::('u'::('i'::('l'::('t'::('i'::('n'::('s'::[]))))))))) :: ((('s'::('e'::('t'::('a'::('t'::('t'::('r'::[]))))))),
    ('b'::('u'::('i'::('l'::('t'::('i'::('n'::('s'::[]))))))))) :: ((('s'::('l'::('i'::('c'::('e'::[]))))),
    ('b'::('u'::('i'::('l'::('t'::('i'::('n'::('s'::[]))))))))) :: ((('s'::('o'::('r'::('t'::('e'::('d'::[])))))),
    ('b'::('u'::('i'::('l'::('t'::('i'::('n'::('s'::[]))))))))) :: ((('s'::('t'::('a'::('t'::('i'::('c'::('m'::('e'::('t'::('h'::('o'::('d'::[])))))))))))),
    ('b'::('u'::('i'::('l'::('t'::('i'::('n'::('s'::[]))))))))) :: ((('s'::('t'::('r'::[]))),
    ('b'::('u'::('i'::('l'::('t'::('i'::('n'::('s'::[]))))))))) :: ((('s'::('u'::('m'::[]))),
    ('b'::('u'::('i'::('l'::('t'::('i'::('n'::('s'::[]))))))))) :: ((('s'::('u'::('p'::('e'::('r'::[]))))),
    ('b'::('u'::('i'::('l'::('t'::('i'::('n'::('s'::[]))))))))) :: ((('t'::('u'::('p'::('l'::('e'::[]))))),
    ('b'::('u'::('i'::('l'::('t'::('i'::('n'::('s'::[]))))))))) :: ((('t'::('y'::('p'::('e'::[])))),
    ('b'::('u'::('i'::('l'::('t'::('i'::('n'::('s'::[]))))))))) :: ((('v'::('a'::('r'::('s'::[])))),
    ('b'::('u'::('i'::('l'::('t'::('i'::('n'::('s'::[]))))))))) :: ((('z'::('i'::('p'::[]))),
    ('b'::('u'::('i'::('l'::('t'::('i'::('n'::('s'::[]))))))))) :: []))))))))))))))))))))))))))))))))))))))))))))))))))))))))))))))))))))))))))))))))))))))))))))))))))))))))))))))))))))))))))))))))))))))))))))))))))))))))))))

(** val documented : char list list **)

let documented =
  ('s'::('i'::('n'::[]))) :: (('c'::('o'::('s'::[]))) :: (('t'::('a'::('n'::[]))) :: (('a'::('c'::('o'::('s'::[])))) :: (('a'::('s'::('i'::('n'::[])))) :: (('a'::('t'::('a'::('n'::[])))) :: (('a'::('t'::('a'::('n'::('2'::[]))))) :: (('s'::('i'::('n'::('h'::[])))) :: (('c'::('o'::('s'::('h'::[])))) :: (('t'::('a'::('n'::('h'::[])))) :: (('a'::('s'::('i'::('n'::('h'::[]))))) :: (('a'::('c'::('o'::('s'::('h'::[]))))) :: (('a'::('t'::('a'::('n'::('h'::[]))))) :: (('e'::('x'::('p'::[]))) :: (('l'::('d'::('e'::('x'::('p'::[]))))) :: (('l'::('o'::('g'::[]))) :: (('l'::('n'::[])) :: (('l'::('o'::('g'::('1'::('0'::[]))))) :: (('e'::('x'::('p'::('2'::[])))) :: (('e'::('x'::('p'::('m'::('1'::[]))))) :: (('i'::('l'::('o'::('g'::('b'::[]))))) :: (('l'::('o'::('g'::('1'::('p'::[]))))) :: (('l'::('o'::('g'::('2'::[])))) :: (('s'::('c'::('a'::('l'::('b'::('n'::[])))))) :: (('s'::('c'::('a'::('l'::('b'::('l'::('n'::[]))))))) :: (('p'::('o'::('w'::[]))) :: (('s'::('q'::('r'::('t'::[])))) :: (('c'::('b'::('r'::('t'::[])))) :: (('h'::('y'::('p'::('o'::('t'::[]))))) :: (('e'::('r'::('f'::[]))) :: (('e'::('r'::('f'::('c'::[])))) :: (('t'::('g'::('a'::('m'::('m'::('a'::[])))))) :: (('l'::('g'::('a'::('m'::('m'::('a'::[])))))) :: (('c'::('e'::('i'::('l'::[])))) :: (('f'::('l'::('o'::('o'::('r'::[]))))) :: (('f'::('m'::('o'::('d'::[])))) :: (('t'::('r'::('u'::('n'::('c'::[]))))) :: (('r'::('o'::('u'::('n'::('d'::[]))))) :: (('r'::('i'::('n'::('t'::[])))) :: (('n'::('e'::('a'::('r'::('b'::('y'::('i'::('n'::('t'::[]))))))))) :: (('r'::('e'::('m'::('a'::('i'::('n'::('d'::('e'::('r'::[]))))))))) :: (('r'::('e'::('m'::('q'::('u'::('o'::[])))))) :: (('c'::('o'::('p'::('y'::('s'::('i'::('g'::('n'::[])))))))) :: (('n'::('a'::('n'::[]))) :: (('n'::('e'::('x'::('t'::('a'::('f'::('t'::('e'::('r'::[]))))))))) :: (('n'::('e'::('x'::('t'::('t'::('o'::('w'::('a'::('r'::('d'::[])))))))))) :: (('f'::('d'::('i'::('m'::[])))) :: (('f'::('m'::('a'::('x'::[])))) :: (('f'::('m'::('i'::('n'::[])))) :: (('f'::('a'::('b'::('s'::[])))) :: (('a'::('b'::('s'::[]))) :: (('f'::('m'::('a'::[]))) :: [])))))))))))))))))))))))))))))))))))))))))))))))))))

(** val math_env : menv **)

let math_env =
  { e_rows = math_rows; e_module = module_names; e_builtins = builtin_names }

type expr =
| EName of char list
| EConst of char list
| EAttr of expr * char list
| ECall of expr * expr list
| ELam of char list list * expr
| EOp of char list * expr list

type bval =
| BAst of expr
| BVal of nat

type frame = (char list * bval) list

type frames = frame list

(** val lookup_frame : frame -> char list -> bval option **)

let rec lookup_frame f x =
  match f with
  | [] -> None
  | p :: r -> let (y, v) = p in if eqb0 x y then Some v else lookup_frame r x

(** val lookup : frames -> char list -> bval option **)

let rec lookup fr x =
  match fr with
  | [] -> None
  | f :: r ->
    (match lookup_frame f x with
     | Some v -> Some v
     | None -> lookup r x)

(** val define_all : char list list -> bval list -> frame -> frame **)

let rec define_all ps vs f =
  match ps with
  | [] -> f
  | p :: ps' ->
    (match vs with
     | [] -> f
     | v :: vs' -> define_all ps' vs' ((p, v) :: f))

type cexpr =
| CFree of char list
| CVal of nat
| CConst of char list
| CAttr of cexpr * char list
| CCall of cexpr * cexpr list
| CLam of nat * cexpr
| COp of char list * cexpr list

(** val map_opt : ('a1 -> 'a2 option) -> 'a1 list -> 'a2 list option **)

let rec map_opt f = function
| [] -> Some []
| a :: r ->
  (match f a with
   | Some b ->
     (match map_opt f r with
      | Some r' -> Some (b :: r')
      | None -> None)
   | None -> None)

(** val resolve0 : nat -> frames -> nat -> expr -> cexpr option **)

let rec resolve0 fuel fr d e =
  match fuel with
  | O -> None
  | S f ->
    (match e with
     | EName x ->
       (match lookup fr x with
        | Some b ->
          (match b with
           | BAst a -> resolve0 f fr d a
           | BVal l -> Some (CVal l))
        | None -> Some (CFree x))
     | EConst c -> Some (CConst c)
     | EAttr (e1, a) ->
       option_map (fun r -> CAttr (r, a)) (resolve0 f fr d e1)
     | ECall (g, args) ->
       (match g with
        | EName fn ->
          option_map (fun x -> CCall ((CFree fn), x))
            (map_opt (resolve0 f fr d) args)
        | ELam (ps, body) ->
          resolve0 f ((define_all ps (map (fun x -> BAst x) args) []) :: fr)
            d body
        | _ ->
          (match resolve0 f fr d g with
           | Some rg ->
             (match map_opt (resolve0 f fr d) args with
              | Some ra -> Some (CCall (rg, ra))
              | None -> None)
           | None -> None))
     | ELam (ps, body) ->
       option_map (fun x -> CLam ((length ps), x))
         (resolve0 f
           ((define_all ps (map (fun x -> BVal x) (seq d (length ps))) []) :: fr)
           (add d (length ps)) body)
     | EOp (op, args) ->
       option_map (fun x -> COp (op, x)) (map_opt (resolve0 f fr d) args))

(** val empty_stack : frames **)

let empty_stack =
  [] :: []

(** val resolve_top : nat -> expr -> cexpr option **)

let resolve_top fuel e =
  resolve0 fuel empty_stack O e

(** val rewrite :
    char list list -> char list list -> char list list -> expr -> expr **)

let rec rewrite k mO mC = function
| EAttr (e1, a) -> EAttr ((rewrite k mO mC e1), a)
| ECall (g, args) ->
  let args' = map (rewrite k mO mC) args in
  (match g with
   | EName f ->
     if mem_str f k
     then ECall ((EConst
            (append ('<'::('f'::('n'::(':'::[])))) (append f ('>'::[])))),
            args')
     else ECall ((EName f), args')
   | EAttr (e0, m) ->
     (match e0 with
      | EName x ->
        if mem_str m mO
        then ECall ((EConst
               (append
                 ('<'::('m'::('e'::('t'::('h'::('o'::('d'::(':'::[]))))))))
                 (append m ('>'::[])))), ((EName x) :: args'))
        else if mem_str m mC
             then ECall ((EConst
                    (append ('<'::('c'::('p'::('p'::(':'::[])))))
                      (append m ('>'::[])))), args')
             else ECall ((EAttr ((EName x), m)), args')
      | _ -> ECall ((rewrite k mO mC g), args'))
   | _ -> ECall ((rewrite k mO mC g), args'))
| ELam (ps, b) -> ELam (ps, (rewrite k mO mC b))
| EOp (op, args) -> EOp (op, (map (rewrite k mO mC) args))
| x -> x

(** val d_expr : sexp -> expr option **)

let rec d_expr s =
  let go =
    let rec go = function
    | [] -> Some []
    | a :: r ->
      (match d_expr a with
       | Some a' ->
         (match go r with
          | Some r' -> Some (a' :: r')
          | None -> None)
       | None -> None)
    in go
  in
  (match s with
   | SAtom _ -> None
   | SList l ->
     (match l with
      | [] -> None
      | s0 :: l0 ->
        (match s0 with
         | SAtom s1 ->
           (match s1 with
            | [] -> None
            | a0::s2 ->
              (* If this appears, you're using Ascii internals. Please don't *)
 (fun f c ->
  let n = Char.code c in
  let h i = (n land (1 lsl i)) <> 0 in
  f (h 0) (h 1) (h 2) (h 3) (h 4) (h 5) (h 6) (h 7))
                (fun b0 b1 b2 b3 b4 b5 b6 b7 ->
                if b0
                then if b1
                     then if b2
                          then if b3
                               then if b4
                                    then None
                                    else if b5
                                         then if b6
                                              then if b7
                                                   then None
                                                   else (match s2 with
                                                         | [] -> None
                                                         | a::s3 ->
                                                           (* If this appears, you're using Ascii internals. Please don't *)
 (fun f c ->
  let n = Char.code c in
  let h i = (n land (1 lsl i)) <> 0 in
  f (h 0) (h 1) (h 2) (h 3) (h 4) (h 5) (h 6) (h 7))
                                                             (fun b b8 b9 b10 b11 b12 b13 b14 ->
                                                             if b
                                                             then None
                                                             else if b8
                                                                  then None
                                                                  else 
                                                                    if b9
                                                                    then None
                                                                    else 
                                                                    if b10
                                                                    then None
                                                                    else 
                                                                    if b11
                                                                    then 
                                                                    if b12
                                                                    then 
                                                                    if b13
                                                                    then 
                                                                    if b14
                                                                    then None
                                                                    else 
                                                                    (match s3 with
                                                                    | [] ->
                                                                    (match l0 with
                                                                    | [] ->
                                                                    None
                                                                    | s4 :: l1 ->
                                                                    (match s4 with
                                                                    | SAtom op ->
                                                                    (match l1 with
                                                                    | [] ->
                                                                    None
                                                                    | s5 :: l2 ->
                                                                    (match s5 with
                                                                    | SAtom _ ->
                                                                    None
                                                                    | SList args ->
                                                                    (match l2 with
                                                                    | [] ->
                                                                    option_map
                                                                    (fun x ->
                                                                    EOp (op,
                                                                    x))
                                                                    (go args)
                                                                    | _ :: _ ->
                                                                    None)))
                                                                    | SList _ ->
                                                                    None))
                                                                    | _::_ ->
                                                                    None)
                                                                    else None
                                                                    else None
                                                                    else None)
                                                             a)
                                              else None
                                         else None
                               else None
                          else if b3
                               then None
                               else if b4
                                    then None
                                    else if b5
                                         then if b6
                                              then if b7
                                                   then None
                                                   else (match s2 with
                                                         | [] -> None
                                                         | a::s3 ->
                                                           (* If this appears, you're using Ascii internals. Please don't *)
 (fun f c ->
  let n = Char.code c in
  let h i = (n land (1 lsl i)) <> 0 in
  f (h 0) (h 1) (h 2) (h 3) (h 4) (h 5) (h 6) (h 7))
                                                             (fun b b8 b9 b10 b11 b12 b13 b14 ->
                                                             if b
                                                             then if b8
                                                                  then 
                                                                    if b9
                                                                    then 
                                                                    if b10
                                                                    then 
                                                                    if b11
                                                                    then None
                                                                    else 
                                                                    if b12
                                                                    then 
                                                                    if b13
                                                                    then 
                                                                    if b14
                                                                    then None
                                                                    else 
                                                                    (match s3 with
                                                                    | [] ->
                                                                    None
                                                                    | a1::s4 ->
                                                                    (* If this appears, you're using Ascii internals. Please don't *)
 (fun f c ->
  let n = Char.code c in
  let h i = (n land (1 lsl i)) <> 0 in
  f (h 0) (h 1) (h 2) (h 3) (h 4) (h 5) (h 6) (h 7))
                                                                    (fun b15 b16 b17 b18 b19 b20 b21 b22 ->
                                                                    if b15
                                                                    then None
                                                                    else 
                                                                    if b16
                                                                    then 
                                                                    if b17
                                                                    then 
                                                                    if b18
                                                                    then 
                                                                    if b19
                                                                    then None
                                                                    else 
                                                                    if b20
                                                                    then 
                                                                    if b21
                                                                    then 
                                                                    if b22
                                                                    then None
                                                                    else 
                                                                    (match s4 with
                                                                    | [] ->
                                                                    None
                                                                    | a2::s5 ->
                                                                    (* If this appears, you're using Ascii internals. Please don't *)
 (fun f c ->
  let n = Char.code c in
  let h i = (n land (1 lsl i)) <> 0 in
  f (h 0) (h 1) (h 2) (h 3) (h 4) (h 5) (h 6) (h 7))
                                                                    (fun b23 b24 b25 b26 b27 b28 b29 b30 ->
                                                                    if b23
                                                                    then 
                                                                    if b24
                                                                    then 
                                                                    if b25
                                                                    then None
                                                                    else 
                                                                    if b26
                                                                    then None
                                                                    else 
                                                                    if b27
                                                                    then 
                                                                    if b28
                                                                    then 
                                                                    if b29
                                                                    then 
                                                                    if b30
                                                                    then None
                                                                    else 
                                                                    (match s5 with
                                                                    | [] ->
                                                                    None
                                                                    | a3::s6 ->
                                                                    (* If this appears, you're using Ascii internals. Please don't *)
 (fun f c ->
  let n = Char.code c in
  let h i = (n land (1 lsl i)) <> 0 in
  f (h 0) (h 1) (h 2) (h 3) (h 4) (h 5) (h 6) (h 7))
                                                                    (fun b31 b32 b33 b34 b35 b36 b37 b38 ->
                                                                    if b31
                                                                    then None
                                                                    else 
                                                                    if b32
                                                                    then None
                                                                    else 
                                                                    if b33
                                                                    then 
                                                                    if b34
                                                                    then None
                                                                    else 
                                                                    if b35
                                                                    then 
                                                                    if b36
                                                                    then 
                                                                    if b37
                                                                    then 
                                                                    if b38
                                                                    then None
                                                                    else 
                                                                    (match s6 with
                                                                    | [] ->
                                                                    (match l0 with
                                                                    | [] ->
                                                                    None
                                                                    | s7 :: l1 ->
                                                                    (match s7 with
                                                                    | SAtom c ->
                                                                    (match l1 with
                                                                    | [] ->
                                                                    Some
                                                                    (EConst c)
                                                                    | _ :: _ ->
                                                                    None)
                                                                    | SList _ ->
                                                                    None))
                                                                    | _::_ ->
                                                                    None)
                                                                    else None
                                                                    else None
                                                                    else None
                                                                    else None)
                                                                    a3)
                                                                    else None
                                                                    else None
                                                                    else None
                                                                    else None
                                                                    else None)
                                                                    a2)
                                                                    else None
                                                                    else None
                                                                    else None
                                                                    else None
                                                                    else None)
                                                                    a1)
                                                                    else None
                                                                    else None
                                                                    else None
                                                                    else None
                                                                  else 
                                                                    if b9
                                                                    then None
                                                                    else 
                                                                    if b10
                                                                    then None
                                                                    else 
                                                                    if b11
                                                                    then None
                                                                    else 
                                                                    if b12
                                                                    then 
                                                                    if b13
                                                                    then 
                                                                    if b14
                                                                    then None
                                                                    else 
                                                                    (match s3 with
                                                                    | [] ->
                                                                    None
                                                                    | a1::s4 ->
                                                                    (* If this appears, you're using Ascii internals. Please don't *)
 (fun f c ->
  let n = Char.code c in
  let h i = (n land (1 lsl i)) <> 0 in
  f (h 0) (h 1) (h 2) (h 3) (h 4) (h 5) (h 6) (h 7))
                                                                    (fun b15 b16 b17 b18 b19 b20 b21 b22 ->
                                                                    if b15
                                                                    then None
                                                                    else 
                                                                    if b16
                                                                    then None
                                                                    else 
                                                                    if b17
                                                                    then 
                                                                    if b18
                                                                    then 
                                                                    if b19
                                                                    then None
                                                                    else 
                                                                    if b20
                                                                    then 
                                                                    if b21
                                                                    then 
                                                                    if b22
                                                                    then None
                                                                    else 
                                                                    (match s4 with
                                                                    | [] ->
                                                                    None
                                                                    | a2::s5 ->
                                                                    (* If this appears, you're using Ascii internals. Please don't *)
 (fun f c ->
  let n = Char.code c in
  let h i = (n land (1 lsl i)) <> 0 in
  f (h 0) (h 1) (h 2) (h 3) (h 4) (h 5) (h 6) (h 7))
                                                                    (fun b23 b24 b25 b26 b27 b28 b29 b30 ->
                                                                    if b23
                                                                    then None
                                                                    else 
                                                                    if b24
                                                                    then None
                                                                    else 
                                                                    if b25
                                                                    then 
                                                                    if b26
                                                                    then 
                                                                    if b27
                                                                    then None
                                                                    else 
                                                                    if b28
                                                                    then 
                                                                    if b29
                                                                    then 
                                                                    if b30
                                                                    then None
                                                                    else 
                                                                    (match s5 with
                                                                    | [] ->
                                                                    (match l0 with
                                                                    | [] ->
                                                                    None
                                                                    | g :: l1 ->
                                                                    (match l1 with
                                                                    | [] ->
                                                                    None
                                                                    | s6 :: l2 ->
                                                                    (match s6 with
                                                                    | SAtom _ ->
                                                                    None
                                                                    | SList args ->
                                                                    (match l2 with
                                                                    | [] ->
                                                                    (match 
                                                                    d_expr g with
                                                                    | Some g' ->
                                                                    (match 
                                                                    go args with
                                                                    | Some a' ->
                                                                    Some
                                                                    (ECall
                                                                    (g', a'))
                                                                    | None ->
                                                                    None)
                                                                    | None ->
                                                                    None)
                                                                    | _ :: _ ->
                                                                    None))))
                                                                    | _::_ ->
                                                                    None)
                                                                    else None
                                                                    else None
                                                                    else None
                                                                    else None)
                                                                    a2)
                                                                    else None
                                                                    else None
                                                                    else None
                                                                    else None)
                                                                    a1)
                                                                    else None
                                                                    else None
                                                             else None)
                                                             a)
                                              else None
                                         else None
                     else if b2
                          then None
                          else if b3
                               then None
                               else if b4
                                    then None
                                    else if b5
                                         then if b6
                                              then if b7
                                                   then None
                                                   else (match s2 with
                                                         | [] -> None
                                                         | a1::s3 ->
                                                           (* If this appears, you're using Ascii internals. Please don't *)
 (fun f c ->
  let n = Char.code c in
  let h i = (n land (1 lsl i)) <> 0 in
  f (h 0) (h 1) (h 2) (h 3) (h 4) (h 5) (h 6) (h 7))
                                                             (fun b b8 b9 b10 b11 b12 b13 b14 ->
                                                             if b
                                                             then None
                                                             else if b8
                                                                  then None
                                                                  else 
                                                                    if b9
                                                                    then 
                                                                    if b10
                                                                    then None
                                                                    else 
                                                                    if b11
                                                                    then 
                                                                    if b12
                                                                    then 
                                                                    if b13
                                                                    then 
                                                                    if b14
                                                                    then None
                                                                    else 
                                                                    (match s3 with
                                                                    | [] ->
                                                                    None
                                                                    | a2::s4 ->
                                                                    (* If this appears, you're using Ascii internals. Please don't *)
 (fun f c ->
  let n = Char.code c in
  let h i = (n land (1 lsl i)) <> 0 in
  f (h 0) (h 1) (h 2) (h 3) (h 4) (h 5) (h 6) (h 7))
                                                                    (fun b15 b16 b17 b18 b19 b20 b21 b22 ->
                                                                    if b15
                                                                    then None
                                                                    else 
                                                                    if b16
                                                                    then None
                                                                    else 
                                                                    if b17
                                                                    then 
                                                                    if b18
                                                                    then None
                                                                    else 
                                                                    if b19
                                                                    then 
                                                                    if b20
                                                                    then 
                                                                    if b21
                                                                    then 
                                                                    if b22
                                                                    then None
                                                                    else 
                                                                    (match s4 with
                                                                    | [] ->
                                                                    None
                                                                    | a3::s5 ->
                                                                    (* If this appears, you're using Ascii internals. Please don't *)
 (fun f c ->
  let n = Char.code c in
  let h i = (n land (1 lsl i)) <> 0 in
  f (h 0) (h 1) (h 2) (h 3) (h 4) (h 5) (h 6) (h 7))
                                                                    (fun b23 b24 b25 b26 b27 b28 b29 b30 ->
                                                                    if b23
                                                                    then None
                                                                    else 
                                                                    if b24
                                                                    then 
                                                                    if b25
                                                                    then None
                                                                    else 
                                                                    if b26
                                                                    then None
                                                                    else 
                                                                    if b27
                                                                    then 
                                                                    if b28
                                                                    then 
                                                                    if b29
                                                                    then 
                                                                    if b30
                                                                    then None
                                                                    else 
                                                                    (match s5 with
                                                                    | [] ->
                                                                    (match l0 with
                                                                    | [] ->
                                                                    None
                                                                    | e1 :: l1 ->
                                                                    (match l1 with
                                                                    | [] ->
                                                                    None
                                                                    | s6 :: l2 ->
                                                                    (match s6 with
                                                                    | SAtom a ->
                                                                    (match l2 with
                                                                    | [] ->
                                                                    option_map
                                                                    (fun e' ->
                                                                    EAttr
                                                                    (e', a))
                                                                    (d_expr
                                                                    e1)
                                                                    | _ :: _ ->
                                                                    None)
                                                                    | SList _ ->
                                                                    None)))
                                                                    | _::_ ->
                                                                    None)
                                                                    else None
                                                                    else None
                                                                    else None
                                                                    else None)
                                                                    a3)
                                                                    else None
                                                                    else None
                                                                    else None
                                                                    else None)
                                                                    a2)
                                                                    else None
                                                                    else None
                                                                    else None
                                                                    else None)
                                                             a1)
                                              else None
                                         else None
                else if b1
                     then if b2
                          then if b3
                               then if b4
                                    then None
                                    else if b5
                                         then if b6
                                              then if b7
                                                   then None
                                                   else (match s2 with
                                                         | [] -> None
                                                         | a::s3 ->
                                                           (* If this appears, you're using Ascii internals. Please don't *)
 (fun f c ->
  let n = Char.code c in
  let h i = (n land (1 lsl i)) <> 0 in
  f (h 0) (h 1) (h 2) (h 3) (h 4) (h 5) (h 6) (h 7))
                                                             (fun b b8 b9 b10 b11 b12 b13 b14 ->
                                                             if b
                                                             then if b8
                                                                  then None
                                                                  else 
                                                                    if b9
                                                                    then None
                                                                    else 
                                                                    if b10
                                                                    then None
                                                                    else 
                                                                    if b11
                                                                    then None
                                                                    else 
                                                                    if b12
                                                                    then 
                                                                    if b13
                                                                    then 
                                                                    if b14
                                                                    then None
                                                                    else 
                                                                    (match s3 with
                                                                    | [] ->
                                                                    None
                                                                    | a1::s4 ->
                                                                    (* If this appears, you're using Ascii internals. Please don't *)
 (fun f c ->
  let n = Char.code c in
  let h i = (n land (1 lsl i)) <> 0 in
  f (h 0) (h 1) (h 2) (h 3) (h 4) (h 5) (h 6) (h 7))
                                                                    (fun b15 b16 b17 b18 b19 b20 b21 b22 ->
                                                                    if b15
                                                                    then 
                                                                    if b16
                                                                    then None
                                                                    else 
                                                                    if b17
                                                                    then 
                                                                    if b18
                                                                    then 
                                                                    if b19
                                                                    then None
                                                                    else 
                                                                    if b20
                                                                    then 
                                                                    if b21
                                                                    then 
                                                                    if b22
                                                                    then None
                                                                    else 
                                                                    (match s4 with
                                                                    | [] ->
                                                                    None
                                                                    | a2::s5 ->
                                                                    (* If this appears, you're using Ascii internals. Please don't *)
 (fun f c ->
  let n = Char.code c in
  let h i = (n land (1 lsl i)) <> 0 in
  f (h 0) (h 1) (h 2) (h 3) (h 4) (h 5) (h 6) (h 7))
                                                                    (fun b23 b24 b25 b26 b27 b28 b29 b30 ->
                                                                    if b23
                                                                    then 
                                                                    if b24
                                                                    then None
                                                                    else 
                                                                    if b25
                                                                    then 
                                                                    if b26
                                                                    then None
                                                                    else 
                                                                    if b27
                                                                    then None
                                                                    else 
                                                                    if b28
                                                                    then 
                                                                    if b29
                                                                    then 
                                                                    if b30
                                                                    then None
                                                                    else 
                                                                    (match s5 with
                                                                    | [] ->
                                                                    (match l0 with
                                                                    | [] ->
                                                                    None
                                                                    | s6 :: l1 ->
                                                                    (match s6 with
                                                                    | SAtom x ->
                                                                    (match l1 with
                                                                    | [] ->
                                                                    Some
                                                                    (EName x)
                                                                    | _ :: _ ->
                                                                    None)
                                                                    | SList _ ->
                                                                    None))
                                                                    | _::_ ->
                                                                    None)
                                                                    else None
                                                                    else None
                                                                    else None
                                                                    else None)
                                                                    a2)
                                                                    else None
                                                                    else None
                                                                    else None
                                                                    else None
                                                                    else None)
                                                                    a1)
                                                                    else None
                                                                    else None
                                                             else None)
                                                             a)
                                              else None
                                         else None
                               else None
                          else None
                     else if b2
                          then if b3
                               then if b4
                                    then None
                                    else if b5
                                         then if b6
                                              then if b7
                                                   then None
                                                   else (match s2 with
                                                         | [] -> None
                                                         | a::s3 ->
                                                           (* If this appears, you're using Ascii internals. Please don't *)
 (fun f c ->
  let n = Char.code c in
  let h i = (n land (1 lsl i)) <> 0 in
  f (h 0) (h 1) (h 2) (h 3) (h 4) (h 5) (h 6) (h 7))
                                                             (fun b8 b9 b10 b11 b12 b13 b14 b15 ->
                                                             if b8
                                                             then if b9
                                                                  then None
                                                                  else 
                                                                    if b10
                                                                    then None
                                                                    else 
                                                                    if b11
                                                                    then None
                                                                    else 
                                                                    if b12
                                                                    then None
                                                                    else 
                                                                    if b13
                                                                    then 
                                                                    if b14
                                                                    then 
                                                                    if b15
                                                                    then None
                                                                    else 
                                                                    (match s3 with
                                                                    | [] ->
                                                                    None
                                                                    | a1::s4 ->
                                                                    (* If this appears, you're using Ascii internals. Please don't *)
 (fun f c ->
  let n = Char.code c in
  let h i = (n land (1 lsl i)) <> 0 in
  f (h 0) (h 1) (h 2) (h 3) (h 4) (h 5) (h 6) (h 7))
                                                                    (fun b16 b17 b18 b19 b20 b21 b22 b23 ->
                                                                    if b16
                                                                    then 
                                                                    if b17
                                                                    then None
                                                                    else 
                                                                    if b18
                                                                    then 
                                                                    if b19
                                                                    then 
                                                                    if b20
                                                                    then None
                                                                    else 
                                                                    if b21
                                                                    then 
                                                                    if b22
                                                                    then 
                                                                    if b23
                                                                    then None
                                                                    else 
                                                                    (match s4 with
                                                                    | [] ->
                                                                    (match l0 with
                                                                    | [] ->
                                                                    None
                                                                    | ps :: l1 ->
                                                                    (match l1 with
                                                                    | [] ->
                                                                    None
                                                                    | b :: l2 ->
                                                                    (match l2 with
                                                                    | [] ->
                                                                    (match 
                                                                    d_strs ps with
                                                                    | Some ps' ->
                                                                    (match 
                                                                    d_expr b with
                                                                    | Some b' ->
                                                                    Some
                                                                    (ELam
                                                                    (ps', b'))
                                                                    | None ->
                                                                    None)
                                                                    | None ->
                                                                    None)
                                                                    | _ :: _ ->
                                                                    None)))
                                                                    | _::_ ->
                                                                    None)
                                                                    else None
                                                                    else None
                                                                    else None
                                                                    else None
                                                                    else None)
                                                                    a1)
                                                                    else None
                                                                    else None
                                                             else None)
                                                             a)
                                              else None
                                         else None
                               else None
                          else None)
                a0)
         | SList _ -> None)))

(** val e_expr : expr -> sexp **)

let rec e_expr = function
| EName x -> s_tag ('n'::('a'::('m'::('e'::[])))) ((SAtom x) :: [])
| EConst c -> s_tag ('c'::('o'::('n'::('s'::('t'::[]))))) ((SAtom c) :: [])
| EAttr (e1, a) ->
  s_tag ('a'::('t'::('t'::('r'::[])))) ((e_expr e1) :: ((SAtom a) :: []))
| ECall (g, args) ->
  s_tag ('c'::('a'::('l'::('l'::[])))) ((e_expr g) :: ((SList
    (map e_expr args)) :: []))
| ELam (ps, b) ->
  s_tag ('l'::('a'::('m'::[]))) ((s_strs ps) :: ((e_expr b) :: []))
| EOp (op, args) ->
  s_tag ('o'::('p'::[])) ((SAtom op) :: ((SList (map e_expr args)) :: []))

(** val e_cexpr : cexpr -> sexp **)

let rec e_cexpr = function
| CFree x -> s_tag ('f'::('r'::('e'::('e'::[])))) ((SAtom x) :: [])
| CVal l -> s_tag ('v'::('a'::('l'::[]))) ((s_nat l) :: [])
| CConst k -> s_tag ('c'::('o'::('n'::('s'::('t'::[]))))) ((SAtom k) :: [])
| CAttr (e, a) ->
  s_tag ('a'::('t'::('t'::('r'::[])))) ((e_cexpr e) :: ((SAtom a) :: []))
| CCall (g, args) ->
  s_tag ('c'::('a'::('l'::('l'::[])))) ((e_cexpr g) :: ((SList
    (map e_cexpr args)) :: []))
| CLam (n0, b) ->
  s_tag ('l'::('a'::('m'::[]))) ((s_nat n0) :: ((e_cexpr b) :: []))
| COp (op, args) ->
  s_tag ('o'::('p'::[])) ((SAtom op) :: ((SList (map e_cexpr args)) :: []))

(** val run_resolve : sexp -> sexp **)

let run_resolve = function
| SAtom _ -> bad_input
| SList l ->
  (match l with
   | [] -> bad_input
   | fu :: l0 ->
     (match l0 with
      | [] -> bad_input
      | q :: l1 ->
        (match l1 with
         | [] ->
           (match d_nat fu with
            | Some fuel ->
              (match d_expr q with
               | Some e ->
                 (match resolve_top fuel e with
                  | Some c -> s_tag ('o'::('k'::[])) ((e_cexpr c) :: [])
                  | None -> s_err ErrOutOfFuel)
               | None -> bad_input)
            | None -> bad_input)
         | _ :: _ -> bad_input)))

(** val run_rewrite : sexp -> sexp **)

let run_rewrite = function
| SAtom _ -> bad_input
| SList l ->
  (match l with
   | [] -> bad_input
   | k :: l0 ->
     (match l0 with
      | [] -> bad_input
      | mo :: l1 ->
        (match l1 with
         | [] -> bad_input
         | mc :: l2 ->
           (match l2 with
            | [] -> bad_input
            | q :: l3 ->
              (match l3 with
               | [] ->
                 (match d_strs k with
                  | Some k0 ->
                    (match d_strs mo with
                     | Some mO ->
                       (match d_strs mc with
                        | Some mC ->
                          (match d_expr q with
                           | Some e ->
                             s_tag ('o'::('k'::[]))
                               ((e_expr (rewrite k0 mO mC e)) :: [])
                           | None -> bad_input)
                        | None -> bad_input)
                     | None -> bad_input)
                  | None -> bad_input)
               | _ :: _ -> bad_input)))))

(** val dispatch : char list -> sexp -> sexp **)

let dispatch cmd arg =
  if eqb0 cmd ('c'::('1'::('5'::('.'::('g'::('e'::('n'::[])))))))
  then run_gen arg
  else if eqb0 cmd
            ('c'::('1'::('2'::('.'::('a'::('u'::('d'::('i'::('t'::[])))))))))
       then audit math_env documented
       else if eqb0 cmd
                 ('c'::('0'::('8'::('.'::('r'::('e'::('s'::('o'::('l'::('v'::('e'::[])))))))))))
            then run_resolve arg
            else if eqb0 cmd
                      ('c'::('0'::('8'::('.'::('r'::('e'::('w'::('r'::('i'::('t'::('e'::[])))))))))))
                 then run_rewrite arg
                 else s_tag
                        ('u'::('n'::('k'::('n'::('o'::('w'::('n'::('-'::('c'::('o'::('m'::('m'::('a'::('n'::('d'::[])))))))))))))))
                        ((SAtom cmd) :: [])
